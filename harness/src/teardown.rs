//! C08, runtime-teardown crash points.  One case per *child process* (a case may spin or abort):
//! real UDP sockets on loopback, the subject network on its own multi-thread runtime, its peer on
//! another one.  The subject's task is parked at a named pause point (hook), the subject's runtime
//! is torn down from the main thread, the task is released, and we watch for panics (hook), for a
//! worker that never returns from `poll` (teardown does not complete), and for API calls on the
//! still-alive handle that panic or hang.
use crate::net::Svc;
use anemo::{Network, PeerId};
use serde_json::json;
use std::sync::atomic::{AtomicBool, AtomicU64, Ordering};
use std::sync::{Arc, Condvar, Mutex};
use std::time::{Duration, Instant};

struct Gate {
    st: Mutex<GateState>,
    cv: Condvar,
}
#[derive(Default)]
struct GateState {
    armed: bool,
    hits: u64,
    parked: bool,
    released: bool,
}

static PANICS: Mutex<Vec<String>> = Mutex::new(Vec::new());

fn start_real(rt: &tokio::runtime::Runtime, key: u8, tick_ms: u64, shutdown_idle_ms: Option<u64>) -> Network {
    rt.block_on(async move {
        let mut c = anemo::Config::default();
        c.connectivity_check_interval_ms = Some(tick_ms);
        c.shutdown_idle_timeout_ms = shutdown_idle_ms;
        c.connect_timeout_ms = Some(2_000);
        let mut q = anemo::QuicConfig::default();
        q.max_idle_timeout_ms = Some(5_000);
        c.quic = Some(q);
        Network::bind("127.0.0.1:0").private_key([key; 32]).server_name("verif").config(c).start(Svc::new()).unwrap()
    })
}

fn hang_request() -> anemo::Request<bytes::Bytes> {
    let mut r = anemo::Request::new(bytes::Bytes::from_static(b"x")).with_route("/t");
    r.headers_mut().insert("x-hang".into(), "1".into());
    r
}

pub fn child(args: &[String]) -> ! {
    let get = |k: &str| args.iter().position(|x| x == k).and_then(|i| args.get(i + 1)).cloned();
    let scenario = get("--scenario").unwrap_or_else(|| "idle".into());
    let trigger = get("--trigger").unwrap_or_else(|| "none".into());
    let point = get("--point").unwrap_or_else(|| "cm.loop".into());
    let occ: u64 = get("--occ").and_then(|s| s.parse().ok()).unwrap_or(1);
    let mode = get("--mode").unwrap_or_else(|| "timeout".into());

    std::panic::set_hook(Box::new(|info| {
        let t = std::thread::current().name().unwrap_or("?").to_string();
        PANICS.lock().unwrap().push(format!("[{t}] {info}"));
    }));

    let gate = Arc::new(Gate { st: Mutex::new(GateState::default()), cv: Condvar::new() });
    {
        let gate = gate.clone();
        let point = point.clone();
        anemo::verif::set_point_callback(Some(Arc::new(move |info: &anemo::verif::PointInfo<'_>| {
            if info.name != point {
                return;
            }
            if !std::thread::current().name().map(|n| n.starts_with("subject")).unwrap_or(false) {
                return;
            }
            let mut g = gate.st.lock().unwrap();
            if !g.armed || g.parked {
                return;
            }
            g.hits += 1;
            if g.hits == occ {
                g.parked = true;
                gate.cv.notify_all();
                while !g.released {
                    g = gate.cv.wait(g).unwrap();
                }
            }
        })));
    }

    let peer_rt = tokio::runtime::Builder::new_multi_thread().worker_threads(1).thread_name("peer").enable_all().build().unwrap();
    let sub_rt = tokio::runtime::Builder::new_multi_thread().worker_threads(2).thread_name("subject").enable_all().build().unwrap();
    let p = start_real(&peer_rt, 7, 60_000, None);
    let s = start_real(&sub_rt, 9, 150, Some(500));
    let (p_id, s_id): (PeerId, PeerId) = (p.peer_id(), s.peer_id());
    let weak = s.downgrade();
    // a bound but silent UDP socket: dials to it stay pending
    let silent = std::net::UdpSocket::bind("127.0.0.1:0").unwrap();
    let silent_addr = silent.local_addr().unwrap();

    // ---- reach the scenario's state
    let connected = matches!(scenario.as_str(), "connected" | "inflight" | "busy");
    if connected {
        let (s2, pa) = (s.clone(), p.local_addr());
        sub_rt.block_on(async move { s2.connect_with_peer_id(pa, p_id).await }).unwrap();
        std::thread::sleep(Duration::from_millis(100));
    }
    if matches!(scenario.as_str(), "inflight" | "busy") {
        // requests hanging in both directions
        let mut peer = s.peer(p_id).unwrap();
        sub_rt.spawn(async move {
            let _ = peer.rpc(hang_request()).await;
        });
        let p2 = p.clone();
        peer_rt.spawn(async move {
            let _ = p2.rpc(s_id, hang_request()).await;
        });
        std::thread::sleep(Duration::from_millis(100));
    }
    if matches!(scenario.as_str(), "dialing" | "busy") {
        let s2 = s.clone();
        sub_rt.spawn(async move {
            let _ = s2.connect(silent_addr).await;
        });
        std::thread::sleep(Duration::from_millis(50));
    }
    let mut handle: Option<Network> = Some(s);

    // ---- arm, then pull the trigger that makes the subject walk towards the point
    gate.st.lock().unwrap().armed = true;
    match trigger.as_str() {
        "shutdown" => {
            let s2 = handle.as_ref().unwrap().clone();
            sub_rt.spawn(async move {
                let _ = s2.shutdown().await;
            });
        }
        "drop" => {
            handle = None;
        }
        "peer-leaves" => {
            let p2 = p.clone();
            peer_rt.spawn(async move {
                let _ = p2.shutdown().await;
            });
        }
        "peer-dials" => {
            let (p2, sa) = (p.clone(), handle.as_ref().unwrap().local_addr());
            peer_rt.spawn(async move {
                let _ = p2.connect(sa).await;
            });
        }
        "disconnect" => {
            let _ = handle.as_ref().unwrap().disconnect(p_id);
        }
        _ => {}
    }
    let parked = {
        let g = gate.st.lock().unwrap();
        let (g, _) = gate.cv.wait_timeout_while(g, Duration::from_millis(1500), |g| !g.parked).unwrap();
        g.parked
    };

    // ---- tear the subject's runtime down while its task sits inside `poll`
    let done = Arc::new(AtomicBool::new(false));
    let took = Arc::new(AtomicU64::new(0));
    let t0 = Instant::now();
    {
        let (done, took, mode) = (done.clone(), took.clone(), mode.clone());
        std::thread::Builder::new()
            .name("teardown".into())
            .spawn(move || {
                match mode.as_str() {
                    "drop" => drop(sub_rt),
                    _ => sub_rt.shutdown_timeout(Duration::from_secs(3)),
                }
                took.store(t0.elapsed().as_millis() as u64, Ordering::SeqCst);
                done.store(true, Ordering::SeqCst);
            })
            .unwrap();
    }
    std::thread::sleep(Duration::from_millis(150));
    {
        let mut g = gate.st.lock().unwrap();
        g.released = true;
        g.armed = false;
        gate.cv.notify_all();
    }
    let mut waited = 0;
    while !done.load(Ordering::SeqCst) && waited < 4500 {
        std::thread::sleep(Duration::from_millis(50));
        waited += 50;
    }
    let teardown_done = done.load(Ordering::SeqCst);
    let teardown_ms = took.load(Ordering::SeqCst);
    let worker_stuck = !teardown_done || teardown_ms >= 2_900;

    // ---- the handle is still alive: every API call must return (an error), none may panic or hang
    let mut api = serde_json::Map::new();
    if let Some(s) = handle.as_ref() {
        let post_rt = tokio::runtime::Builder::new_current_thread().enable_all().build().unwrap();
        let s = s.clone();
        let weak = weak.clone();
        let (tx, rx) = std::sync::mpsc::channel();
        std::thread::Builder::new()
            .name("post-api".into())
            .spawn(move || {
                let r = std::panic::catch_unwind(std::panic::AssertUnwindSafe(|| {
                    let mut m = serde_json::Map::new();
                    m.insert("peers".into(), json!(s.peers().len()));
                    m.insert("is_closed".into(), json!(s.is_closed()));
                    m.insert("upgrade".into(), json!(weak.upgrade().is_some()));
                    m.insert("disconnect".into(), json!(s.disconnect(p_id).is_ok()));
                    m.insert("subscribe".into(), json!(s.subscribe().is_ok()));
                    let lim = Duration::from_secs(3);
                    post_rt.block_on(async {
                        let c = tokio::time::timeout(lim, s.connect(silent_addr)).await;
                        m.insert("connect".into(), json!(match c { Err(_) => "hang", Ok(Ok(_)) => "ok", Ok(Err(_)) => "err" }));
                        let r = tokio::time::timeout(lim, s.rpc(p_id, hang_request())).await;
                        m.insert("rpc".into(), json!(match r { Err(_) => "hang", Ok(Ok(_)) => "ok", Ok(Err(_)) => "err" }));
                        let sh = tokio::time::timeout(lim, s.shutdown()).await;
                        m.insert("shutdown".into(), json!(match sh { Err(_) => "hang", Ok(Ok(_)) => "ok", Ok(Err(_)) => "err" }));
                    });
                    drop(s);
                    m
                }));
                let _ = tx.send(r.ok());
            })
            .unwrap();
        match rx.recv_timeout(Duration::from_secs(12)) {
            Ok(Some(m)) => api = m,
            Ok(None) => {
                api.insert("panicked".into(), json!(true));
            }
            Err(_) => {
                api.insert("stuck".into(), json!(true));
            }
        }
    }
    drop(handle);
    let panics = PANICS.lock().unwrap().clone();
    println!(
        "RESULT {}",
        json!({"scenario": scenario, "trigger": trigger, "point": point, "occ": occ, "mode": mode, "parked": parked,
               "teardown_done": teardown_done, "teardown_ms": teardown_ms, "worker_stuck": worker_stuck, "panics": panics, "api": api})
    );
    use std::io::Write;
    let _ = std::io::stdout().flush();
    std::process::exit(0)
}

/// the (scenario, trigger, point) triples worth placing: every pause point of the manager loop, its
/// shutdown sequence, the active-peer set and the connection handler, each in the states in which it
/// is reached
pub fn cases(quick: bool) -> Vec<(String, String, String, u64, String)> {
    let mut v = vec![];
    let mut add = |sc: &str, tr: &str, pt: &str, occ: u64, mode: &str| v.push((sc.to_string(), tr.to_string(), pt.to_string(), occ, mode.to_string()));
    let loop_points = ["cm.loop", "cm.tick"];
    let shutdown_points = ["cm.loop_exit", "cm.shutdown.closed", "cm.shutdown.pending_done", "cm.shutdown.handlers_done", "cm.shutdown.idle_done", "cm.shutdown_done"];
    let scenarios = ["idle", "connected", "inflight", "dialing", "busy"];
    for sc in scenarios {
        for pt in loop_points {
            add(sc, "none", pt, 1, "timeout");
            if !quick {
                add(sc, "none", pt, 3, "drop");
            }
        }
        for tr in ["shutdown", "drop"] {
            for pt in shutdown_points {
                if quick && !(sc == "busy" || sc == "idle" || pt == "cm.shutdown.pending_done" || pt == "cm.loop_exit") {
                    continue;
                }
                add(sc, tr, pt, 1, "timeout");
            }
        }
    }
    for sc in ["connected", "inflight", "busy"] {
        add(sc, "peer-leaves", "rh.exit", 1, "timeout");
        add(sc, "peer-leaves", "rh.end", 1, "timeout");
        add(sc, "peer-leaves", "cm.handler", 1, "timeout");
        add(sc, "peer-leaves", "ap.send_event", 1, "timeout");
        add(sc, "disconnect", "rh.exit", 1, "timeout");
        add(sc, "none", "rh.loop", 1, "timeout");
        add(sc, "shutdown", "rh.exit", 1, "timeout");
        add(sc, "shutdown", "cm.handler", 1, "timeout");
    }
    for sc in ["idle", "dialing"] {
        add(sc, "peer-dials", "cm.accept", 1, "timeout");
        add(sc, "peer-dials", "cm.pending", 1, "timeout");
        add(sc, "peer-dials", "ap.write", 1, "timeout");
        add(sc, "peer-dials", "ap.send_event", 1, "timeout");
    }
    add("dialing", "none", "cm.pending", 1, "timeout"); // the dial to the silent socket times out
    add("dialing", "shutdown", "cm.pending", 1, "timeout");
    // no pause point: plain teardown (racing)
    for sc in scenarios {
        add(sc, "none", "-", 1, "timeout");
        add(sc, "shutdown", "-", 1, "drop");
    }
    v
}
