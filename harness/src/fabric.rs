//! In-memory datagram fabric under tokio's (pausable) clock: an implementation of
//! `quinn::AsyncUdpSocket` whose sends are delivered to the destination's inbox after a latency
//! drawn from the seeded PRNG, with loss / duplication / partitions / black holes from a fault
//! configuration.  Whole networks (and raw adversary endpoints) attach to one fabric and run on a
//! single `current_thread` runtime started with `start_paused(true)`, so QUIC timers, anemo's tick,
//! backoff and timeouts all run in virtual time.
use crate::rng::Rng;
use quinn::udp::{RecvMeta, Transmit};
use std::collections::{HashMap, HashSet, VecDeque};
use std::io::{self, IoSliceMut};
use std::net::SocketAddr;
use std::pin::Pin;
use std::sync::{Arc, Mutex};
use std::task::{Context, Poll, Waker};
use std::time::Duration;

#[derive(Clone, Debug)]
pub struct Faults {
    /// per-datagram loss probability (parts per 1000)
    pub loss_permille: u64,
    pub dup_permille: u64,
    pub min_latency_us: u64,
    pub max_latency_us: u64,
}

impl Default for Faults {
    fn default() -> Self {
        Faults { loss_permille: 0, dup_permille: 0, min_latency_us: 1_000, max_latency_us: 1_000 }
    }
}

#[derive(Clone, Debug)]
pub struct DatagramLog {
    pub at: Duration,
    pub src: SocketAddr,
    pub dst: SocketAddr,
    pub len: usize,
    pub first: u8,
    pub dropped: bool,
}

#[derive(Default)]
struct Inbox {
    queue: VecDeque<(SocketAddr, Vec<u8>)>,
    waker: Option<Waker>,
}

struct Inner {
    nodes: HashMap<SocketAddr, Arc<Mutex<Inbox>>>,
    rng: Rng,
    faults: Faults,
    /// unordered pairs that cannot talk
    partitions: HashSet<(SocketAddr, SocketAddr)>,
    /// addresses that swallow everything (nobody home)
    black_holes: HashSet<SocketAddr>,
    log: Vec<DatagramLog>,
    log_enabled: bool,
    start: tokio::time::Instant,
    sent: u64,
    lost: u64,
}

#[derive(Clone)]
pub struct Fabric(Arc<Mutex<Inner>>);

fn pair(a: SocketAddr, b: SocketAddr) -> (SocketAddr, SocketAddr) {
    if a <= b {
        (a, b)
    } else {
        (b, a)
    }
}

impl Fabric {
    /// must be called inside the runtime
    pub fn new(seed: u64) -> Self {
        Fabric(Arc::new(Mutex::new(Inner {
            nodes: HashMap::new(),
            rng: Rng::new(seed ^ 0xFAB),
            faults: Faults::default(),
            partitions: HashSet::new(),
            black_holes: HashSet::new(),
            log: vec![],
            log_enabled: false,
            start: tokio::time::Instant::now(),
            sent: 0,
            lost: 0,
        })))
    }

    pub fn addr(n: u16) -> SocketAddr {
        SocketAddr::from(([10, 0, (n >> 8) as u8, (n & 0xff) as u8], 4000 + n))
    }

    pub fn socket(&self, addr: SocketAddr) -> Arc<FabricSocket> {
        let inbox = Arc::new(Mutex::new(Inbox::default()));
        self.0.lock().unwrap().nodes.insert(addr, inbox.clone());
        Arc::new(FabricSocket { addr, fabric: self.clone(), inbox })
    }

    /// detach an address (datagrams to it vanish)
    pub fn remove(&self, addr: SocketAddr) {
        self.0.lock().unwrap().nodes.remove(&addr);
    }

    pub fn set_faults(&self, f: Faults) {
        self.0.lock().unwrap().faults = f;
    }
    pub fn partition(&self, a: SocketAddr, b: SocketAddr, on: bool) {
        let mut g = self.0.lock().unwrap();
        if on {
            g.partitions.insert(pair(a, b));
        } else {
            g.partitions.remove(&pair(a, b));
        }
    }
    pub fn heal_all(&self) {
        let mut g = self.0.lock().unwrap();
        g.partitions.clear();
        g.black_holes.clear();
    }
    pub fn black_hole(&self, a: SocketAddr, on: bool) {
        let mut g = self.0.lock().unwrap();
        if on {
            g.black_holes.insert(a);
        } else {
            g.black_holes.remove(&a);
        }
    }
    pub fn enable_log(&self, on: bool) {
        self.0.lock().unwrap().log_enabled = on;
    }
    pub fn take_log(&self) -> Vec<DatagramLog> {
        std::mem::take(&mut self.0.lock().unwrap().log)
    }
    pub fn stats(&self) -> (u64, u64) {
        let g = self.0.lock().unwrap();
        (g.sent, g.lost)
    }
    pub fn now(&self) -> Duration {
        let g = self.0.lock().unwrap();
        tokio::time::Instant::now() - g.start
    }

    fn send(&self, src: SocketAddr, dst: SocketAddr, data: &[u8]) {
        let (deliveries, inbox) = {
            let mut g = self.0.lock().unwrap();
            g.sent += 1;
            let blocked = g.partitions.contains(&pair(src, dst)) || g.black_holes.contains(&dst) || g.black_holes.contains(&src);
            let lp = g.faults.loss_permille;
            let lost = blocked || (lp > 0 && g.rng.below(1000) < lp);
            if g.log_enabled {
                let at = tokio::time::Instant::now() - g.start;
                g.log.push(DatagramLog { at, src, dst, len: data.len(), first: data.first().copied().unwrap_or(0), dropped: lost });
            }
            if lost {
                g.lost += 1;
                return;
            }
            let inbox = match g.nodes.get(&dst) {
                Some(i) => i.clone(),
                None => {
                    g.lost += 1;
                    return;
                }
            };
            let mut n = 1;
            let dp = g.faults.dup_permille;
            if dp > 0 && g.rng.below(1000) < dp {
                n = 2;
            }
            let (lo, hi) = (g.faults.min_latency_us, g.faults.max_latency_us.max(g.faults.min_latency_us));
            let ds: Vec<u64> = (0..n).map(|_| g.rng.range(lo, hi)).collect();
            (ds, inbox)
        };
        for us in deliveries {
            let inbox = inbox.clone();
            let data = data.to_vec();
            tokio::spawn(async move {
                tokio::time::sleep(Duration::from_micros(us)).await;
                let w = {
                    let mut ib = inbox.lock().unwrap();
                    ib.queue.push_back((src, data));
                    ib.waker.take()
                };
                if let Some(w) = w {
                    w.wake();
                }
            });
        }
    }
}

pub struct FabricSocket {
    addr: SocketAddr,
    fabric: Fabric,
    inbox: Arc<Mutex<Inbox>>,
}

impl std::fmt::Debug for FabricSocket {
    fn fmt(&self, f: &mut std::fmt::Formatter<'_>) -> std::fmt::Result {
        write!(f, "FabricSocket({})", self.addr)
    }
}

#[derive(Debug)]
struct AlwaysWritable;
impl quinn::UdpPoller for AlwaysWritable {
    fn poll_writable(self: Pin<&mut Self>, _cx: &mut Context) -> Poll<io::Result<()>> {
        Poll::Ready(Ok(()))
    }
}

impl quinn::AsyncUdpSocket for FabricSocket {
    fn create_io_poller(self: Arc<Self>) -> Pin<Box<dyn quinn::UdpPoller>> {
        Box::pin(AlwaysWritable)
    }

    fn try_send(&self, t: &Transmit) -> io::Result<()> {
        match t.segment_size {
            Some(seg) if seg > 0 => {
                for chunk in t.contents.chunks(seg) {
                    self.fabric.send(self.addr, t.destination, chunk);
                }
            }
            _ => self.fabric.send(self.addr, t.destination, t.contents),
        }
        Ok(())
    }

    fn poll_recv(&self, cx: &mut Context, bufs: &mut [IoSliceMut<'_>], meta: &mut [RecvMeta]) -> Poll<io::Result<usize>> {
        let mut ib = self.inbox.lock().unwrap();
        let mut n = 0;
        while n < bufs.len().min(meta.len()) {
            match ib.queue.pop_front() {
                Some((from, data)) => {
                    let len = data.len().min(bufs[n].len());
                    bufs[n][..len].copy_from_slice(&data[..len]);
                    let mut m = RecvMeta::default();
                    m.addr = from;
                    m.len = len;
                    m.stride = len;
                    m.ecn = None;
                    m.dst_ip = None;
                    meta[n] = m;
                    n += 1;
                }
                None => break,
            }
        }
        if n > 0 {
            Poll::Ready(Ok(n))
        } else {
            ib.waker = Some(cx.waker().clone());
            Poll::Pending
        }
    }

    fn local_addr(&self) -> io::Result<SocketAddr> {
        Ok(self.addr)
    }

    fn may_fragment(&self) -> bool {
        false
    }
}

/// the paused-clock single-thread runtime every fabric scenario runs on
pub fn paused_rt() -> tokio::runtime::Runtime {
    tokio::runtime::Builder::new_current_thread().enable_all().start_paused(true).build().unwrap()
}
