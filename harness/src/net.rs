//! Whole anemo networks on the fabric, with an instrumented user service.
use crate::fabric::Fabric;
use anemo::types::response::StatusCode;
use anemo::{Config, Network, PeerId, Request, Response};
use bytes::Bytes;
use std::collections::HashMap;
use std::convert::Infallible;
use std::future::Future;
use std::net::SocketAddr;
use std::pin::Pin;
use std::sync::atomic::{AtomicI64, AtomicU64, Ordering};
use std::sync::{Arc, Mutex};
use std::task::{Context, Poll};
use std::time::Duration;

#[derive(Clone, Debug)]
pub struct Invocation {
    pub id: String,
    pub peer: Option<PeerId>,
    pub route: String,
    pub at: Duration,
    pub body_len: usize,
    pub body_sum: u64,
    pub headers: Vec<(String, String)>,
    pub origin: Option<anemo::ConnectionOrigin>,
}

#[derive(Default)]
pub struct SvcLog {
    pub invocations: Vec<Invocation>,
    /// id -> (started, finished, dropped-before-finish) with virtual timestamps of finish/drop
    pub lifecycle: HashMap<String, (u64, u64, u64)>,
    pub drop_times: HashMap<String, Duration>,
    pub max_concurrent: i64,
}

pub struct SvcShared {
    pub log: Mutex<SvcLog>,
    pub live_clones: AtomicI64,
    pub concurrent: AtomicI64,
    pub calls: AtomicU64,
    pub start: tokio::time::Instant,
}

/// The user service of every harness network.  Behaviour is selected per request by headers:
/// `x-id` (identifier, logged), `x-sleep-ms` (virtual sleep before answering), `x-hang` (never
/// answer), `x-status` (status code of the answer), `x-resp-len` (answer body of that many bytes),
/// otherwise the answer is a fixed function of the request (see `expected_response`).
pub struct Svc(pub Arc<SvcShared>);

impl Svc {
    pub fn new() -> Self {
        let s = Arc::new(SvcShared {
            log: Mutex::new(SvcLog::default()),
            live_clones: AtomicI64::new(1),
            concurrent: AtomicI64::new(0),
            calls: AtomicU64::new(0),
            start: tokio::time::Instant::now(),
        });
        Svc(s)
    }
    pub fn shared(&self) -> Arc<SvcShared> {
        self.0.clone()
    }
}

impl Clone for Svc {
    fn clone(&self) -> Self {
        self.0.live_clones.fetch_add(1, Ordering::SeqCst);
        Svc(self.0.clone())
    }
}

impl Drop for Svc {
    fn drop(&mut self) {
        self.0.live_clones.fetch_sub(1, Ordering::SeqCst);
    }
}

pub fn body_sum(b: &[u8]) -> u64 {
    // adler-like rolling checksum
    let (mut a, mut s) = (1u64, 0u64);
    for &x in b {
        a = (a + x as u64) % 65521;
        s = (s + a) % 65521;
    }
    (s << 16) | a
}

/// the answer the service gives to a request (absent the behaviour headers)
pub fn expected_response_body(id: &str, req_body: &[u8]) -> Vec<u8> {
    let mut v = Vec::with_capacity(req_body.len() + id.len() + 1);
    v.extend_from_slice(id.as_bytes());
    v.push(b'|');
    v.extend(req_body.iter().map(|b| b ^ 0x5a));
    v
}

pub fn status_from_u16(c: u16) -> StatusCode {
    StatusCode::new(c).unwrap_or(StatusCode::Unknown)
}

struct CallGuard {
    shared: Arc<SvcShared>,
    id: String,
    finished: bool,
}

impl Drop for CallGuard {
    fn drop(&mut self) {
        self.shared.concurrent.fetch_sub(1, Ordering::SeqCst);
        let mut log = self.shared.log.lock().unwrap();
        let e = log.lifecycle.entry(self.id.clone()).or_default();
        if self.finished {
            e.1 += 1;
        } else {
            e.2 += 1;
        }
        let t = tokio::time::Instant::now() - self.shared.start;
        log.drop_times.insert(self.id.clone(), t);
    }
}

impl tower::Service<Request<Bytes>> for Svc {
    type Response = Response<Bytes>;
    type Error = Infallible;
    type Future = Pin<Box<dyn Future<Output = Result<Response<Bytes>, Infallible>> + Send>>;

    fn poll_ready(&mut self, _cx: &mut Context<'_>) -> Poll<Result<(), Infallible>> {
        Poll::Ready(Ok(()))
    }

    fn call(&mut self, req: Request<Bytes>) -> Self::Future {
        let shared = self.0.clone();
        shared.calls.fetch_add(1, Ordering::SeqCst);
        let id = req.headers().get("x-id").cloned().unwrap_or_else(|| "-".into());
        let c = shared.concurrent.fetch_add(1, Ordering::SeqCst) + 1;
        {
            let mut log = shared.log.lock().unwrap();
            let mut hs: Vec<(String, String)> = req.headers().iter().map(|(k, v)| (k.clone(), v.clone())).collect();
            hs.sort();
            log.invocations.push(Invocation {
                id: id.clone(),
                peer: req.peer_id().copied(),
                route: req.route().to_string(),
                at: tokio::time::Instant::now() - shared.start,
                body_len: req.body().len(),
                body_sum: body_sum(req.body()),
                headers: hs,
                origin: req.extensions().get::<anemo::ConnectionOrigin>().copied(),
            });
            log.lifecycle.entry(id.clone()).or_default().0 += 1;
            if c > log.max_concurrent {
                log.max_concurrent = c;
            }
        }
        let mut guard = CallGuard { shared, id: id.clone(), finished: false };
        Box::pin(async move {
            let h = req.headers();
            if let Some(ms) = h.get("x-sleep-ms").and_then(|s| s.parse::<u64>().ok()) {
                tokio::time::sleep(Duration::from_millis(ms)).await;
            }
            if let Some(ms) = h.get("x-block-ms").and_then(|s| s.parse::<u64>().ok()) {
                // a handler that does not yield (blocking / CPU-bound user code)
                std::thread::sleep(std::time::Duration::from_millis(ms));
            }
            if h.contains_key("x-panic") {
                panic!("verif: the application's handler panics on this request");
            }
            if h.contains_key("x-hang") {
                futures::future::pending::<()>().await;
            }
            let status = h.get("x-status").and_then(|s| s.parse::<u16>().ok()).map(status_from_u16).unwrap_or(StatusCode::Success);
            let body = match h.get("x-resp-len").and_then(|s| s.parse::<usize>().ok()) {
                Some(n) => vec![0xabu8; n],
                None => expected_response_body(&id, req.body()),
            };
            let mut resp = Response::new(Bytes::from(body)).with_status(status);
            for (k, v) in h.iter() {
                if !k.starts_with("x-") && k != "timeout" {
                    resp.headers_mut().insert(format!("echo-{k}"), v.clone());
                }
            }
            if let Some(n) = h.get("x-resp-hdr-len").and_then(|s| s.parse::<usize>().ok()) {
                resp.headers_mut().insert("pad".into(), "p".repeat(n));
            }
            resp.headers_mut().insert("x-id".into(), id.clone());
            guard.finished = true;
            drop(guard);
            Ok(resp)
        })
    }
}

pub struct Node {
    pub net: Network,
    pub addr: SocketAddr,
    pub id: PeerId,
    pub svc: Arc<SvcShared>,
    pub key: [u8; 32],
}

pub fn key_of(seed: u64, idx: u16) -> [u8; 32] {
    let mut r = crate::rng::Rng::new(seed.wrapping_mul(1000).wrapping_add(idx as u64) ^ 0x4b45_59);
    let mut k = [0u8; 32];
    k.copy_from_slice(&r.bytes(32));
    k
}

pub fn start_node_with(fabric: &Fabric, idx: u16, key: [u8; 32], name: &str, alt: Option<&str>, cfg: Config) -> anyhow::Result<Node> {
    start_node_opts(fabric, idx, key, name, alt, cfg, 0)
}

/// `custom_outbound_layer`: 1 = also install a (transparent) user outbound request layer, after the
/// configuration was given to the builder; 2 = the same, but BEFORE the configuration is given (the
/// builder's setters may be called in any order)
pub fn start_node_opts(fabric: &Fabric, idx: u16, key: [u8; 32], name: &str, alt: Option<&str>, cfg: Config, custom_outbound_layer: u8) -> anyhow::Result<Node> {
    let addr = Fabric::addr(idx);
    let sock = fabric.socket(addr);
    let svc = Svc::new();
    let shared = svc.shared();
    let mut b = if custom_outbound_layer == 2 {
        Network::bind("127.0.0.1:0").outbound_request_layer(tower::layer::util::Identity::new()).verif_socket(sock).server_name(name).private_key(key).config(cfg)
    } else {
        Network::bind("127.0.0.1:0").private_key(key).server_name(name).config(cfg).verif_socket(sock)
    };
    if let Some(a) = alt {
        b = b.alternate_server_name(a);
    }
    if custom_outbound_layer == 1 {
        b = b.outbound_request_layer(tower::layer::util::Identity::new());
    }
    let net = b.start(svc)?;
    let id = net.peer_id();
    Ok(Node { net, addr, id, svc: shared, key })
}

/// a node whose top-level service exerts `poll_ready` back-pressure (one request at a time)
pub fn start_node_limited(fabric: &Fabric, seed: u64, idx: u16, cfg: Config) -> anyhow::Result<Node> {
    let key = key_of(seed, idx);
    let addr = Fabric::addr(idx);
    let sock = fabric.socket(addr);
    let svc = Svc::new();
    let shared = svc.shared();
    let limited = tower::limit::ConcurrencyLimit::new(svc, 1);
    let net = Network::bind("127.0.0.1:0").private_key(key).server_name("verif").config(cfg).verif_socket(sock).start(limited)?;
    let id = net.peer_id();
    Ok(Node { net, addr, id, svc: shared, key })
}

/// turns a service that fails with an `rpc::Status` into an infallible one (what generated servers do)
#[derive(Clone)]
pub struct StatusToResponse<S>(pub S);
impl<S> tower::Service<Request<Bytes>> for StatusToResponse<S>
where
    S: tower::Service<Request<Bytes>, Response = Response<Bytes>, Error = anemo::rpc::Status>,
    S::Future: Send + 'static,
{
    type Response = Response<Bytes>;
    type Error = Infallible;
    type Future = Pin<Box<dyn Future<Output = Result<Response<Bytes>, Infallible>> + Send>>;
    fn poll_ready(&mut self, cx: &mut Context<'_>) -> Poll<Result<(), Infallible>> {
        match self.0.poll_ready(cx) {
            Poll::Ready(_) => Poll::Ready(Ok(())),
            Poll::Pending => Poll::Pending,
        }
    }
    fn call(&mut self, req: Request<Bytes>) -> Self::Future {
        use anemo::types::response::IntoResponse;
        let f = self.0.call(req);
        Box::pin(async move {
            Ok(match f.await {
                Ok(x) => x,
                Err(s) => s.into_response(),
            })
        })
    }
}

/// a node whose service sits behind anemo-tower's per-peer in-flight limit
pub fn start_node_inflight(fabric: &Fabric, seed: u64, idx: u16, cfg: Config, max: usize, block: bool) -> anyhow::Result<Node> {
    use anemo_tower::inflight_limit::{InflightLimitLayer, WaitMode};
    let key = key_of(seed, idx);
    let addr = Fabric::addr(idx);
    let sock = fabric.socket(addr);
    let svc = Svc::new();
    let shared = svc.shared();
    use anemo::rpc::Status;
    use tower::ServiceExt;
    let _ = InflightLimitLayer::new;
    let inner = svc.map_err(|e: Infallible| -> Status { match e {} });
    let limited = anemo_tower::inflight_limit::InflightLimit::new(inner, max, if block { WaitMode::Block } else { WaitMode::ReturnError });
    let layered = StatusToResponse(limited);
    let net = Network::bind("127.0.0.1:0").private_key(key).server_name("verif").config(cfg).verif_socket(sock).start(layered)?;
    let id = net.peer_id();
    Ok(Node { net, addr, id, svc: shared, key })
}

/// a node at an arbitrary fabric address (e.g. an IPv6 one)
pub fn start_node_at(fabric: &Fabric, addr: SocketAddr, key: [u8; 32], cfg: Config) -> anyhow::Result<Node> {
    let sock = fabric.socket(addr);
    let svc = Svc::new();
    let shared = svc.shared();
    let net = Network::bind("127.0.0.1:0").private_key(key).server_name("verif").config(cfg).verif_socket(sock).start(svc)?;
    let id = net.peer_id();
    Ok(Node { net, addr, id, svc: shared, key })
}

pub fn start_node(fabric: &Fabric, seed: u64, idx: u16, cfg: Config) -> anyhow::Result<Node> {
    start_node_with(fabric, idx, key_of(seed, idx), "verif", None, cfg)
}

/// a Config with a short idle timeout so that losses are noticed quickly in virtual time
pub fn config_idle(ms: u64) -> Config {
    let mut c = Config::default();
    let mut q = anemo::QuicConfig::default();
    q.max_idle_timeout_ms = Some(ms);
    c.quic = Some(q);
    c
}

pub fn pid_hex(p: &PeerId) -> String {
    hex::encode(p.0)
}
