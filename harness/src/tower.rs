//! C18, C19, C20: the anemo-tower layers around instrumented inner services.
use crate::out::Run;
use crate::rng::Rng;
use anemo::types::response::StatusCode;
use anemo::{PeerId, Request, Response};
use anemo_tower::auth::{AllowedPeers, RequireAuthorizationLayer};
use bytes::Bytes;
use serde_json::json;
use std::collections::{BTreeMap, HashMap};
use std::convert::Infallible;
use std::future::Future;
use std::pin::Pin;
use std::sync::atomic::{AtomicU64, Ordering};
use std::sync::{Arc, Mutex};
use std::task::{Context, Poll};
use std::time::{Duration, Instant};
use tower::{Layer, Service, ServiceExt};

fn pid(n: u64) -> PeerId {
    let mut x = [0u8; 32];
    x[24..].copy_from_slice(&n.to_be_bytes());
    PeerId(x)
}


// ------------------------------------------------------------------ the layers as INSTALLED on generated servers

/// C18 / C19 / C20: "with the layer installed" -- installed the way applications install it, on a method of
/// a generated server with `add_layer_for_<method>`, alone or together with other layers added before or
/// after it for the same method.  The limiter / authorizer must govern that method in every arrangement
/// and must not touch the service's other methods.
pub fn generated_server_stack(run: &mut Run, which: &str) -> anyhow::Result<()> {
    use crate::codegen::{beta, Instr, Msg, H};
    use anemo::codegen::InboundRequestLayer;
    use anemo::middleware::add_extension::AddExtensionLayer;
    #[derive(Clone)]
    struct Marker(#[allow(dead_code)] u8);
    let rt = tokio::runtime::Builder::new_current_thread().enable_all().start_paused(true).build()?;
    for arrangement in 0..4u8 {
        let h = H::default();
        let which2 = which.to_string();
        let problems: Vec<String> = rt.block_on(async {
            let guard = || -> InboundRequestLayer<Msg, Msg> {
                match which2.as_str() {
                    "inflight" => InboundRequestLayer::new(anemo_tower::inflight_limit::InflightLimitLayer::new(1, anemo_tower::inflight_limit::WaitMode::ReturnError)),
                    "rate" => InboundRequestLayer::new(anemo_tower::rate_limit::RateLimitLayer::new(governor::Quota::per_hour(std::num::NonZeroU32::new(1).unwrap()), anemo_tower::rate_limit::WaitMode::ReturnError)),
                    _ => InboundRequestLayer::new(anemo_tower::rate_limit::RateLimitLayer::new(governor::Quota::per_hour(std::num::NonZeroU32::new(1).unwrap()), anemo_tower::rate_limit::WaitMode::ReturnError)),
                }
            };
            let other = |k: u8| -> InboundRequestLayer<Msg, Msg> { InboundRequestLayer::new(AddExtensionLayer::new(Marker(k))) };
            let server = beta::beta_server::BetaServer::new(h.clone());
            let server: tower::util::BoxCloneService<Request<Bytes>, Response<Bytes>, Infallible> = if which2 == "auth" {
                // the authorization layer works on raw requests: it is installed on the routes of a Router
                // (`route_layer`), before or after other route layers, or on a router merged into another
                let auth = || RequireAuthorizationLayer::new(AllowedPeers::new([pid(1)]));
                let base = anemo::Router::new().add_rpc_service(server);
                let r = match arrangement {
                    0 => base.route_layer(auth()),
                    1 => base.route_layer(auth()).route_layer(AddExtensionLayer::new(Marker(1))),
                    2 => base.route_layer(AddExtensionLayer::new(Marker(1))).route_layer(auth()),
                    _ => anemo::Router::new().route("/pkg.sub.Beta2/Two", crate::router::TagSvc(1)).route_layer(AddExtensionLayer::new(Marker(2))).merge(base.route_layer(auth())).route_layer(AddExtensionLayer::new(Marker(3))),
                };
                tower::util::BoxCloneService::new(r)
            } else {
                tower::util::BoxCloneService::new(match arrangement {
                    0 => server.add_layer_for_m_one(guard()),
                    1 => server.add_layer_for_m_one(guard()).add_layer_for_m_one(other(1)),
                    2 => server.add_layer_for_m_one(other(1)).add_layer_for_m_one(guard()),
                    _ => server.add_layer_for_m_one(other(1)).add_layer_for_m_one(guard()).add_layer_for_m_one(other(2)).add_layer_for_m_two(other(3)),
                })
            };
            let mk = |id: u64, route: &str, peer: u64, instr: Instr| {
                let body = Bytes::from(serde_json::to_vec(&Msg { id, via: String::new(), instr }).unwrap());
                Request::new(body).with_route(route).with_extension(pid(peer))
            };
            let mut problems = vec![];
            let reached = |h: &H, id: u64| h.0.lock().unwrap().iter().any(|x| x.1 == id);
            match which2.as_str() {
                "auth" => {
                    let r1 = server.clone().oneshot(mk(1, "/pkg.sub.Beta/One", 2, Instr::Reply)).await.unwrap();
                    if r1.status() != StatusCode::NotFound || reached(&h, 1) {
                        problems.push(format!("an unlisted sender's request to the guarded method was answered {:?} (handler reached: {})", r1.status(), reached(&h, 1)));
                    }
                    let r2 = server.clone().oneshot(mk(2, "/pkg.sub.Beta/One", 1, Instr::Reply)).await.unwrap();
                    if r2.status() != StatusCode::Success || !reached(&h, 2) {
                        problems.push(format!("a listed sender's request to the guarded method was answered {:?}", r2.status()));
                    }
                }
                "rate" => {
                    let r1 = server.clone().oneshot(mk(1, "/pkg.sub.Beta/One", 1, Instr::Reply)).await.unwrap();
                    let r2 = server.clone().oneshot(mk(2, "/pkg.sub.Beta/One", 1, Instr::Reply)).await.unwrap();
                    if r1.status() != StatusCode::Success || r2.status() != StatusCode::TooManyRequests || reached(&h, 2) {
                        problems.push(format!("quota 1 per hour: first request {:?}, second request {:?} (handler reached: {})", r1.status(), r2.status(), reached(&h, 2)));
                    }
                    let r3 = server.clone().oneshot(mk(3, "/pkg.sub.Beta/One", 2, Instr::Reply)).await.unwrap();
                    if r3.status() != StatusCode::Success {
                        problems.push(format!("another peer's first request was answered {:?}", r3.status()));
                    }
                }
                _ => {
                    let s1 = server.clone();
                    let first = tokio::spawn(async move { s1.oneshot(mk(1, "/pkg.sub.Beta/One", 1, Instr::Sleep { ms: 500 })).await.unwrap() });
                    tokio::time::sleep(Duration::from_millis(50)).await;
                    let r2 = server.clone().oneshot(mk(2, "/pkg.sub.Beta/One", 1, Instr::Reply)).await.unwrap();
                    if r2.status() != StatusCode::TooManyRequests || reached(&h, 2) {
                        problems.push(format!("limit 1 with one request of the peer executing: a second one was answered {:?} (handler reached: {})", r2.status(), reached(&h, 2)));
                    }
                    let r3 = server.clone().oneshot(mk(3, "/pkg.sub.Beta/One", 2, Instr::Reply)).await.unwrap();
                    if r3.status() != StatusCode::Success {
                        problems.push(format!("another peer's request was answered {:?}", r3.status()));
                    }
                    let r1 = first.await.unwrap();
                    let r4 = server.clone().oneshot(mk(4, "/pkg.sub.Beta/One", 1, Instr::Reply)).await.unwrap();
                    if r1.status() != StatusCode::Success || r4.status() != StatusCode::Success {
                        problems.push(format!("after the executing request finished ({:?}) the peer's next request was answered {:?}", r1.status(), r4.status()));
                    }
                }
            }
            // the sibling method carries no guard (the authorizer is installed on all routes of the service)
            let r = server.clone().oneshot(mk(9, "/pkg.sub.Beta/Two", if which2 == "auth" { 1 } else { 2 }, Instr::Reply)).await.unwrap();
            let r_again = server.clone().oneshot(mk(10, "/pkg.sub.Beta/Two", if which2 == "auth" { 1 } else { 2 }, Instr::Reply)).await.unwrap();
            if r.status() != StatusCode::Success || r_again.status() != StatusCode::Success {
                problems.push(format!("the layer installed for one method governs a sibling method: {:?}, {:?}", r.status(), r_again.status()));
            }
            problems
        });
        run.eval(&format!("generated-server-stack {which} arrangement {arrangement}"), true);
        run.count("installed-on-generated-server", &format!("arrangement{arrangement}"));
        let arr = ["alone", "guard, then another layer", "another layer, then guard", "other, guard, other"][arrangement as usize];
        for p in problems {
            run.oracle_fail(json!({"kind": format!("{which} layer installed on a generated server (add_layer_for_<method> / route_layer) does not govern it"), "arrangement": arr, "detail": p}));
        }
    }
    Ok(())
}

// ------------------------------------------------------------------ C20

#[derive(Clone)]
struct CountingEcho(Arc<AtomicU64>);

impl Service<Request<Bytes>> for CountingEcho {
    type Response = Response<Bytes>;
    type Error = Infallible;
    type Future = Pin<Box<dyn Future<Output = Result<Response<Bytes>, Infallible>> + Send>>;
    fn poll_ready(&mut self, _: &mut Context<'_>) -> Poll<Result<(), Infallible>> {
        Poll::Ready(Ok(()))
    }
    fn call(&mut self, req: Request<Bytes>) -> Self::Future {
        self.0.fetch_add(1, Ordering::SeqCst);
        let st = req.headers().get("inner-status").and_then(|s| s.parse::<u16>().ok()).and_then(|c| StatusCode::new(c).ok()).unwrap_or(StatusCode::Success);
        Box::pin(async move {
            tokio::task::yield_now().await;
            Ok(Response::new(req.into_body()).with_status(st))
        })
    }
}

/// inner service with state: logs the `tag` header of every request it sees, answers with the log length before
#[derive(Clone)]
struct LogSvc(Arc<Mutex<Vec<u64>>>);
impl Service<Request<Bytes>> for LogSvc {
    type Response = Response<Bytes>;
    type Error = std::convert::Infallible;
    type Future = Pin<Box<dyn Future<Output = Result<Self::Response, Self::Error>> + Send>>;
    fn poll_ready(&mut self, _: &mut Context<'_>) -> Poll<Result<(), Self::Error>> {
        Poll::Ready(Ok(()))
    }
    fn call(&mut self, req: Request<Bytes>) -> Self::Future {
        let tag = req.headers().get("tag").and_then(|s| s.parse::<u64>().ok()).unwrap_or(u64::MAX);
        let mut g = self.0.lock().unwrap();
        let before = g.len();
        g.push(tag);
        Box::pin(async move { Ok(Response::new(Bytes::from(before.to_string()))) })
    }
}

/// C20 over whole HISTORIES: one allow-list layer over a stateful service, a sequence of requests sent
/// alternately through two clones of the layered service; the service's log, every response and the
/// final state must be the model's `authRun` (theorem `C20_history`).
fn auth_histories(run: &mut Run, rng: &mut Rng, rt: &tokio::runtime::Runtime) -> anyhow::Result<()> {
    let n = if run.quick() { 400 } else { 20_000 };
    for _ in 0..n {
        let universe = 2 + rng.below(12);
        let len = rng.below(8) as usize;
        let list: Vec<[u8; 32]> = (0..len).map(|_| pid(rng.below(universe)).0).collect();
        let k = rng.below(14) as usize + 1;
        let reqs: Vec<(Option<[u8; 32]>, u64)> = (0..k)
            .map(|i| {
                let s = match rng.below(5) {
                    0 => None,
                    _ => Some(pid(rng.below(universe + 2)).0),
                };
                (s, 1 + i as u64 * 7 + rng.below(5))
            })
            .collect();
        let log = Arc::new(Mutex::new(Vec::<u64>::new()));
        let layer = RequireAuthorizationLayer::new(AllowedPeers::new(list.iter().map(|x| PeerId(*x))));
        let mut a = layer.clone().layer(LogSvc(log.clone()));
        let mut b = a.clone();
        let mut resp = vec![];
        rt.block_on(async {
            for (i, (sender, tag)) in reqs.iter().enumerate() {
                let mut req = Request::new(Bytes::from_static(b"h")).with_header("tag", tag.to_string());
                if let Some(s) = sender {
                    req = req.with_extension(PeerId(*s));
                }
                let svc = if i % 2 == 0 { &mut a } else { &mut b };
                let r = svc.ready().await.unwrap().call(req).await.unwrap();
                let t = std::str::from_utf8(r.body()).ok().and_then(|x| x.parse::<u64>().ok()).unwrap_or(0);
                resp.push(format!("{}/{}", r.status().to_u16(), t));
            }
        });
        let seen = log.lock().unwrap().clone();
        let show = |v: &Vec<u64>| if v.is_empty() { "-".to_string() } else { v.iter().map(|x| x.to_string()).collect::<Vec<_>>().join(",") };
        let op = format!(
            "auth.history list={} reqs={}",
            if list.is_empty() { "-".to_string() } else { list.iter().map(hex::encode).collect::<Vec<_>>().join(",") },
            reqs.iter().map(|(s, t)| format!("{}:{}", s.map(hex::encode).unwrap_or_else(|| "none".into()), t)).collect::<Vec<_>>().join(";")
        );
        let out = format!("resp={} seen={} log={}", resp.join(","), show(&seen), show(&seen));
        // oracle independent of the model: the log is the tags of the listed senders, in order
        let want: Vec<u64> = reqs.iter().filter(|(s, _)| s.map(|x| list.contains(&x)).unwrap_or(false)).map(|(_, t)| *t).collect();
        if want != seen {
            run.oracle_fail(json!({"kind": "authorization layer over a history: the service saw other requests than the accepted ones, or in another order", "ops": [op.clone()], "impl": out.clone()}));
        }
        run.count("history", if seen.is_empty() { "none-accepted" } else if seen.len() == reqs.len() { "all-accepted" } else { "mixed" });
        run.op(op, out, true);
    }
    Ok(())
}

pub fn run_c20(run: &mut Run) -> anyhow::Result<()> {
    let mut rng = Rng::new(run.seed);
    let rt = tokio::runtime::Builder::new_multi_thread().worker_threads(4).enable_all().build()?;
    let n = if run.quick() { 6000 } else { 300_000 };
    // ---- allow-list authorizer
    let mut lines: Vec<(String, String, bool)> = vec![];
    let mut fam_rounds = 0u64;
    rt.block_on(async {
        let mut i = 0;
        while i < n {
            let len = match rng.below(5) {
                0 => 0,
                1 => 1,
                _ => rng.below(50) as usize,
            };
            let universe = 1 + rng.below(60);
            // identities: small numbers, or a FAMILY of closely related ids (one base id with the same mask
            // XOR-ed into two positions): ids that any sloppy comparison, hash or truncation would confuse
            let family = rng.chance(1, 4);
            let base = rng.bytes(32);
            let mut variant = |rng: &mut Rng| -> [u8; 32] {
                let mut x = [0u8; 32];
                x.copy_from_slice(&base);
                let (a, b) = (rng.below(32) as usize, rng.below(32) as usize);
                let m = 1 + rng.below(255) as u8;
                if a != b {
                    x[a] ^= m;
                    x[b] ^= m;
                }
                x
            };
            let mut list: Vec<[u8; 32]> = if family { (0..len.min(24)).map(|_| variant(&mut rng)).collect() } else { (0..len).map(|_| pid(rng.below(universe)).0).collect() };
            if rng.chance(1, 4) && !list.is_empty() {
                let d = list[0];
                list.push(d); // duplicates
            }
            // several requests through clones of one layered service, concurrently; every request
            // carries its own invocation counter so that `invoked` is attributable per request
            let layer = RequireAuthorizationLayer::new(AllowedPeers::new(list.iter().map(|x| PeerId(*x))));
            let k = 1 + rng.below(8) as usize;
            let mut js = vec![];
            for _ in 0..k {
                let sender: Option<[u8; 32]> = match rng.below(4) {
                    0 => None,
                    1 if !list.is_empty() => Some(*rng.pick(&list)),
                    _ if family => Some(variant(&mut rng)),
                    _ => Some(pid(rng.below(universe + 3)).0),
                };
                let mut req = Request::new(Bytes::from_static(b"payload"));
                if let Some(s) = sender {
                    req = req.with_extension(PeerId(s));
                }
                let own_counter = Arc::new(AtomicU64::new(0));
                let svc1 = layer.clone().layer(CountingEcho(own_counter.clone()));
                js.push((sender, own_counter, tokio::spawn(async move { svc1.oneshot(req).await.unwrap() })));
            }
            if family {
                fam_rounds += 1;
            }
            for (sender, own_counter, h) in js {
                let resp = h.await?;
                let invoked = own_counter.load(Ordering::SeqCst);
                let body_ok = resp.body().as_ref() == b"payload";
                let l = &list;
                let op = format!(
                    "auth.allow list={} sender={}",
                    if l.is_empty() { "-".to_string() } else { l.iter().map(hex::encode).collect::<Vec<_>>().join(",") },
                    sender.map(hex::encode).unwrap_or_else(|| "none".into())
                );
                let out = format!("status={} invoked={}", resp.status().to_u16(), invoked);
                let listed = sender.map(|s| l.contains(&s)).unwrap_or(false);
                let want = if sender.is_none() { (500, 0) } else if listed { (200, 1) } else { (404, 0) };
                let bad = (resp.status().to_u16(), invoked) != want || (listed && !body_ok) || (!listed && !resp.body().is_empty());
                lines.push((op, out, bad));
                i += 1;
            }
        }
        anyhow::Ok(())
    })?;
    run.extra.insert("allow_list_rounds_with_related_id_families".into(), json!(fam_rounds));
    for (op, out, bad) in lines {
        run.count("allow", &out);
        if bad {
            run.oracle_fail(json!({"kind": "allow-list authorizer: wrong status or wrong invocation count", "ops": [op.clone()], "impl": out.clone()}));
        }
        run.op(op, out, true);
    }
    // ---- arbitrary authorizer closures drawn from a table; clones called concurrently
    let m = if run.quick() { 3000 } else { 100_000 };
    let counter = Arc::new(AtomicU64::new(0));
    let authorizer = |req: &mut Request<Bytes>| -> Result<(), Response<Bytes>> {
        match req.headers().get("verdict").map(|s| s.as_str()) {
            Some("ok") => {
                req.headers_mut().insert("seen-by-auth".into(), "1".into());
                Ok(())
            }
            Some(v) => {
                let code = v.strip_prefix("err:").and_then(|c| c.parse::<u16>().ok()).and_then(|c| StatusCode::new(c).ok()).unwrap_or(StatusCode::Unknown);
                Err(Response::new(Bytes::from_static(b"refused-by-authorizer")).with_status(code))
            }
            None => Err(Response::new(Bytes::new()).with_status(StatusCode::BadRequest)),
        }
    };
    let svc = RequireAuthorizationLayer::new(authorizer).layer(CountingEcho(counter.clone()));
    let codes = [200u16, 400, 404, 408, 429, 500, 505, 520];
    let mut batch = vec![];
    for _ in 0..m {
        let verdict = if rng.chance(1, 2) { "ok".to_string() } else { format!("err:{}", rng.pick(&codes)) };
        let inner_status = *rng.pick(&codes);
        batch.push((verdict, inner_status));
    }
    let results: Vec<(String, u16, u16, bool)> = rt.block_on(async {
        let mut hs = vec![];
        for chunk in batch.chunks(8) {
            let mut js = vec![];
            for (verdict, inner_status) in chunk.iter().cloned() {
                let s = svc.clone();
                js.push(tokio::spawn(async move {
                    let req = Request::new(Bytes::from_static(b"x")).with_header("verdict", verdict.clone()).with_header("inner-status", inner_status.to_string()).with_extension(pid(inner_status as u64 % 3));
                    let resp = s.oneshot(req).await.unwrap();
                    (verdict, inner_status, resp.status().to_u16(), resp.body().as_ref() == b"refused-by-authorizer")
                }));
            }
            for j in js {
                hs.push(j.await.unwrap());
            }
        }
        hs
    });
    // the same sequence once more through ONE instance, sequentially (state carried between calls,
    // e.g. a remembered verdict, would show here), senders drawn from three identities
    let mut results = results;
    let seq: Vec<(String, u16, u16, bool)> = rt.block_on(async {
        let mut s = svc.clone();
        let mut v = vec![];
        for (verdict, inner_status) in batch.iter().cloned() {
            let req = Request::new(Bytes::from_static(b"x")).with_header("verdict", verdict.clone()).with_header("inner-status", inner_status.to_string()).with_extension(pid(inner_status as u64 % 3));
            let resp = s.ready().await.unwrap().call(req).await.unwrap();
            v.push((verdict, inner_status, resp.status().to_u16(), resp.body().as_ref() == b"refused-by-authorizer"));
        }
        v
    });
    results.extend(seq);
    let mut expect_inv = 0u64;
    for (verdict, inner_status, status, refused_body) in results {
        let ok = verdict == "ok";
        if ok {
            expect_inv += 1;
        }
        let op = format!("auth.fn verdict={verdict} inner-status={inner_status}");
        // `invoked` per request is inferred from the response (the authorizer's body vs the echo)
        let out = format!("status={status} invoked={}", if refused_body { 0 } else { 1 });
        let want_status = if ok { inner_status } else { verdict[4..].parse::<u16>().unwrap() };
        if status != want_status || refused_body == ok {
            run.oracle_fail(json!({"kind": "authorization layer: response is not exactly the authorizer's refusal / the service's answer", "ops": [op.clone()], "impl": out.clone()}));
        }
        run.count("fn", if ok { "accepted" } else { "refused" });
        run.op(op, out, true);
    }
    let inv = counter.load(Ordering::SeqCst);
    run.extra.insert("fn_total_invocations".into(), json!({"observed": inv, "expected": expect_inv}));
    if inv != expect_inv {
        run.oracle_fail(json!({"kind": "authorization layer: the wrapped service was invoked a different number of times than the authorizer accepted", "observed": inv, "expected": expect_inv}));
    }
    auth_histories(run, &mut rng, &rt)?;
    generated_server_stack(run, "auth")?;
    Ok(())
}

// ------------------------------------------------------------------ C18

#[derive(Default)]
struct TrigShared {
    started: Vec<u64>,
    triggers: HashMap<u64, tokio::sync::oneshot::Sender<bool>>,
    gauge: BTreeMap<u64, i64>,
    max_gauge: i64,
}

#[derive(Clone)]
struct TrigSvc(Arc<Mutex<TrigShared>>);

struct GaugeGuard(Arc<Mutex<TrigShared>>, u64);
impl Drop for GaugeGuard {
    fn drop(&mut self) {
        *self.0.lock().unwrap().gauge.entry(self.1).or_default() -= 1;
    }
}

impl Service<Request<Bytes>> for TrigSvc {
    type Response = Response<Bytes>;
    type Error = anemo::rpc::Status;
    type Future = Pin<Box<dyn Future<Output = Result<Response<Bytes>, anemo::rpc::Status>> + Send>>;
    fn poll_ready(&mut self, _: &mut Context<'_>) -> Poll<Result<(), Self::Error>> {
        Poll::Ready(Ok(()))
    }
    fn call(&mut self, req: Request<Bytes>) -> Self::Future {
        let r: u64 = req.headers().get("r").and_then(|s| s.parse().ok()).unwrap_or(0);
        let p: u64 = req.headers().get("p").and_then(|s| s.parse().ok()).unwrap_or(u64::MAX);
        let (tx, rx) = tokio::sync::oneshot::channel();
        let sh = self.0.clone();
        {
            let mut g = sh.lock().unwrap();
            g.started.push(r);
            g.triggers.insert(r, tx);
            let e = g.gauge.entry(p).or_default();
            *e += 1;
            let v = *e;
            if v > g.max_gauge {
                g.max_gauge = v;
            }
        }
        let guard = GaugeGuard(sh, p);
        Box::pin(async move {
            let _g = guard;
            match rx.await {
                Ok(true) => Ok(Response::new(Bytes::from_static(b"done"))),
                _ => Err(anemo::rpc::Status::new(StatusCode::BadRequest)),
            }
        })
    }
}

async fn settle() {
    for _ in 0..30 {
        tokio::task::yield_now().await;
    }
}

pub fn run_c18(run: &mut Run, replay: Option<&std::path::Path>) -> anyhow::Result<()> {
    use anemo_tower::inflight_limit::{InflightLimitLayer, WaitMode};
    let mut rng = Rng::new(run.seed);
    let nhist = if run.quick() { 400 } else { 20_000 };
    let rt = tokio::runtime::Builder::new_current_thread().enable_all().build()?;
    let replay_ops: Option<Vec<String>> = replay.map(|p| std::fs::read_to_string(p).map(|s| s.lines().map(|l| l.to_string()).collect())).transpose()?;
    let total = if replay_ops.is_some() { 1 } else { nhist };
    for h in 0..total {
        let limit = *rng.pick(&[0usize, 1, 1, 2, 2, 3, 5]);
        let block = rng.chance(1, 2);
        let npeers = 1 + rng.below(4);
        let len = 5 + rng.below(if run.quick() { 40 } else { 200 });
        let script = replay_ops.clone();
        let work = run.work.clone();
        let quick_marks = run.quick();
        let _ = std::fs::create_dir_all(&work);
        let res: anyhow::Result<Vec<(String, String, Option<String>)>> = rt.block_on(async {
            let mut out: Vec<(String, String, Option<String>)> = vec![];
            let (mut limit, mut block) = (limit, block);
            let mut script_iter = script.clone().map(|s| s.into_iter());
            if let Some(it) = script_iter.as_mut() {
                // first line must be the reset
                if let Some(l) = it.next() {
                    let (_, a) = crate::out::args(&l);
                    limit = a.get("limit").and_then(|s| s.parse().ok()).unwrap_or(1);
                    block = a.get("mode").map(|s| s == "block").unwrap_or(false);
                }
            }
            let shared = Arc::new(Mutex::new(TrigShared::default()));
            let layer = InflightLimitLayer::new(limit, if block { WaitMode::Block } else { WaitMode::ReturnError });
            let mut svc = layer.layer(TrigSvc(shared.clone()));
            out.push((format!("inflight.reset limit={limit} mode={}", if block { "block" } else { "error" }), "ok".into(), None));
            let results: Arc<Mutex<HashMap<u64, Result<u16, (u16, Option<String>)>>>> = Arc::new(Mutex::new(HashMap::new()));
            let mut handles: HashMap<u64, tokio::task::JoinHandle<()>> = HashMap::new();
            let mut pending: Vec<(u64, u64)> = vec![]; // (r, peer) arrived, not yet ended
            let mut seen_started = 0usize;
            let mut next_r = 1u64;
            let mut step = 0;
            loop {
                step += 1;
                // choose the op
                enum O {
                    Arrive(u64, Option<u64>),
                    Finish(u64, u64, bool),
                    Cancel(u64, u64),
                }
                let o = if let Some(it) = script_iter.as_mut() {
                    match it.next() {
                        None => break,
                        Some(l) => {
                            let (cmd, a) = crate::out::args(&l);
                            let r = a.get("r").and_then(|s| s.parse().ok()).unwrap_or(0);
                            let p = a.get("peer").and_then(|s| s.parse::<u64>().ok());
                            match cmd.as_str() {
                                "inflight.arrive" => O::Arrive(r, p),
                                "inflight.finish" => O::Finish(r, p.unwrap_or(0), true),
                                "inflight.cancel" => O::Cancel(r, p.unwrap_or(0)),
                                _ => continue,
                            }
                        }
                    }
                } else {
                    if step > len {
                        break;
                    }
                    let k = rng.below(10);
                    if k < 5 || pending.is_empty() {
                        let p = if rng.chance(1, 12) { None } else { Some(rng.below(npeers)) };
                        let r = next_r;
                        next_r += 1;
                        O::Arrive(r, p)
                    } else if k < 8 {
                        let (r, p) = *rng.pick(&pending);
                        O::Finish(r, p, rng.chance(2, 3))
                    } else {
                        let (r, p) = *rng.pick(&pending);
                        O::Cancel(r, p)
                    }
                };
                // a hang inside the layer is attributed to the history so far plus this op (quick tier: before every
                // op; thorough tier: every 16th op, 13 million file writes would dominate the run)
                if quick_marks || step % 16 == 1 {
                    let next = match &o {
                        O::Arrive(r, p) => format!("inflight.arrive r={r} peer={}", p.map(|x| x.to_string()).unwrap_or_else(|| "none".into())),
                        O::Finish(r, p, ok) => format!("inflight.finish r={r} peer={p} ok={ok}"),
                        O::Cancel(r, p) => format!("inflight.cancel r={r} peer={p}"),
                    };
                    let mut lines: Vec<&str> = out.iter().map(|l| l.0.as_str()).collect();
                    lines.push(&next);
                    let _ = std::fs::write(work.join("current_op.txt"), lines.join("\n"));
                }
                let (op, head) = match o {
                    O::Arrive(r, p) => {
                        let mut req = Request::new(Bytes::new()).with_header("r", r.to_string());
                        if let Some(p) = p {
                            req = req.with_header("p", p.to_string()).with_extension(pid(p));
                        }
                        // the layer may be driven through one long-lived instance (`ready().call()`) or through
                        // clones taken at any time - before or after the instance served other peers
                        let res = results.clone();
                        let fut: std::pin::Pin<Box<dyn std::future::Future<Output = _> + Send>> = if r % 3 == 1 {
                            use tower::Service;
                            match futures::future::poll_fn(|cx| svc.poll_ready(cx)).await {
                                Ok(()) => Box::pin(svc.call(req)),
                                Err(e) => Box::pin(async move { Err(e) }),
                            }
                        } else {
                            Box::pin(svc.clone().oneshot(req))
                        };
                        handles.insert(r, tokio::spawn(async move {
                            let out = fut.await;
                            let v = match out {
                                Ok(resp) => Ok(resp.status().to_u16()),
                                Err(st) => Err((st.status().to_u16(), None)),
                            };
                            res.lock().unwrap().insert(r, v);
                        }));
                        settle().await;
                        let started_now = shared.lock().unwrap().started.contains(&r);
                        let result = results.lock().unwrap().get(&r).cloned();
                        let outcome = match (&result, p) {
                            (Some(Err((429, _))), _) => "refused",
                            (Some(Err((500, _))), None) => "nopeer",
                            _ if started_now => "started",
                            (None, _) => "queued",
                            (Some(_), _) => "other",
                        };
                        if let (Some(p), true) = (p, outcome == "started" || outcome == "queued") {
                            pending.push((r, p));
                        }
                        (format!("inflight.arrive r={r} peer={}", p.map(|x| x.to_string()).unwrap_or_else(|| "none".into())), format!("outcome={outcome} "))
                    }
                    O::Finish(r, p, ok) => {
                        let tx = shared.lock().unwrap().triggers.remove(&r);
                        match tx {
                            Some(tx) => {
                                let _ = tx.send(ok);
                            }
                            None => {
                                // still queued: finishing is impossible, cancel it instead
                                if let Some(h) = handles.remove(&r) {
                                    h.abort();
                                }
                            }
                        }
                        pending.retain(|x| x.0 != r);
                        settle().await;
                        (format!("inflight.finish r={r} peer={p}"), String::new())
                    }
                    O::Cancel(r, p) => {
                        if let Some(h) = handles.remove(&r) {
                            h.abort();
                        }
                        shared.lock().unwrap().triggers.remove(&r);
                        pending.retain(|x| x.0 != r);
                        settle().await;
                        (format!("inflight.cancel r={r} peer={p}"), String::new())
                    }
                };
                let (newly, maxg) = {
                    let g = shared.lock().unwrap();
                    let v: Vec<String> = g.started[seen_started..].iter().map(|x| x.to_string()).collect();
                    seen_started = g.started.len();
                    (v, g.max_gauge)
                };
                let mut problem = None;
                if maxg > limit as i64 {
                    problem = Some(format!("{maxg} requests of one peer executing inside the wrapped service with limit {limit}"));
                }
                out.push((op, format!("{head}started={}", if newly.is_empty() { "-".into() } else { newly.join(",") }), problem));
            }
            // drain: end everything, then capacity must be fully restored for every peer
            let rest: Vec<(u64, u64)> = pending.clone();
            for (r, p) in rest {
                if let Some(tx) = shared.lock().unwrap().triggers.remove(&r) {
                    let _ = tx.send(true);
                } else if let Some(h) = handles.remove(&r) {
                    h.abort();
                }
                settle().await;
                let newly: Vec<String> = {
                    let g = shared.lock().unwrap();
                    let v = g.started[seen_started..].iter().map(|x| x.to_string()).collect();
                    seen_started = g.started.len();
                    v
                };
                // model: a request that had started is finished, one still queued is cancelled -- same op for the model
                out.push((format!("inflight.finish r={r} peer={p}"), format!("started={}", if newly.is_empty() { "-".into() } else { newly.join(",") }), None));
                pending.retain(|x| x.0 != r);
                // requests that just started stay pending
            }
            // whatever started during the drain is ended too
            loop {
                let open: Vec<u64> = shared.lock().unwrap().triggers.keys().copied().collect();
                if open.is_empty() {
                    break;
                }
                for r in open {
                    let p: u64 = 0;
                    let _ = p;
                    if let Some(tx) = shared.lock().unwrap().triggers.remove(&r) {
                        let _ = tx.send(true);
                    }
                    settle().await;
                }
            }
            if limit > 0 && script.is_none() {
                // leak probe: after everything ended, `limit` fresh requests per peer must all start at once
                for p in 0..npeers {
                    let mut started_all = true;
                    let base = 1_000_000 + p * 100;
                    for k in 0..limit as u64 {
                        let r = base + k;
                        let req = Request::new(Bytes::new()).with_header("r", r.to_string()).with_header("p", p.to_string()).with_extension(pid(p));
                        let s = svc.clone();
                        handles.insert(r, tokio::spawn(async move {
                            let _ = s.oneshot(req).await;
                        }));
                        settle().await;
                        if !shared.lock().unwrap().started.contains(&r) {
                            started_all = false;
                        }
                    }
                    for k in 0..limit as u64 {
                        if let Some(tx) = shared.lock().unwrap().triggers.remove(&(base + k)) {
                            let _ = tx.send(true);
                        }
                    }
                    settle().await;
                    if !started_all {
                        out.push(("inflight.state peer=".to_string() + &p.to_string(), "running=0 waiting=0".into(), Some(format!("capacity leaked: after all requests of peer {p} ended, {limit} fresh requests could not all start"))));
                    }
                }
            }
            Ok(out)
        });
        let lines = res?;
        let ops: Vec<String> = lines.iter().map(|l| l.0.clone()).collect();
        let mut ctx = h as u64 * 0; // distinctness on history prefix
        for (i, (op, imp, problem)) in lines.into_iter().enumerate() {
            if let Some(p) = problem {
                run.oracle_fail(json!({"kind": p, "ops": ops[..=i.min(ops.len() - 1)].to_vec()}));
            }
            run.count("op", op.split_whitespace().next().unwrap_or("?"));
            if let Some(o) = imp.strip_prefix("outcome=") {
                run.count("outcome", o.split_whitespace().next().unwrap_or("?"));
            }
            run.op_in(&mut ctx, op, imp);
        }
        run.count("config", &format!("limit={limit},{}", if block { "block" } else { "error" }));
    }
    if replay.is_none() {
        generated_server_stack(run, "inflight")?;
        crate::streams::inflight_over_reconnect(run, if run.quick() { 6 } else { 150 })?;
    }
    Ok(())
}

// ------------------------------------------------------------------ C19

#[derive(Clone)]
struct CountSvc(Arc<AtomicU64>);
impl Service<Request<Bytes>> for CountSvc {
    type Response = Response<Bytes>;
    type Error = anemo::rpc::Status;
    type Future = Pin<Box<dyn Future<Output = Result<Response<Bytes>, anemo::rpc::Status>> + Send>>;
    fn poll_ready(&mut self, _: &mut Context<'_>) -> Poll<Result<(), Self::Error>> {
        Poll::Ready(Ok(()))
    }
    fn call(&mut self, _req: Request<Bytes>) -> Self::Future {
        self.0.fetch_add(1, Ordering::SeqCst);
        Box::pin(async { Ok(Response::new(Bytes::new())) })
    }
}

pub fn run_c19(run: &mut Run) -> anyhow::Result<()> {
    use anemo_tower::rate_limit::{RateLimitLayer, WaitMode, WAIT_NANOS_HEADER};
    use governor::clock::{Clock, FakeRelativeClock};
    use governor::{Quota, RateLimiter};
    use std::num::NonZeroU32;
    let mut rng = Rng::new(run.seed);

    // ---- (i) the GCRA model against governor itself, exactly, under a fake clock
    let n_exact = if run.quick() { 300 } else { 20_000 };
    for _ in 0..n_exact {
        let t = *rng.pick(&[1u64, 2, 10, 1_000, 20_000_000, 1_000_000_000]);
        let burst = *rng.pick(&[1u32, 1, 2, 3, 5, 10]);
        let clock = FakeRelativeClock::default();
        let quota = Quota::with_period(Duration::from_nanos(t)).unwrap().allow_burst(NonZeroU32::new(burst).unwrap());
        let lim = RateLimiter::dashmap_with_clock(quota, &clock);
        let op0 = format!("gcra.reset t={t} burst={burst}");
        run.op(op0, "ok".into(), false);
        let mut now = 0u64;
        let mut ctx = t * 31 + burst as u64;
        for _ in 0..(5 + rng.below(40)) {
            let adv = match rng.below(6) {
                0 | 1 => 0,
                2 => rng.below(t.max(1)),
                3 => t,
                4 => t * rng.below(burst as u64 + 3),
                _ => rng.below(3 * t * burst as u64 + 1),
            };
            clock.advance(Duration::from_nanos(adv));
            now += adv;
            let key = rng.below(3);
            let out = match lim.check_key(&key) {
                Ok(_) => "allow".to_string(),
                Err(e) => format!("deny wait={}", e.wait_time_from(clock.now()).as_nanos()),
            };
            run.count("exact", if out == "allow" { "allow" } else { "deny" });
            run.op_in(&mut ctx, format!("gcra.exact key={key} now={now}"), out);
        }
    }

    // ---- (ii) the real layer in real time, interval-sound
    let rt = tokio::runtime::Builder::new_current_thread().enable_all().build()?;
    let scenarios = if run.quick() { 6 } else { 120 };
    for sc in 0..scenarios {
        let t_ms = *rng.pick(&[15u64, 20, 30]);
        let t = t_ms * 1_000_000;
        let burst = *rng.pick(&[1u32, 2, 3]);
        let block = sc % 3 == 2;
        let ncalls = if block { 10 + rng.below(6) } else { 40 + rng.below(30) };
        let plan: Vec<(u64, u64)> = (0..ncalls)
            .map(|_| {
                let gap = match rng.below(8) {
                    0..=3 => 0,
                    4 => rng.below(t_ms * 500),       // µs, < t/2
                    5 => t_ms * 1000 + rng.below(2000), // about one period
                    6 => t_ms * 1000 * (2 + rng.below(2)) + 3000, // idle >= 2t
                    _ => rng.below(t_ms * 1500),
                };
                (rng.below(3), gap)
            })
            .collect();
        let counter = Arc::new(AtomicU64::new(0));
        let quota = Quota::with_period(Duration::from_nanos(t)).unwrap().allow_burst(NonZeroU32::new(burst).unwrap());
        let layer = RateLimitLayer::new(quota, if block { WaitMode::Block } else { WaitMode::ReturnError });
        let svc = layer.layer(CountSvc(counter.clone()));
        let start = Instant::now();
        // (key, a, b, admitted, hint)
        let log: Vec<(u64, u64, u64, bool, Option<String>)> = rt.block_on(async {
            let mut log = vec![];
            for (key, gap_us) in plan.iter().copied() {
                if gap_us > 0 {
                    tokio::time::sleep(Duration::from_micros(gap_us)).await;
                }
                let req = Request::new(Bytes::new()).with_extension(pid(key));
                let a = start.elapsed().as_nanos() as u64;
                let before = counter.load(Ordering::SeqCst);
                let res = svc.clone().oneshot(req).await;
                let b = start.elapsed().as_nanos() as u64;
                let reached = counter.load(Ordering::SeqCst) > before;
                match res {
                    Ok(_) => log.push((key, a, b, true, if reached { None } else { Some("ok-but-service-not-reached".into()) })),
                    Err(st) => {
                        let hint = st.headers().get(WAIT_NANOS_HEADER).cloned();
                        let mut note = None;
                        if reached {
                            note = Some("refused-but-service-reached".to_string());
                        } else if st.status() != StatusCode::TooManyRequests {
                            note = Some(format!("refused-with-status-{}", st.status().to_u16()));
                        } else {
                            match hint.as_deref().map(|h| h.parse::<u64>()) {
                                Some(Ok(0)) => note = Some("hint-zero".into()),
                                Some(Ok(_)) => {}
                                _ => note = Some("hint-missing-or-unparsable".into()),
                            }
                        }
                        log.push((key, a, b, false, note));
                    }
                }
            }
            log
        });
        run.op(format!("gcra.reset t={t} burst={burst}"), "ok".into(), false);
        let mut ctx = sc as u64;
        let mut ops = vec![format!("gcra.reset t={t} burst={burst}")];
        for (key, a, b, adm, note) in log.iter() {
            let op = format!("gcra.call key={key} a={a} b={b} admitted={}", *adm as u8);
            ops.push(op.clone());
            run.count(if block { "block" } else { "return-error" }, if *adm { "admitted" } else { "refused" });
            if let Some(n) = note {
                if n == "hint-zero" {
                    run.oracle_fail(json!({"kind": "refusal carries wait-nanos 0", "hint": 0, "mode": "return-error", "ops": ops.clone()}));
                } else {
                    run.oracle_fail(json!({"kind": format!("rate limiter: {n}"), "ops": ops.clone()}));
                }
            }
            run.op_in(&mut ctx, op, "consistent".into());
        }
        // window oracle (sound: the most generous window for every pair of admissions of a key)
        for key in 0..3u64 {
            let adm: Vec<&(u64, u64, u64, bool, Option<String>)> = log.iter().filter(|l| l.0 == key && l.3).collect();
            for i in 0..adm.len() {
                for j in i..adm.len() {
                    let n = (j - i + 1) as u64;
                    let w = adm[j].2 - adm[i].1;
                    let allowed = burst as u64 + w / t;
                    if n > allowed + 1 {
                        run.oracle_fail(json!({"kind": "more requests admitted in a window than burst + 1 + W/t", "key": key, "admitted": n, "window_ns": w, "t_ns": t, "burst": burst, "ops": ops.clone()}));
                    } else if n == allowed + 1 {
                        // the property's own bound (burst + W/t) is exceeded by exactly one: the known idle-burst behaviour of governor
                        let idle_before = i == 0 || adm[i].1.saturating_sub(adm[i - 1].2) >= t;
                        run.oracle_fail(json!({"kind": "window-bound-exceeded", "excess": 1, "after_idle_or_first": idle_before, "key": key, "admitted": n, "window_ns": w, "t_ns": t, "burst": burst}));
                    }
                }
            }
            // per-peer: a key's first call is always admitted, whatever the other keys did
            if let Some(first) = log.iter().find(|l| l.0 == key) {
                if !first.3 {
                    run.oracle_fail(json!({"kind": "a peer's very first request was refused (quota not per peer?)", "key": key, "ops": ops.clone()}));
                }
            }
        }
    }

    // ---- (ii-b) Block mode under concurrency: several over-quota requests of one peer wait at the
    // same time; the instants at which they enter the wrapped service must respect the window bound
    for round in 0..(if run.quick() { 2 } else { 30 }) {
        let t_ms = 25u64;
        let t = t_ms * 1_000_000;
        let burst = 1 + (round % 2) as u32;
        let entries: Arc<Mutex<Vec<(u64, u64)>>> = Arc::new(Mutex::new(vec![]));
        #[derive(Clone)]
        struct StampSvc(Arc<Mutex<Vec<(u64, u64)>>>, Instant);
        impl Service<Request<Bytes>> for StampSvc {
            type Response = Response<Bytes>;
            type Error = anemo::rpc::Status;
            type Future = Pin<Box<dyn Future<Output = Result<Response<Bytes>, anemo::rpc::Status>> + Send>>;
            fn poll_ready(&mut self, _: &mut Context<'_>) -> Poll<Result<(), Self::Error>> {
                Poll::Ready(Ok(()))
            }
            fn call(&mut self, req: Request<Bytes>) -> Self::Future {
                let k = req.peer_id().map(|p| p.0[31] as u64).unwrap_or(99);
                self.0.lock().unwrap().push((k, self.1.elapsed().as_nanos() as u64));
                Box::pin(async { Ok(Response::new(Bytes::new())) })
            }
        }
        let quota = Quota::with_period(Duration::from_nanos(t)).unwrap().allow_burst(NonZeroU32::new(burst).unwrap());
        let svc = RateLimitLayer::new(quota, WaitMode::Block).layer(StampSvc(entries.clone(), Instant::now()));
        let n_a = 6u64;
        let completed: u64 = rt.block_on(async {
            let mut js = vec![];
            for i in 0..(n_a + 2) {
                let s = svc.clone();
                let key = if i < n_a { 1 } else { 2 };
                js.push(tokio::spawn(async move { s.oneshot(Request::new(Bytes::new()).with_extension(pid(key))).await.is_ok() }));
            }
            let mut c = 0;
            for j in js {
                if let Ok(Ok(true)) = tokio::time::timeout(Duration::from_secs(5), j).await {
                    c += 1;
                }
            }
            c
        });
        run.evaluations += n_a + 2;
        let ent = entries.lock().unwrap().clone();
        run.count("block-concurrent", &format!("completed={completed}"));
        if completed != n_a + 2 {
            run.oracle_fail(json!({"kind": "Block mode: a waiting request never completed", "completed": completed, "expected": n_a + 2}));
        }
        for key in [1u64, 2] {
            let mut ts: Vec<u64> = ent.iter().filter(|e| e.0 == key).map(|e| e.1).collect();
            ts.sort();
            for i in 0..ts.len() {
                for j in i..ts.len() {
                    let n = (j - i + 1) as u64;
                    let w = ts[j] - ts[i];
                    // 1 ms of slack for the distance between the limiter's decision and the service entry
                    let allowed = burst as u64 + 1 + (w + 1_000_000) / t;
                    if n > allowed {
                        run.oracle_fail(json!({"kind": "Block mode: more requests entered the service in a window than burst + 1 + W/t", "key": key, "entered": n, "window_ns": w, "t_ns": t, "burst": burst,
                            "entry_times_ns": ts.clone(), "scenario": format!("{} concurrent requests of one peer, quota {burst} per {t_ms} ms", n_a)}));
                    }
                }
            }
        }
    }

    // ---- (iii) short hunt for a zero wait hint with a 2 µs period (refusals right at the boundary)
    {
        let quota = Quota::with_period(Duration::from_micros(2)).unwrap().allow_burst(NonZeroU32::new(1).unwrap());
        let layer = RateLimitLayer::new(quota, WaitMode::ReturnError);
        let counter = Arc::new(AtomicU64::new(0));
        let svc = layer.layer(CountSvc(counter));
        let n = if run.quick() { 60_000 } else { 1_500_000 };
        let (refused, zero): (u64, u64) = rt.block_on(async {
            let (mut r, mut z) = (0, 0);
            for _ in 0..n {
                let req = Request::new(Bytes::new()).with_extension(pid(1));
                if let Err(st) = svc.clone().oneshot(req).await {
                    r += 1;
                    if st.headers().get(WAIT_NANOS_HEADER).map(|h| h == "0").unwrap_or(false) {
                        z += 1;
                    }
                }
            }
            (r, z)
        });
        run.evaluations += n;
        run.extra.insert("hint_hunt".into(), json!({"calls": n, "refused": refused, "zero_hints": zero}));
        if zero > 0 {
            run.oracle_fail(json!({"kind": "refusal carries wait-nanos 0", "hint": 0, "mode": "return-error", "count": zero, "of_refusals": refused, "quota": "1 per 2us"}));
        }
    }
    generated_server_stack(run, "rate")?;
    Ok(())
}
