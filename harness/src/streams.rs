//! C02 / C06 / C12: the per-stream serving machine driven event by event by an authenticated raw
//! QUIC peer (write k bytes, FIN, RESET, STOP_SENDING, waits) against a real anemo network, honest
//! concurrent RPC scenarios under datagram loss / duplication / reordering, long abandon histories,
//! and hostile connection-level behaviour (uni streams, datagrams, abrupt closes).
use crate::fabric::{paused_rt, Fabric, Faults};
use crate::net::*;
use crate::out::{hexs, Run};
use crate::raw::*;
use crate::rng::Rng;
use crate::wire;
use anemo::types::response::StatusCode;
use anemo::{Config, Request, Response};
use bytes::Bytes;
use serde_json::json;
use std::collections::BTreeMap;
use std::sync::atomic::{AtomicU64, Ordering};
use std::sync::Arc;
use std::time::Duration;

pub static PANICS: AtomicU64 = AtomicU64::new(0);
static MARK_PATH: std::sync::Mutex<Option<std::path::PathBuf>> = std::sync::Mutex::new(None);

pub fn set_mark_path(p: std::path::PathBuf) {
    *MARK_PATH.lock().unwrap() = Some(p);
}
pub fn mark_file(op: &str) {
    if let Some(p) = MARK_PATH.lock().unwrap().as_ref() {
        let _ = std::fs::write(p, op);
    }
}

pub fn install_panic_counter() {
    std::panic::set_hook(Box::new(|info| {
        PANICS.fetch_add(1, Ordering::SeqCst);
        if std::env::var("VERIF_SHOW_PANICS").is_ok() {
            eprintln!("PANIC: {info}");
        }
    }));
}

/// dial an anemo network as a raw QUIC peer and complete the ack handshake
pub async fn raw_connect(raw: &RawNode, server_addr: std::net::SocketAddr) -> anyhow::Result<quinn::Connection> {
    let cfg = client_config(&raw.id, vec![raw.name.clone()]);
    let conn = raw.ep.connect_with(cfg, server_addr, &raw.name)?.await?;
    let mut uni = conn.accept_uni().await?;
    let mut buf = [0u8; 8];
    uni.read_exact(&mut buf).await?;
    Ok(conn)
}

#[derive(Clone, Debug)]
pub enum ScriptOp {
    Write(Vec<u8>),
    Fin,
    Reset,
    Stop,
    Wait(u64),
    Read,
}

fn fmt_ops(ops: &[ScriptOp]) -> String {
    if ops.is_empty() {
        return "-".into();
    }
    ops.iter()
        .map(|o| match o {
            ScriptOp::Write(b) => format!("w:{}", hexs(b)),
            ScriptOp::Fin => "fin".into(),
            ScriptOp::Reset => "reset".into(),
            ScriptOp::Stop => "stop".into(),
            ScriptOp::Wait(ms) => format!("wait:{ms}"),
            ScriptOp::Read => "read".into(),
        })
        .collect::<Vec<_>>()
        .join(",")
}

fn sorted_headers(h: &anemo::types::HeaderMap) -> String {
    let m: BTreeMap<&[u8], &[u8]> = h.iter().map(|(k, v)| (k.as_bytes(), v.as_bytes())).collect();
    if m.is_empty() {
        return "-".into();
    }
    m.iter().map(|(k, v)| format!("{}:{}", hexs(k), hexs(v))).collect::<Vec<_>>().join(",")
}

/// run one script on a fresh bi stream; returns what the client saw on `read`
async fn run_script(conn: &quinn::Connection, ops: &[ScriptOp]) -> anyhow::Result<String> {
    let (mut send, mut recv) = conn.open_bi().await?;
    let mut got = "unread".to_string();
    for op in ops {
        match op {
            ScriptOp::Write(b) => {
                let _ = send.write_all(b).await;
            }
            ScriptOp::Fin => {
                let _ = send.finish();
            }
            ScriptOp::Reset => {
                let _ = send.reset(0u32.into());
            }
            ScriptOp::Stop => {
                let _ = recv.stop(0u32.into());
            }
            ScriptOp::Wait(ms) => tokio::time::sleep(Duration::from_millis(*ms)).await,
            ScriptOp::Read => {
                let r = tokio::time::timeout(Duration::from_millis(5), recv.read_to_end(64 << 20)).await;
                got = match r {
                    Err(_) => "pending".into(),
                    Ok(Err(quinn::ReadToEndError::Read(quinn::ReadError::Reset(_)))) => "reset".into(),
                    Ok(Err(e)) => format!("read-error:{}", e.to_string().replace(' ', "_")),
                    Ok(Ok(bytes)) => {
                        let (_, out, _) = wire::dec_resp(None, &bytes);
                        // "ok status=.. headers=.. body=.. version=V1 rest=0" -> drop the tail
                        match out.strip_prefix("ok ") {
                            Some(rest) => {
                                let core: Vec<&str> = rest.split_whitespace().filter(|t| !t.starts_with("version=") && !t.starts_with("rest=")).collect();
                                format!("ok {}", core.join(" "))
                            }
                            None => format!("undecodable:{}", out.trim_start_matches("err ")),
                        }
                    }
                };
            }
        }
        if !matches!(op, ScriptOp::Wait(_)) {
            tokio::time::sleep(Duration::from_millis(10)).await;
        }
    }
    // let everything settle before the streams are dropped
    tokio::time::sleep(Duration::from_millis(1000)).await;
    drop(send);
    drop(recv);
    Ok(got)
}

fn request_bytes(id: &str, sleep: u64, body: &[u8], extra_header: Option<(&str, &str)>) -> Vec<u8> {
    let mut headers = vec![("x-id".to_string(), id.to_string())];
    if sleep > 0 {
        headers.push(("x-sleep-ms".into(), sleep.to_string()));
    }
    if let Some((k, v)) = extra_header {
        headers.push((k.into(), v.into()));
    }
    let m = wire::Msg { route: "/".into(), status: StatusCode::Success, headers, body: body.to_vec() };
    wire::enc_req(None, &m).2
}

fn chunks(rng: &mut Rng, bytes: &[u8]) -> Vec<ScriptOp> {
    let n = 1 + rng.below(4) as usize;
    let mut cuts: Vec<usize> = (0..n - 1).map(|_| rng.below(bytes.len() as u64 + 1) as usize).collect();
    cuts.sort();
    let mut out = vec![];
    let mut prev = 0;
    for c in cuts.into_iter().chain(std::iter::once(bytes.len())) {
        if c > prev {
            out.push(ScriptOp::Write(bytes[prev..c].to_vec()));
            prev = c;
        }
    }
    out
}

struct GenScript {
    ops: Vec<ScriptOp>,
    sleep: u64,
    id: String,
    /// the outcome is a scheduler race (stop overtakes the last request bytes): not compared with the model
    racy: bool,
    kind: &'static str,
}

fn gen_script(rng: &mut Rng, id: String) -> GenScript {
    let mut sleep = *rng.pick(&[0u64, 0, 137, 333]);
    let body = rng.rbytes(200);
    // well-formed requests with hostile header values: a `timeout` that does not parse as u64 counts as
    // absent, an astronomically large one never fires - neither may disturb the serving side
    const HOSTILE_TIMEOUTS: [&str; 15] = [
        "18446744073709551616",
        "18446744073709551615",
        "9223372036854775807000000000",
        "340282366920938463463374607431768211455",
        "340282366920938463463374607431768211456",
        "99999999999999999999999999999999999999999999",
        "-1",
        "1e9",
        "",
        " 5",
        // long unparsable values with a multi-byte character straddling small power-of-two offsets (anything
        // that truncates the value for a log line or an error message by BYTE index would split a character)
        "0123456789012345678901234567890\u{e9}tail-after-the-accent",
        "012345678901234567890123456789\u{20ac}tail-after-the-euro",
        "01234567890123456789012345678\u{1f600}tail-after-the-emoji",
        "\u{e9}\u{e9}\u{e9}\u{e9}\u{e9}\u{e9}\u{e9}\u{20ac}\u{20ac}\u{20ac}\u{20ac}\u{20ac}\u{20ac}\u{20ac}\u{20ac}\u{20ac}\u{20ac}\u{20ac}\u{1f600}\u{1f600}\u{1f600}\u{1f600}\u{1f600}\u{1f600}\u{1f600}\u{1f600}\u{1f600}\u{1f600}\u{1f600}\u{1f600}\u{1f600}\u{1f600}\u{1f600}\u{1f600}\u{1f600}",
        "0123456\u{e9}0123456\u{20ac}0123456\u{1f600}0123456789012345678901234567890123456789012345678901234567890\u{e9}\u{e9}\u{e9}",
    ];
    let extra = match rng.below(8) {
        0 | 1 => Some(("k", "v")),
        2 | 3 => Some(("timeout", *rng.pick(&HOSTILE_TIMEOUTS))),
        _ => None,
    };
    let full = request_bytes(&id, sleep, &body, extra);
    let mut ops;
    let mut racy = false;
    let kind;
    match rng.below(10) {
        0 | 1 => {
            kind = "normal";
            ops = chunks(rng, &full);
            ops.push(ScriptOp::Fin);
            ops.push(ScriptOp::Wait(*rng.pick(&[400u64, 600])));
            ops.push(ScriptOp::Read);
        }
        2 => {
            kind = "truncated-fin";
            let k = rng.below(full.len() as u64) as usize;
            ops = chunks(rng, &full[..k]);
            ops.push(ScriptOp::Fin);
            ops.push(ScriptOp::Wait(100));
            ops.push(ScriptOp::Read);
        }
        3 => {
            kind = "truncated-reset";
            let k = rng.below(full.len() as u64) as usize;
            ops = chunks(rng, &full[..k]);
            ops.push(ScriptOp::Reset);
            ops.push(ScriptOp::Wait(100));
            ops.push(ScriptOp::Read);
        }
        4 | 5 => {
            kind = "abandon-while-handling";
            ops = chunks(rng, &full);
            if rng.chance(1, 2) {
                ops.push(ScriptOp::Fin);
            }
            ops.push(ScriptOp::Wait(*rng.pick(&[100u64, 200, 400])));
            ops.push(ScriptOp::Stop);
            if rng.chance(1, 2) {
                ops.push(ScriptOp::Reset);
            }
            ops.push(ScriptOp::Wait(400));
        }
        6 => {
            kind = "garbage";
            let g = match rng.below(3) {
                0 => rng.rbytes(100),
                1 => {
                    // a mutation that leaves a valid request under ANOTHER request id would be counted under the
                    // wrong id by the invocation log: keep the id bytes intact
                    // (a mutation that still decodes as a request must carry this script's id in `x-id`)
                    let same_id = |m: &[u8]| match wire::dec_req(None, m).2 {
                        wire::Dec::Req(r) => r.headers().get("x-id").map(|v| v == &id).unwrap_or(false),
                        _ => true,
                    };
                    let mut m = wire::mutate(rng, &full);
                    let mut tries = 0;
                    while !same_id(&m) && tries < 8 {
                        m = wire::mutate(rng, &full);
                        tries += 1;
                    }
                    if !same_id(&m) {
                        m = rng.rbytes(100);
                    }
                    // if the mutation still decodes as a request, the handler sleeps for what THAT request says
                    // (a mutated `x-sleep-ms` name or value changes it)
                    if let wire::Dec::Req(r) = wire::dec_req(None, &m).2 {
                        sleep = r.headers().get("x-sleep-ms").and_then(|v| v.parse::<u64>().ok()).unwrap_or(0);
                    }
                    m
                }
                _ => {
                    let mut v = full.clone();
                    if v.len() > 12 {
                        v[8..12].copy_from_slice(&0xffff_fff0u32.to_be_bytes());
                    }
                    v
                }
            };
            ops = chunks(rng, &g);
            ops.push(ScriptOp::Fin);
            ops.push(ScriptOp::Wait(100));
            ops.push(ScriptOp::Read);
        }
        7 => {
            kind = "never-read";
            ops = chunks(rng, &full);
            ops.push(ScriptOp::Fin);
            ops.push(ScriptOp::Wait(600));
        }
        8 => {
            kind = "stop-overtakes-request";
            racy = true;
            let k = 1 + rng.below(full.len() as u64 - 1) as usize;
            ops = vec![ScriptOp::Write(full[..k].to_vec()), ScriptOp::Stop, ScriptOp::Write(full[k..].to_vec()), ScriptOp::Fin, ScriptOp::Wait(500)];
        }
        _ => {
            kind = "extra-bytes-after-request";
            ops = chunks(rng, &full);
            ops.push(ScriptOp::Write(rng.rbytes(40)));
            ops.push(ScriptOp::Fin);
            ops.push(ScriptOp::Wait(600));
            ops.push(ScriptOp::Read);
        }
    }
    GenScript { ops, sleep, id, racy, kind }
}

/// a request whose handler sleeps 333 ms, abandoned by the caller 100 ms after it was sent
fn abandon_mid_handler_script(rng: &mut Rng, id: String) -> GenScript {
    let body = rng.rbytes(200);
    let full = request_bytes(&id, 333, &body, None);
    let mut ops = chunks(rng, &full);
    ops.push(ScriptOp::Fin);
    ops.push(ScriptOp::Wait(100));
    ops.push(ScriptOp::Stop);
    ops.push(ScriptOp::Reset);
    ops.push(ScriptOp::Wait(400));
    GenScript { ops, sleep: 333, id, racy: false, kind: "abandon-while-handling" }
}

fn lifecycle_str(l: Option<(u64, u64, u64)>) -> (u64, &'static str) {
    match l {
        None => (0, "none"),
        Some((s, f, d)) => (s, if f >= 1 { "finished" } else if d >= 1 { "dropped" } else if s >= 1 { "running" } else { "none" }),
    }
}

/// one session: an honest server, a raw authenticated peer running scripts on its connection, an
/// honest third network whose RPCs must keep succeeding, honest requests on the raw peer's own
/// connection (other streams), plus connection-level noise
fn session(run: &mut Run, rng: &mut Rng, idx: u64, nscripts: usize) -> anyhow::Result<()> {
    let seed = run.seed ^ (idx << 12) ^ 0x57;
    let mut lrng = rng.fork(idx);
    let scripts: Vec<GenScript> = (0..nscripts).map(|i| gen_script(&mut lrng, format!("s{idx}-{i}"))).collect();
    let noise: Vec<u64> = (0..nscripts).map(|_| lrng.below(7)).collect();
    let variant: u64 = if idx < 1000 { [0, 1, 0, 2][(idx % 4) as usize] } else { 0 };
    let mut scripts = scripts;
    if variant == 2 {
        // behind the in-flight limit: make sure several calls are abandoned while their handler runs
        for i in [0usize, 2, 3, 5] {
            if i < scripts.len() {
                scripts[i] = abandon_mid_handler_script(&mut lrng, format!("s{idx}-{i}"));
            }
        }
    }
    run.count("serving-side", ["plain", "concurrency-limit-1", "inflight-limit-2-block"][variant as usize]);
    let rt = paused_rt();
    struct Obs {
        client: String,
        invoked: u64,
        handler: &'static str,
        honest_ok: bool,
        own_conn_ok: bool,
        server_closed: bool,
        still_listed: bool,
    }
    let panics_before = PANICS.load(Ordering::SeqCst);
    let res: anyhow::Result<Vec<Obs>> = rt.block_on(async {
        let fabric = Fabric::new(seed);
        // the serving side: plain, or (hostile-stream sessions only) behind tower's ConcurrencyLimit(1), or
        // behind anemo-tower's per-peer in-flight limit (Block mode): a misbehaving peer must not pin the
        // shared slot nor leak its own permits
        let s = match variant {
            1 => start_node_limited(&fabric, seed, 1, config_idle(120_000))?,
            2 => start_node_inflight(&fabric, seed, 1, config_idle(120_000), 2, true)?,
            _ => start_node(&fabric, seed, 1, config_idle(120_000))?,
        };
        let h = start_node(&fabric, seed, 2, config_idle(120_000))?;
        let hp = h.net.connect(s.addr).await?;
        let raw = raw_node(&fabric, 3, key_of(seed, 3), "verif");
        let conn = raw_connect(&raw, s.addr).await?;
        let mut out = vec![];
        for (i, sc) in scripts.iter().enumerate() {
            // connection-level noise from the hostile peer
            match noise[i] {
                0 => {
                    if let Ok(mut u) = conn.open_uni().await {
                        let _ = u.write_all(b"unsolicited").await;
                        if i % 2 == 0 {
                            let _ = u.finish();
                        } else {
                            std::mem::forget(u); // held open, never finished
                        }
                    }
                }
                1 => {
                    let _ = conn.send_datagram(Bytes::from_static(b"datagram"));
                }
                2 => {
                    // an idle stream that is opened and abandoned
                    if let Ok((s2, r2)) = conn.open_bi().await {
                        drop(s2);
                        drop(r2);
                    }
                }
                6 => {
                    // a request stream on which one byte arrives and then nothing, held open for good
                    if let Ok((mut s2, r2)) = conn.open_bi().await {
                        let _ = s2.write_all(b"a").await;
                        std::mem::forget(s2);
                        std::mem::forget(r2);
                    }
                }
                _ => {}
            }
            crate::streams::mark_file(&format!("stream.script max=none sleep={} ops={}", sc.sleep, fmt_ops(&sc.ops)));
            let client = match run_script(&conn, &sc.ops).await {
                Ok(c) => c,
                Err(e) => {
                    // the connection is gone: report it as an observation, not as a harness failure
                    out.push(Obs { client: format!("error:{}", e.to_string().replace(' ', "_")), invoked: 0, handler: "none", honest_ok: true, own_conn_ok: true, server_closed: s.net.is_closed(), still_listed: false });
                    break;
                }
            };
            let lc = s.svc.log.lock().unwrap().lifecycle.get(&sc.id).copied();
            let (invoked, handler) = lifecycle_str(lc);
            if std::env::var("VERIF_DEBUG").is_ok() {
                eprintln!("session {idx} script {i} kind {} noise {} id {} -> invoked={invoked} handler={handler} client={client} t={:?}", sc.kind, noise[i], sc.id, fabric.now());
            }
            // honest traffic: another peer, and a well-formed request on the hostile peer's own connection
            let hr = tokio::time::timeout(Duration::from_secs(10), h.net.rpc(hp, Request::new(Bytes::from_static(b"honest")).with_header("x-id", format!("h{idx}-{i}")))).await;
            let honest_ok = matches!(&hr, Ok(Ok(r)) if r.body().as_ref() == &expected_response_body(&format!("h{idx}-{i}"), b"honest")[..]);
            let own = {
                let id = format!("o{idx}-{i}");
                crate::streams::mark_file(&format!("(well-formed request o{idx}-{i} on the hostile peer's connection, after) stream.script max=none sleep={} ops={}", sc.sleep, fmt_ops(&sc.ops)));
                let bytes = request_bytes(&id, 0, b"own", None);
                let ops = vec![ScriptOp::Write(bytes), ScriptOp::Fin, ScriptOp::Wait(100), ScriptOp::Read];
                let got = tokio::time::timeout(Duration::from_secs(10), run_script(&conn, &ops)).await;
                matches!(&got, Ok(Ok(g)) if g.starts_with("ok status=200") && g.contains(&format!("body={}", hexs(&expected_response_body(&id, b"own")))))
            };
            out.push(Obs { client, invoked, handler, honest_ok, own_conn_ok: own, server_closed: s.net.is_closed(), still_listed: s.net.peers().contains(&raw.id.peer_id) });
        }
        // abrupt close by the hostile peer, then the server must still serve the honest one
        drop(conn);
        raw.ep.close(7u32.into(), b"bye");
        tokio::time::sleep(Duration::from_millis(500)).await;
        let hr = tokio::time::timeout(Duration::from_secs(10), h.net.rpc(hp, Request::new(Bytes::from_static(b"after")).with_header("x-id", "after"))).await;
        if !matches!(hr, Ok(Ok(_))) || s.net.is_closed() {
            out.push(Obs { client: "-".into(), invoked: 0, handler: "none", honest_ok: false, own_conn_ok: true, server_closed: s.net.is_closed(), still_listed: true });
        }
        Ok(out)
    });
    drop(rt);
    let obs = res?;
    let panics = PANICS.load(Ordering::SeqCst) - panics_before;
    if panics > 0 {
        run.oracle_fail(json!({"kind": "panic while serving a hostile peer", "count": panics, "session": idx,
            "ops": scripts.iter().map(|s| format!("stream.script max=none sleep={} ops={}", s.sleep, fmt_ops(&s.ops))).collect::<Vec<_>>()}));
    }
    for (i, o) in obs.iter().enumerate() {
        let sc = scripts.get(i);
        let op = sc.map(|s| format!("stream.script max=none sleep={} ops={}", s.sleep, fmt_ops(&s.ops)));
        let mut bad: Option<String> = None;
        if !o.honest_ok {
            bad = Some("an RPC from another (honest) peer failed while a hostile peer misbehaved".into());
        } else if !o.own_conn_ok {
            bad = Some("a well-formed request on another stream of the hostile peer's connection failed".into());
        } else if o.server_closed {
            bad = Some("the network shut down".into());
        } else if !o.still_listed {
            bad = Some("the peer's connection was torn down by a stream-level misbehaviour".into());
        } else if o.invoked > 1 {
            bad = Some(format!("request delivered to the handler {} times", o.invoked));
        }
        if let Some(s) = sc {
            run.count("script", s.kind);
            if s.kind == "abandon-while-handling" && o.handler == "running" {
                bad = Some("handler kept running after the caller abandoned the RPC".into());
            }
        }
        if let Some(b) = bad {
            run.oracle_fail(json!({"kind": b, "ops": op.clone().map(|o| vec![o]).unwrap_or_default(), "session": idx, "script": i}));
        }
        if let (Some(op), Some(s)) = (op, sc) {
            if !s.racy && variant == 0 {
                run.count("handler", o.handler);
                run.op(op, format!("invoked={} handler={} client={}", o.invoked, o.handler, o.client), true);
            } else {
                run.eval(&op, true);
            }
        }
    }
    Ok(())
}

/// (iii) hostile bodies aimed at a TYPED handler (generated server, bincode codec) of the victim: length
/// prefixes that promise up to 2^64-1 bytes, truncations, garbage.  The victim must answer each with an
/// error status, stay up, and keep serving the honest typed client.
fn typed_hostile(run: &mut Run, case: u64) -> anyhow::Result<()> {
    use crate::codegen::{alpha, Instr, Msg, H};
    let seed = run.seed ^ (case << 16) ^ 0x7E9;
    let valid = bincode::serialize(&Msg { id: 5, via: "hostile".into(), instr: Instr::Reply })?;
    let mut bodies: Vec<(&'static str, Vec<u8>)> = vec![("valid", valid.clone())];
    for (name, len) in [("len-2^64-1", u64::MAX), ("len-2^63", 1u64 << 63), ("len-2^40", 1u64 << 40), ("len-2^31", 1u64 << 31), ("len-1MiB-short", 1u64 << 20)] {
        let mut b = 5u64.to_le_bytes().to_vec();
        b.extend_from_slice(&len.to_le_bytes());
        b.extend_from_slice(b"abc");
        bodies.push((name, b));
    }
    bodies.push(("truncated", valid[..valid.len() - 3].to_vec()));
    bodies.push(("garbage", vec![0xff; 40]));
    bodies.push(("empty", vec![]));
    let panics_before = PANICS.load(Ordering::SeqCst);
    let rt = paused_rt();
    let bodies2 = bodies.clone();
    let res: anyhow::Result<Vec<(String, String, bool, bool)>> = rt.block_on(async move {
        let fabric = Fabric::new(seed);
        let router = anemo::Router::new().add_rpc_service(alpha::alpha_server::AlphaServer::new(H::default()));
        let s_addr = Fabric::addr(1);
        let s_net = anemo::Network::bind("127.0.0.1:0").private_key(key_of(seed, 1)).server_name("verif").config(config_idle(120_000)).verif_socket(fabric.socket(s_addr)).start(router)?;
        let s_id = s_net.peer_id();
        let h = start_node(&fabric, seed, 2, config_idle(120_000))?;
        h.net.connect_with_peer_id(s_addr, s_id).await?;
        let raw = raw_node(&fabric, 3, key_of(seed, 3), "verif");
        let conn = raw_connect(&raw, s_addr).await?;
        let mut out = vec![];
        for (name, body) in bodies2 {
            mark_file(&format!("typed handler /Alpha/Ping (bincode) given a hostile body: {name} = {}", hexs(&body)));
            let m = wire::Msg { route: "/Alpha/Ping".into(), status: StatusCode::Success, headers: vec![], body };
            let bytes = wire::enc_req(None, &m).2;
            let ops = vec![ScriptOp::Write(bytes), ScriptOp::Fin, ScriptOp::Wait(200), ScriptOp::Read];
            let got = match tokio::time::timeout(Duration::from_secs(10), run_script(&conn, &ops)).await {
                Ok(Ok(g)) => g,
                Ok(Err(e)) => format!("error:{e}"),
                Err(_) => "hang".into(),
            };
            // the honest typed client
            let mut client = alpha::alpha_client::AlphaClient::new(h.net.peer(s_id).ok_or_else(|| anyhow::anyhow!("honest peer lost its connection"))?);
            let honest = tokio::time::timeout(Duration::from_secs(10), client.ping(Msg { id: 77, via: String::new(), instr: Instr::Reply })).await;
            let honest_ok = matches!(honest, Ok(Ok(r)) if r.body().id == 77);
            out.push((name.to_string(), got, honest_ok, s_net.is_closed()));
        }
        Ok(out)
    });
    drop(rt);
    for (name, got, honest_ok, closed) in res? {
        let status_ok = if name == "valid" { got.starts_with("ok status=200") } else { got.starts_with("ok status=") && !got.starts_with("ok status=200") };
        if !status_ok || !honest_ok || closed {
            run.oracle_fail(json!({"kind": "a hostile body aimed at a typed (bincode) handler was not confined to an error answer for that request", "body": name, "answer": got.chars().take(80).collect::<String>(), "honest_typed_call_ok": honest_ok, "victim_closed": closed}));
        }
        run.count("typed-hostile-body", &name);
        run.eval(&format!("typed{name}"), true);
    }
    let p = PANICS.load(Ordering::SeqCst) - panics_before;
    if p > 0 {
        run.oracle_fail(json!({"kind": "panic while a typed handler decoded a hostile body", "count": p}));
    }
    Ok(())
}

pub fn run_c06(run: &mut Run) -> anyhow::Result<()> {
    install_panic_counter();
    let _ = std::fs::create_dir_all(&run.work);
    set_mark_path(run.work.join("current_op.txt"));
    let mut rng = Rng::new(run.seed);
    // (i) byte level: the decoders on hostile byte strings (same stream as C07, smaller here)
    let n_bytes = if run.quick() { 20_000 } else { 300_000 };
    for _ in 0..n_bytes {
        let m = wire::gen_msg(&mut rng, 256);
        let (_, _, b) = if rng.chance(1, 2) { wire::enc_req(None, &m) } else { wire::enc_resp(None, &m) };
        let mut b = wire::mutate(&mut rng, &b);
        if rng.chance(1, 4) {
            b = wire::mutate(&mut rng, &b);
        }
        let max = if rng.chance(1, 6) { Some(rng.below(600) as usize) } else { None };
        let as_req = rng.chance(1, 2);
        run.mark(&format!("wire.dec-{} max={} bytes={}", if as_req { "req" } else { "resp" }, max.map(|m| m.to_string()).unwrap_or_else(|| "none".into()), hexs(&b)));
        let (op, out, _) = if as_req { wire::dec_req(max, &b) } else { wire::dec_resp(max, &b) };
        if out.starts_with("panic") {
            run.oracle_fail(json!({"kind": "decoder panicked on hostile bytes", "ops": [op.clone()], "impl": out.clone()}));
        }
        run.count("bytes", if out.starts_with("ok") { "ok" } else { out.split_whitespace().nth(1).unwrap_or("?").split(':').next().unwrap_or("?") });
        run.op(op, out, true);
    }
    // (ii) hostile sessions
    let nsess = if run.quick() { 16 } else { 120 };
    for i in 0..nsess {
        session(run, &mut rng, i as u64, 8)?;
    }
    for i in 0..(if run.quick() { 2 } else { 10 }) {
        typed_hostile(run, i)?;
    }
    trailing_bytes_window(run, if run.quick() { 3 } else { 30 })?;
    Ok(())
}

// ------------------------------------------------------------------ C02

/// C06 under an unusual but legal configuration: the victim limits the per-STREAM receive window only.  A
/// hostile peer sends a complete request to a slow handler followed by trailing bytes nobody will read,
/// filling that stream's window; well-formed requests on its other streams (and other peers) must still
/// be served at once.
fn trailing_bytes_window(run: &mut Run, cases: u64) -> anyhow::Result<()> {
    for case in 0..cases {
        let seed = run.seed ^ 0x06_77 ^ (case << 16);
        let window: u64 = [16_384, 40_000, 100_000][(case % 3) as usize];
        mark_file(&format!("scenario trailing_bytes_window case {case} window {window} seed {} (re-run with ./check C06 --seed <seed>)", run.seed));
        let rt = paused_rt();
        let res: anyhow::Result<(String, bool, bool)> = rt.block_on(async move {
            let fabric = Fabric::new(seed);
            let mut cfg: Config = config_idle(120_000);
            let mut q = anemo::QuicConfig::default();
            q.max_idle_timeout_ms = Some(120_000);
            q.stream_receive_window = Some(window);
            cfg.quic = Some(q);
            let s = start_node(&fabric, seed, 1, cfg)?;
            let h = start_node(&fabric, seed, 2, config_idle(120_000))?;
            let hp = h.net.connect(s.addr).await?;
            let raw = raw_node(&fabric, 3, key_of(seed, 3), "verif");
            let conn = raw_connect(&raw, s.addr).await?;
            // stream 1: a complete request for a slow handler, then as many trailing bytes as the stream takes
            let (mut s1, r1) = conn.open_bi().await?;
            s1.write_all(&request_bytes("slow", 4_000, b"first", None)).await?;
            let junk = vec![0x5au8; 2 * window as usize];
            let _ = tokio::time::timeout(Duration::from_millis(800), s1.write_all(&junk)).await;
            // stream 2: a well-formed request on the same connection
            let bytes = request_bytes("second", 0, b"own", None);
            let ops = vec![ScriptOp::Write(bytes), ScriptOp::Fin, ScriptOp::Wait(300), ScriptOp::Read];
            let own = tokio::time::timeout(Duration::from_secs(3), run_script(&conn, &ops)).await;
            let own_s = match own {
                Ok(Ok(x)) => x,
                Ok(Err(e)) => format!("error:{e}"),
                Err(_) => "no-answer-within-3s".into(),
            };
            let hr = tokio::time::timeout(Duration::from_secs(3), h.net.rpc(hp, Request::new(Bytes::from_static(b"honest")).with_header("x-id", "h"))).await;
            let honest_ok = matches!(&hr, Ok(Ok(r)) if r.status() == StatusCode::Success);
            let listed = s.net.peers().contains(&raw.id.peer_id);
            std::mem::forget(s1);
            std::mem::forget(r1);
            Ok((own_s, honest_ok, listed))
        });
        drop(rt);
        let (own, honest_ok, listed) = res?;
        run.eval(&format!("trailing-bytes-window {case}"), true);
        run.count("trailing-bytes-window", if own.starts_with("ok ") { "served" } else { "stalled" });
        if !own.starts_with("ok ") || !honest_ok || !listed {
            run.oracle_fail(json!({"kind": "unread trailing bytes on one stream stall well-formed requests on the peer's other streams (victim limits the per-stream receive window only)",
                "second_stream": own, "other_peer_served": honest_ok, "connection_still_listed": listed, "stream_receive_window": window, "seed": run.seed, "case": case}));
        }
    }
    Ok(())
}

pub fn run_c02(run: &mut Run) -> anyhow::Result<()> {
    install_panic_counter();
    let _ = std::fs::create_dir_all(&run.work);
    set_mark_path(run.work.join("current_op.txt"));
    let mut rng = Rng::new(run.seed);
    // (a) event-level scripts (at-most-once, chunking, truncation)
    let nsess = if run.quick() { 8 } else { 80 };
    for i in 0..nsess {
        session(run, &mut rng, 1000 + i as u64, 10)?;
    }
    // (b) honest concurrent RPCs in both directions over lossy / duplicating / reordering networks
    let nscen = if run.quick() { 60 } else { 900 };
    for sc in 0..nscen {
        concurrent_scenario(run, &mut rng, sc as u64)?;
    }
    // (c) deadlines configured for the OTHER direction must not touch an RPC: the caller's inbound default
    // and the callee's outbound default are short, the handler is slower than both, and the caller must
    // still get exactly the handler's answer
    for case in 0..(if run.quick() { 4 } else { 60 }) {
        let seed = run.seed ^ 0x02c ^ ((case as u64) << 24);
        let short = 100 + 50 * (case as u64 % 4);
        let need = short * 3 + 200;
        let rt = paused_rt();
        let res: anyhow::Result<(String, bool, u64)> = rt.block_on(async move {
            let fabric = Fabric::new(seed);
            let mut ca: Config = config_idle(60_000);
            ca.inbound_request_timeout_ms = Some(short);
            let mut cb: Config = config_idle(60_000);
            cb.outbound_request_timeout_ms = Some(short);
            let a = start_node(&fabric, seed, 1, ca)?;
            let b = start_node(&fabric, seed, 2, cb)?;
            let p = a.net.connect(b.addr).await?;
            let body = vec![7u8; 300 + case];
            let r = tokio::time::timeout(Duration::from_secs(30), a.net.rpc(p, Request::new(Bytes::from(body.clone())).with_header("x-id", "dir").with_header("x-sleep-ms", need.to_string()))).await;
            let calls = b.svc.calls.load(Ordering::SeqCst);
            Ok(match r {
                Ok(Ok(resp)) => (format!("status-{}", resp.status().to_u16()), resp.body().as_ref() == expected_response_body("dir", &body).as_slice(), calls),
                Ok(Err(e)) => (format!("error:{e:#}"), false, calls),
                Err(_) => ("hang".into(), false, calls),
            })
        });
        drop(rt);
        let (class, body_ok, calls) = res?;
        run.eval(&format!("other-direction-deadlines {case}"), true);
        run.count("other-direction-deadlines", &class);
        if class != "status-200" || !body_ok || calls != 1 {
            run.oracle_fail(json!({"kind": "an RPC did not return the response its handler produced: deadlines configured for the other direction (caller's inbound default, callee's outbound default) interfered",
                "observed": class, "body_is_the_handlers": body_ok, "handler_invocations": calls, "short_deadline_ms": short, "handler_needs_ms": need}));
        }
    }
    // (d) the callee's service is a merged Router with a generated typed server: every route is answered by its
    // own handler, and a typed handler's error status arrives with code, message and headers
    for case in 0..(if run.quick() { 2 } else { 30 }) {
        use crate::codegen::{beta, Instr, Msg, H};
        use crate::router::TagSvc;
        let seed = run.seed ^ 0x02d ^ ((case as u64) << 24);
        let rt = paused_rt();
        let problems: anyhow::Result<Vec<String>> = rt.block_on(async move {
            let fabric = Fabric::new(seed);
            let a = start_node(&fabric, seed, 1, config_idle(60_000))?;
            let h = H::default();
            let names = ["/zeta", "/alpha", "/mid/x", "/beta", "/omega"];
            let mut inner = anemo::Router::new();
            for (i, n) in names.iter().enumerate() {
                inner = inner.route(n, TagSvc(i as u64 + 1));
            }
            let router = anemo::Router::new().route("/first", TagSvc(100)).merge(inner).add_rpc_service(beta::beta_server::BetaServer::new(h.clone()));
            let addr = Fabric::addr(2);
            let net = anemo::Network::bind("127.0.0.1:0").private_key(key_of(seed, 2)).server_name("verif").config(config_idle(60_000)).verif_socket(fabric.socket(addr)).start(router)?;
            let p = a.net.connect(addr).await?;
            let mut problems = vec![];
            let mut calls = vec![];
            for (i, n) in names.iter().enumerate() {
                let (net, n, want) = (a.net.clone(), n.to_string(), i as u64 + 1);
                calls.push(tokio::spawn(async move {
                    let r = net.rpc(p, Request::new(Bytes::new()).with_route(n.as_str())).await;
                    match r {
                        Ok(resp) if String::from_utf8_lossy(resp.body()).starts_with(&format!("svc={want} ")) => None,
                        Ok(resp) => Some(format!("route {n} was answered `{}` (its own service is {want})", String::from_utf8_lossy(resp.body()))),
                        Err(e) => Some(format!("route {n}: {e:#}")),
                    }
                }));
            }
            for c in calls {
                if let Some(pb) = c.await? {
                    problems.push(pb);
                }
            }
            let mut client = beta::beta_client::BetaClient::new(a.net.peer(p).unwrap());
            let instr = Instr::Fail { code: 429, message: Some("quota exceeded".into()), headers: vec![("retry-after-ms".into(), "250".into()), ("scope".into(), "peer".into())] };
            match client.m_two(Msg { id: 5, via: String::new(), instr }).await {
                Ok(_) => problems.push("a typed handler's error came back as a success".into()),
                Err(s) => {
                    let hs = s.headers();
                    if s.status().to_u16() != 429 || hs.get("retry-after-ms").map(|x| x.as_str()) != Some("250") || hs.get("scope").map(|x| x.as_str()) != Some("peer") || !format!("{s:?}").contains("quota exceeded") {
                        problems.push(format!("a typed handler's error status did not arrive as produced (429, message, two headers): {s:?}"));
                    }
                }
            }
            drop(net);
            Ok(problems)
        });
        drop(rt);
        run.eval(&format!("routed-service {case}"), true);
        for pb in problems? {
            run.oracle_fail(json!({"kind": "an RPC to a routed / typed service did not return what its own handler produced", "detail": pb, "case": case}));
        }
    }
    Ok(())
}

fn concurrent_scenario(run: &mut Run, rng: &mut Rng, sc: u64) -> anyhow::Result<()> {
    let seed = run.seed ^ (sc << 20) ^ 0xC02;
    let mut lrng = rng.fork(sc);
    let quick = run.quick();
    let n = 1 + lrng.below(if quick { 40 } else { 200 }) as usize;
    let faults = Faults {
        loss_permille: *lrng.pick(&[0u64, 0, 10, 50, 150, 300]),
        dup_permille: *lrng.pick(&[0u64, 0, 20, 100]),
        min_latency_us: 200,
        max_latency_us: 200 + *lrng.pick(&[0u64, 1_000, 20_000, 80_000]),
    };
    #[derive(Clone)]
    struct Call {
        id: String,
        from_a: bool,
        route: String,
        headers: Vec<(String, String)>,
        body: Vec<u8>,
        sleep: u64,
        status: Option<u16>,
        resp_len: Option<usize>,
    }
    // some scenarios: the callee has a frame limit and some handlers answer with a body above it, so
    // that the response cannot be sent AFTER the handler ran (the stream is reset; the call must
    // fail, and the request must not be delivered a second time)
    let callee_limit: Option<usize> = if lrng.chance(1, 3) { Some(50_000) } else { None };
    let mut calls = vec![];
    for i in 0..n {
        // big bodies only where the loss rate leaves QUIC a usable throughput
        let big = lrng.chance(1, 12) && faults.loss_permille <= 50 && callee_limit.is_none();
        let body = if big { lrng.rbytes(if quick { 600_000 } else { 6_000_000 }) } else { wire::gen_body(&mut lrng, 20_000) };
        let mut headers = vec![];
        for k in 0..lrng.below(5) {
            let name = match lrng.below(6) {
                0 => (*lrng.pick(&["Authorization", "ETag", "Content-Type", "UPPER", "mIxEd-Case"])).to_string(),
                _ => wire::gen_string(&mut lrng, 10).replace("x-", "y-"),
            };
            headers.push((format!("{name}{k}"), wire::gen_string(&mut lrng, 30)));
        }
        calls.push(Call {
            id: format!("c{sc}-{i}"),
            from_a: lrng.chance(1, 2),
            route: wire::gen_route(&mut lrng),
            headers,
            body,
            sleep: if lrng.chance(1, 2) { lrng.below(400) } else { 0 },
            status: if lrng.chance(1, 5) { Some(*lrng.pick(&[400u16, 404, 429, 500, 520])) } else { None },
            resp_len: if callee_limit.is_some() && lrng.chance(1, 3) { Some(60_000 + lrng.below(1000) as usize) } else { None },
        });
    }
    // some scenarios: the pair is dialled again while calls are in flight: the new connection replaces the
    // old one, whose calls fail - and must not be delivered a second time over the new one
    let redial: Option<(u64, bool)> = if lrng.chance(1, 4) && faults.loss_permille <= 50 { Some((1 + lrng.below(300), lrng.chance(1, 2))) } else { None };
    run.count("redial-mid-flight", if redial.is_some() { "yes" } else { "no" });
    let default_timeouts = lrng.below(4);
    run.count("default-timeouts-configured", &format!("outbound={} inbound={}", default_timeouts & 1, (default_timeouts >> 1) & 1));
    let rt = paused_rt();
    let calls2 = calls.clone();
    let f2 = faults.clone();
    type R = Vec<(Call, Result<(u16, String, Vec<u8>), String>, u64, Option<Vec<(String, String)>>)>;
    let res: anyhow::Result<R> = rt.block_on(async move {
        let fabric = Fabric::new(seed);
        let mut cl: Config = config_idle(600_000);
        cl.max_frame_size = callee_limit;
        // default deadlines (far away) must not change what the handler or the caller see
        if default_timeouts & 1 == 1 {
            cl.outbound_request_timeout_ms = Some(3_000_000);
        }
        if default_timeouts & 2 == 2 {
            cl.inbound_request_timeout_ms = Some(3_100_000);
        }
        let a = start_node(&fabric, seed, 1, cl.clone())?;
        let b = start_node(&fabric, seed, 2, cl)?;
        let pb = a.net.connect(b.addr).await?;
        let pa = a.id;
        // the listener registers the dialer only after the dialer has consumed its ack
        tokio::time::sleep(Duration::from_millis(100)).await;
        fabric.set_faults(f2);
        if let Some((after, by_a)) = redial {
            let (net, addr) = if by_a { (a.net.clone(), b.addr) } else { (b.net.clone(), a.addr) };
            tokio::spawn(async move {
                tokio::time::sleep(Duration::from_millis(after)).await;
                let _ = net.connect(addr).await;
            });
        }
        let mut js = vec![];
        for c in calls2.into_iter() {
            let (net, peer) = if c.from_a { (a.net.clone(), pb) } else { (b.net.clone(), pa) };
            js.push(tokio::spawn(async move {
                let mut req = Request::new(Bytes::from(c.body.clone())).with_route(c.route.clone()).with_header("x-id", c.id.clone());
                for (k, v) in &c.headers {
                    req.headers_mut().insert(k.clone(), v.clone());
                }
                if c.sleep > 0 {
                    req.headers_mut().insert("x-sleep-ms".into(), c.sleep.to_string());
                }
                if let Some(s) = c.status {
                    req.headers_mut().insert("x-status".into(), s.to_string());
                }
                if let Some(n) = c.resp_len {
                    req.headers_mut().insert("x-resp-len".into(), n.to_string());
                }
                let r = tokio::time::timeout(Duration::from_secs(3600), net.rpc(peer, req)).await;
                let out = match r {
                    Err(_) => Err("hang".to_string()),
                    Ok(Err(e)) => Err(format!("{e:#}")),
                    Ok(Ok(resp)) => Ok((resp.status().to_u16(), sorted_headers(resp.headers()), resp.body().to_vec())),
                };
                (c, out)
            }));
        }
        let mut out = vec![];
        for j in js {
            let (c, r) = j.await?;
            let svc = if c.from_a { &b.svc } else { &a.svc };
            // let a possible (wrongful) re-delivery happen before counting
            tokio::time::sleep(Duration::from_millis(50)).await;
            let inv = svc.log.lock().unwrap().lifecycle.get(&c.id).map(|l| l.0).unwrap_or(0);
            // what the handler saw
            let seen = svc.log.lock().unwrap().invocations.iter().find(|i| i.id == c.id).map(|i| i.headers.clone());
            out.push((c, r, inv, seen));
        }
        // the handler must have seen exactly the request sent
        Ok(out)
    });
    drop(rt);
    let results = res?;
    run.count("faults", &format!("loss={} dup={} jitter={}", faults.loss_permille, faults.dup_permille, faults.max_latency_us - 200));
    run.count("callee-frame-limit", &format!("{callee_limit:?}"));
    for (c, r, inv, seen) in results {
        // the handler must have observed exactly the header map the caller sent
        if let Some(seen) = &seen {
            let mut want: Vec<(String, String)> = c.headers.clone();
            want.push(("x-id".into(), c.id.clone()));
            if c.sleep > 0 {
                want.push(("x-sleep-ms".into(), c.sleep.to_string()));
            }
            if let Some(s) = c.status {
                want.push(("x-status".into(), s.to_string()));
            }
            if let Some(n) = c.resp_len {
                want.push(("x-resp-len".into(), n.to_string()));
            }
            let wm: BTreeMap<String, String> = want.into_iter().collect();
            let sm: BTreeMap<String, String> = seen.iter().cloned().collect();
            if wm != sm {
                run.oracle_fail(json!({"kind": "the handler did not observe exactly the header map the caller sent", "replay": {"scenario": sc, "id": c.id},
                    "sent": wm.keys().collect::<Vec<_>>(), "seen": sm.keys().collect::<Vec<_>>()}));
            }
        }
        run.count("concurrent", &match &r {
            Ok(_) => "ok".to_string(),
            Err(e) => format!("err:{}", e.chars().take(40).collect::<String>()),
        });
        let scenario = json!({"scenario": sc, "concurrent": n, "faults": {"loss_permille": faults.loss_permille, "dup_permille": faults.dup_permille, "max_latency_us": faults.max_latency_us}, "id": c.id});
        if inv > 1 {
            run.oracle_fail(json!({"kind": format!("request delivered to the handler {inv} times"), "replay": scenario.clone()}));
        }
        match &r {
            Ok((status, _h, body)) => {
                let want_status = c.status.unwrap_or(200);
                let want_body = match c.resp_len {
                    Some(n) => vec![0xabu8; n],
                    None => expected_response_body(&c.id, &c.body),
                };
                // the caller must see exactly the headers the handler produced
                let mut want_h: BTreeMap<Vec<u8>, Vec<u8>> = c.headers.iter().map(|(k, v)| (format!("echo-{k}").into_bytes(), v.clone().into_bytes())).collect();
                want_h.insert(b"x-id".to_vec(), c.id.clone().into_bytes());
                let want_hs = want_h.iter().map(|(k, v)| format!("{}:{}", hexs(k), hexs(v))).collect::<Vec<_>>().join(",");
                if *_h != want_hs {
                    run.oracle_fail(json!({"kind": "the caller did not receive exactly the headers the handler produced", "replay": scenario.clone()}));
                }
                if *status != want_status || body != &want_body {
                    run.oracle_fail(json!({"kind": "an RPC returned a response that is not the handler's response for its own request (swapped / merged / truncated)", "replay": scenario.clone(),
                        "got_status": status, "want_status": want_status, "got_len": body.len(), "want_len": want_body.len()}));
                }
                if inv != 1 {
                    run.oracle_fail(json!({"kind": format!("successful RPC but the handler ran {inv} times"), "replay": scenario.clone()}));
                }
            }
            Err(_) if false => {}
            Err(e) if e == "hang" => run.oracle_fail(json!({"kind": "RPC neither answered nor failed within 3600 virtual seconds", "replay": scenario.clone()})),
            Err(_) => {}
        }
        // model line (content of the response) for messages of moderate size
        if let Ok((status, h, body)) = &r {
            if c.body.len() <= 4096 {
                let mut hs: Vec<(String, String)> = c.headers.clone();
                hs.push(("x-id".into(), c.id.clone()));
                if c.sleep > 0 {
                    hs.push(("x-sleep-ms".into(), c.sleep.to_string()));
                }
                if let Some(s) = c.status {
                    hs.push(("x-status".into(), s.to_string()));
                }
                if let Some(n) = c.resp_len {
                    hs.push(("x-resp-len".into(), n.to_string()));
                }
                let op = format!(
                    "stream.respond route={} headers={} body={}",
                    hexs(c.route.as_bytes()),
                    hs.iter().map(|(k, v)| format!("{}:{}", hexs(k.as_bytes()), hexs(v.as_bytes()))).collect::<Vec<_>>().join(","),
                    hexs(&c.body)
                );
                run.op(op, format!("status={status} headers={h} body={}", hexs(body)), true);
            } else {
                run.eval(&c.id, true);
            }
        } else {
            run.eval(&c.id, false);
        }
    }
    Ok(())
}

// ------------------------------------------------------------------ C12

pub fn run_c12(run: &mut Run) -> anyhow::Result<()> {
    install_panic_counter();
    let _ = std::fs::create_dir_all(&run.work);
    set_mark_path(run.work.join("current_op.txt"));
    let mut rng = Rng::new(run.seed);
    // (a) event-level scripts (shared machinery): abandon at every phase
    let nsess = if run.quick() { 8 } else { 80 };
    for i in 0..nsess {
        session(run, &mut rng, 2000 + i as u64, 10)?;
    }
    // (b) long abandon histories against small stream limits
    let nhist = if run.quick() { 10 } else { 120 };
    for hidx in 0..nhist {
        abandon_history(run, &mut rng, hidx as u64)?;
    }
    // (c) abandons while the callee's service is saturated (poll_ready back-pressure)
    for hidx in 0..(if run.quick() { 2 } else { 40 }) {
        backpressure_history(run, hidx as u64)?;
    }
    // (d) "any number of abandoned RPCs": thousands on one connection, each one noticed by the callee
    for hidx in 0..(if run.quick() { 1 } else { 6 }) {
        very_long_abandon_history(run, hidx as u64, if run.quick() { 1_300 } else { 6_000 })?;
    }
    Ok(())
}

fn very_long_abandon_history(run: &mut Run, hidx: u64, total: usize) -> anyhow::Result<()> {
    let seed = run.seed ^ 0xc12d ^ (hidx << 20);
    mark_file(&format!("scenario very_long_abandon_history {hidx} ({total} abandoned calls on one connection) seed {} (re-run with ./check C12 --seed <seed>)", run.seed));
    let rt = paused_rt();
    let res: anyhow::Result<(usize, Option<String>, i64, usize)> = rt.block_on(async move {
        let fabric = Fabric::new(seed);
        let a = start_node(&fabric, seed, 1, config_idle(600_000))?;
        let b = start_node(&fabric, seed, 2, config_idle(600_000))?;
        let p = a.net.connect(b.addr).await?;
        let mut la = crate::peers::NodeLog::new(&a.net);
        let mut done = 0usize;
        let mut problem = None;
        let batch = 50usize;
        while done < total && problem.is_none() {
            let mut hs = vec![];
            for i in 0..batch {
                let net = a.net.clone();
                let id = format!("ab{}", done + i);
                // abandoned while the handler runs (timeout) or while the request is on its way (drop at once)
                let wait = if i % 5 == 0 { 0 } else { 20 + (i as u64 % 7) };
                hs.push(tokio::spawn(async move {
                    let f = net.rpc(p, Request::new(Bytes::from(vec![1u8; 200])).with_header("x-id", id).with_header("x-sleep-ms", "5000"));
                    let _ = tokio::time::timeout(Duration::from_millis(wait), f).await;
                }));
            }
            for h in hs {
                let _ = h.await;
            }
            done += batch;
            tokio::time::sleep(Duration::from_millis(60)).await;
            let r = tokio::time::timeout(Duration::from_secs(10), a.net.rpc(p, Request::new(Bytes::from_static(b"ok")).with_header("x-id", format!("good{done}")))).await;
            match r {
                Ok(Ok(resp)) if resp.status() == StatusCode::Success => {}
                Ok(Ok(resp)) => problem = Some(format!("after {done} abandoned calls a well-formed call was answered {:?}", resp.status())),
                Ok(Err(e)) => problem = Some(format!("after {done} abandoned calls a well-formed call failed: {e:#}")),
                Err(_) => problem = Some(format!("after {done} abandoned calls a well-formed call got no answer within 10 s")),
            }
        }
        tokio::time::sleep(Duration::from_millis(6_000)).await;
        la.pump();
        let alive = b.svc.concurrent.load(Ordering::SeqCst);
        Ok((done, problem, alive, la.events.len()))
    });
    drop(rt);
    let (done, problem, alive, events) = res?;
    run.eval(&format!("very-long-abandon-history {hidx}"), true);
    run.count("very-long-abandon-history", if problem.is_none() { "served-throughout" } else { "broken" });
    if let Some(p) = problem {
        run.oracle_fail(json!({"kind": "abandoned RPCs exhaust or break the connection: later RPCs fail", "detail": p, "abandoned_calls": done, "seed": run.seed}));
    } else if alive != 0 || events != 0 {
        run.oracle_fail(json!({"kind": "after a long history of abandoned RPCs handlers are still alive on the callee, or the pair saw connect/disconnect events", "handlers_alive": alive, "peer_events_at_caller": events, "abandoned_calls": done, "seed": run.seed}));
    }
    Ok(())
}

fn backpressure_history(run: &mut Run, hidx: u64) -> anyhow::Result<()> {
    let seed = run.seed ^ (hidx << 28) ^ 0xBAC;
    let nabandon = 250u64;
    let rt = paused_rt();
    let problems: anyhow::Result<Vec<serde_json::Value>> = rt.block_on(async move {
        let fabric = Fabric::new(seed);
        let a = start_node(&fabric, seed, 1, config_idle(600_000))?;
        let b = start_node_limited(&fabric, seed, 2, config_idle(600_000))?;
        let pb = a.net.connect(b.addr).await?;
        tokio::time::sleep(Duration::from_millis(100)).await;
        let mut problems = vec![];
        let baseline = b.svc.live_clones.load(Ordering::SeqCst);
        // one held call saturates the service
        let held = {
            let net = a.net.clone();
            tokio::spawn(async move { net.rpc(pb, Request::new(Bytes::from_static(b"held")).with_header("x-id", "held").with_header("x-sleep-ms", "30000")).await })
        };
        tokio::time::sleep(Duration::from_millis(200)).await;
        for i in 0..nabandon {
            let req = Request::new(Bytes::from_static(b"q")).with_header("x-id", format!("q{i}"));
            let _ = tokio::time::timeout(Duration::from_millis(100), a.net.rpc(pb, req)).await;
        }
        tokio::time::sleep(Duration::from_secs(1)).await;
        let live = b.svc.live_clones.load(Ordering::SeqCst);
        let reached = b.svc.calls.load(Ordering::SeqCst);
        if live > baseline + 2 {
            problems.push(json!({"kind": "per-request resources of abandoned RPCs are still held by the remote (service instances not released)", "live_service_clones": live, "baseline": baseline, "abandoned": nabandon}));
        }
        if reached > 1 {
            problems.push(json!({"kind": "abandoned RPCs queued behind a busy service reached the handler", "handler_calls": reached}));
        }
        // the held call completes and a later call works
        let h = tokio::time::timeout(Duration::from_secs(60), held).await;
        if !matches!(h, Ok(Ok(Ok(_)))) {
            problems.push(json!({"kind": "a call that was not abandoned failed while its siblings were abandoned"}));
        }
        let later = tokio::time::timeout(Duration::from_secs(20), a.net.rpc(pb, Request::new(Bytes::from_static(b"later")).with_header("x-id", "later"))).await;
        if !matches!(later, Ok(Ok(_))) {
            problems.push(json!({"kind": "a later RPC failed or hung after abandoned RPCs queued behind a busy service"}));
        }
        Ok(problems)
    });
    drop(rt);
    for mut p in problems? {
        p["replay"] = json!({"mode": "backpressure-history", "history": hidx});
        run.oracle_fail(p);
    }
    run.evaluations += nabandon;
    run.count("backpressure-history", "run");
    Ok(())
}

fn abandon_history(run: &mut Run, rng: &mut Rng, hidx: u64) -> anyhow::Result<()> {
    let seed = run.seed ^ (hidx << 24) ^ 0xC12;
    let mut lrng = rng.fork(hidx);
    let limit = *lrng.pick(&[1u64, 4, 100]);
    let nabandon = if run.quick() { 150 + lrng.below(250) } else { 500 + lrng.below(4500) };
    let inflight_pick = lrng.below(6);
    let rt = paused_rt();
    let res: anyhow::Result<(Vec<serde_json::Value>, BTreeMap<String, u64>)> = rt.block_on(async move {
        let fabric = Fabric::new(seed);
        let mut cb: Config = config_idle(600_000);
        let mut q = cb.quic.clone().unwrap_or_default();
        q.max_concurrent_bidi_streams = Some(limit);
        cb.quic = Some(q);
        let a = start_node(&fabric, seed, 1, config_idle(600_000))?;
        // in a third of the histories the callee's service sits behind the per-peer in-flight limit of
        // anemo-tower: abandoned calls must give their permit back
        let inflight: Option<(usize, bool)> = if inflight_pick == 0 { Some((2, false)) } else if inflight_pick == 1 { Some((2, true)) } else { None };
        let b = match inflight {
            Some((m, block)) => start_node_inflight(&fabric, seed, 2, cb, m, block)?,
            None => start_node(&fabric, seed, 2, cb)?,
        };
        let pb = a.net.connect(b.addr).await?;
        let mut problems = vec![];
        let mut stats: BTreeMap<String, u64> = BTreeMap::new();
        *stats.entry(format!("callee-inflight-limit:{inflight:?}")).or_default() += 1;
        // a sibling call that is NOT abandoned stays in flight over a stretch of abandons (when the limit allows)
        for i in 0..nabandon {
            let id = format!("ab{hidx}-{i}");
            let big = lrng.chance(1, 15);
            let body = if big { vec![3u8; 2_000_000] } else { lrng.rbytes(300) };
            let sleep = *lrng.pick(&[0u64, 50, 500, 5_000, 60_000]);
            let mut req = Request::new(Bytes::from(body)).with_header("x-id", id.clone());
            if sleep > 0 {
                req.headers_mut().insert("x-sleep-ms".into(), sleep.to_string());
            }
            // some answers are large, so that the call can be abandoned after the handler returned while the
            // response is still being transmitted
            if lrng.chance(1, 10) {
                req.headers_mut().insert("x-resp-len".into(), (1_000_000 + lrng.below(5_000_000)).to_string());
            }
            // a (long) deadline of its own does not exempt a call from being cancelled when it is abandoned
            if lrng.chance(1, 4) {
                req = req.with_timeout(Duration::from_secs(120 + lrng.below(600)));
            }
            // abandon at a random instant of the call's life: by dropping the future ...
            let when = *lrng.pick(&[0u64, 0, 1, 3, 10, 40, 200, 700]);
            let by_timeout = lrng.chance(1, 4);
            let net = a.net.clone();
            if by_timeout {
                // ... or by a caller-side timeout header
                let req = req.with_timeout(Duration::from_millis(when.max(1)));
                let _ = net.rpc(pb, req).await;
                *stats.entry("abandon-by-timeout".into()).or_default() += 1;
            } else {
                let fut = net.rpc(pb, req);
                let _ = tokio::time::timeout(Duration::from_millis(when), fut).await;
                *stats.entry("abandon-by-drop".into()).or_default() += 1;
            }
            if i % 25 == 24 {
                if inflight.is_some() {
                    // let the callee learn of the last abandon (its permit is handed back when the handler is dropped)
                    tokio::time::sleep(Duration::from_millis(200)).await;
                }
                // a live call in between must work (capacity not exhausted), and quickly
                let live = tokio::time::timeout(Duration::from_secs(20), a.net.rpc(pb, Request::new(Bytes::from_static(b"live")).with_header("x-id", format!("live{hidx}-{i}")))).await;
                *stats.entry("live-calls".into()).or_default() += 1;
                if !matches!(&live, Ok(Ok(r)) if r.body().as_ref() == &expected_response_body(&format!("live{hidx}-{i}"), b"live")[..]) {
                    problems.push(json!({"kind": "a later RPC failed or hung after a history of abandoned RPCs (capacity exhausted?)", "after_abandons": i + 1, "stream_limit": limit,
                        "result": format!("{:?}", live.map(|r| r.map(|x| x.status().to_u16()).map_err(|e| e.to_string())))}));
                    break;
                }
            }
        }
        // every handler that started for an abandoned call must have been dropped (or finished) promptly:
        // give signals a second to arrive, then none may still be running
        tokio::time::sleep(Duration::from_secs(2)).await;
        let log = b.svc.log.lock().unwrap();
        let mut running = 0;
        for (id, (s, f, d)) in log.lifecycle.iter() {
            if id.starts_with("ab") && *s > f + d {
                running += 1;
            }
            if *s > 1 {
                problems.push(json!({"kind": format!("request {id} delivered to the handler {s} times")}));
            }
        }
        *stats.entry("handlers-started".into()).or_default() += log.lifecycle.values().map(|l| l.0).sum::<u64>();
        *stats.entry("handlers-dropped".into()).or_default() += log.lifecycle.values().map(|l| l.2).sum::<u64>();
        if running > 0 {
            problems.push(json!({"kind": "handlers of abandoned RPCs are still running 2 s after the caller abandoned them", "still_running": running, "stream_limit": limit}));
        }
        if b.svc.concurrent.load(Ordering::SeqCst) != 0 {
            problems.push(json!({"kind": "handler futures outstanding after all calls ended", "count": b.svc.concurrent.load(Ordering::SeqCst)}));
        }
        drop(log);
        Ok((problems, stats))
    });
    drop(rt);
    let (problems, stats) = res?;
    for mut p in problems {
        p["replay"] = json!({"mode": "abandon-history", "history": hidx});
        run.oracle_fail(p);
    }
    run.evaluations += nabandon;
    for (k, v) in stats {
        *run.dist.entry("abandon".into()).or_default().entry(k).or_default() += v;
    }
    run.count("stream-limit", &limit.to_string());
    run.eval(&format!("hist{hidx}-{limit}-{nabandon}"), true);
    let _ = Arc::new(());
    let _: Option<Response<Bytes>> = None;
    Ok(())
}

/// C18 on a whole network: the per-peer in-flight limit in front of the service of a listener; a dialer
/// has requests EXECUTING when its connection goes away (explicit disconnect by either side, or its
/// network shut down); when the same identity comes back its slots must be free again ("a slot is freed
/// whenever a request finishes ... or by being cancelled").
pub fn inflight_over_reconnect(run: &mut Run, cases: u64) -> anyhow::Result<()> {
    for case in 0..cases {
        let seed = run.seed ^ (case << 20) ^ 0x18_18;
        let mut rng = Rng::new(seed);
        let max = 1 + rng.below(2) as usize;
        let block = rng.chance(1, 2);
        let how = rng.below(3); // 0: dialer disconnects, 1: listener disconnects, 2: dialer's network shuts down
        run.mark(&format!("scenario inflight-over-reconnect case {case} seed {} (re-run with ./check C18 --seed <seed>)", run.seed));
        let rt = paused_rt();
        let problems: anyhow::Result<Vec<String>> = rt.block_on(async move {
            let fabric = Fabric::new(seed);
            let l = start_node_inflight(&fabric, seed, 1, config_idle(120_000), max, block)?;
            let key = key_of(seed, 2);
            let d = start_node_with(&fabric, 2, key, "verif", None, config_idle(120_000))?;
            let p = d.net.connect(l.addr).await?;
            // fill every slot with a request that never finishes by itself
            let mut pending = vec![];
            for i in 0..max {
                let net = d.net.clone();
                pending.push(tokio::spawn(async move { net.rpc(p, Request::new(Bytes::from_static(b"x")).with_header("x-id", format!("hold{i}")).with_header("x-hang", "1")).await.map(|r| r.status()) }));
            }
            tokio::time::sleep(Duration::from_millis(300)).await;
            let started = l.svc.calls.load(std::sync::atomic::Ordering::SeqCst);
            let mut problems = vec![];
            if started != max as u64 {
                problems.push(format!("{started} of {max} slot-filling requests reached the service"));
            }
            match how {
                0 => {
                    let _ = d.net.disconnect(l.id);
                }
                1 => {
                    let _ = l.net.disconnect(d.id);
                }
                _ => {
                    let _ = d.net.shutdown().await;
                }
            }
            tokio::time::sleep(Duration::from_millis(1500)).await;
            for h in pending {
                h.abort();
            }
            // the same identity comes back
            let d2 = if how == 2 { start_node_with(&fabric, 3, key, "verif", None, config_idle(120_000))? } else { d };
            let p2 = tokio::time::timeout(Duration::from_secs(20), d2.net.connect(l.addr)).await??;
            let mut ok = 0;
            for i in 0..max {
                let r = tokio::time::timeout(Duration::from_secs(20), d2.net.rpc(p2, Request::new(Bytes::from_static(b"y")).with_header("x-id", format!("again{i}")))).await;
                match r {
                    Ok(Ok(resp)) if resp.status() == StatusCode::Success => ok += 1,
                    Ok(Ok(resp)) => problems.push(format!("after the connection carrying {max} executing request(s) went away and the peer reconnected, its request was answered {:?} (limit {max}, {})", resp.status(), if block { "Block" } else { "ReturnError" })),
                    Ok(Err(e)) => problems.push(format!("request after reconnect failed: {e:#}")),
                    Err(_) => problems.push(format!("after the connection carrying {max} executing request(s) went away and the peer reconnected, its request waits forever for a slot (limit {max}, Block)")),
                }
            }
            let _ = ok;
            let lc = l.svc.log.lock().unwrap().lifecycle.clone();
            for i in 0..max {
                if let Some((s, f, dr)) = lc.get(&format!("hold{i}")) {
                    if *s == 1 && f + dr == 0 {
                        problems.push(format!("the handler of request hold{i} is still alive 1.5 s after its connection went away"));
                    }
                }
            }
            Ok(problems)
        });
        drop(rt);
        run.eval(&format!("inflight-over-reconnect {case} max={max} block={block} how={how}"), true);
        run.count("inflight-over-reconnect", ["dialer-disconnects", "listener-disconnects", "dialer-shuts-down"][how as usize]);
        for p in problems? {
            run.oracle_fail(json!({"kind": "in-flight limiter: a slot held by a request whose connection went away is never freed", "detail": p, "limit": max, "mode": if block { "Block" } else { "ReturnError" }, "seed": run.seed, "case": case}));
        }
    }
    Ok(())
}
