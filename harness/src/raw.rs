//! Raw quinn endpoints on the fabric that speak anemo's TLS profile: honest ones (used to mint real
//! connections for the direct drive of the active-peer set) and adversarial ones (hand-built rustls
//! configurations: mismatched signing keys, forged certificates, arbitrary SNI, ...).
use crate::fabric::Fabric;
use anemo::PeerId;
use rustls::pki_types::{CertificateDer, PrivateKeyDer};
use std::net::SocketAddr;
use std::sync::Arc;

pub fn provider() -> Arc<rustls::crypto::CryptoProvider> {
    Arc::new(rustls::crypto::ring::default_provider())
}

pub struct Identity {
    pub key: [u8; 32],
    pub cert: CertificateDer<'static>,
    pub pkcs8: PrivateKeyDer<'static>,
    pub peer_id: PeerId,
}

pub fn identity(key: [u8; 32], name: &str) -> Identity {
    let (cert, pkcs8) = anemo::verif::config::generate_cert(key, name);
    let peer_id = anemo::verif::crypto::peer_id_from_certificate(&cert).unwrap();
    Identity { key, cert, pkcs8, peer_id }
}

pub fn transport() -> Arc<quinn::TransportConfig> {
    let mut t = quinn::TransportConfig::default();
    t.max_idle_timeout(Some(std::time::Duration::from_secs(30).try_into().unwrap()));
    Arc::new(t)
}

/// server side as anemo builds it (client certificate mandatory, anemo's verifier)
pub fn server_config(id: &Identity, names: Vec<String>) -> quinn::ServerConfig {
    let crypto = rustls::ServerConfig::builder_with_provider(provider())
        .with_protocol_versions(&[&rustls::version::TLS13])
        .unwrap()
        .with_client_cert_verifier(anemo::verif::crypto::client_cert_verifier(names))
        .with_single_cert(vec![id.cert.clone()], id.pkcs8.clone_key())
        .unwrap();
    let mut s = quinn::ServerConfig::with_crypto(Arc::new(quinn::crypto::rustls::QuicServerConfig::try_from(crypto).unwrap()));
    s.transport = transport();
    s
}

/// client side as anemo builds it (anemo's server-certificate verifier, own certificate offered)
pub fn client_config(id: &Identity, names: Vec<String>) -> quinn::ClientConfig {
    let crypto = rustls::ClientConfig::builder_with_provider(provider())
        .with_protocol_versions(&[&rustls::version::TLS13])
        .unwrap()
        .dangerous()
        .with_custom_certificate_verifier(anemo::verif::crypto::server_cert_verifier(names))
        .with_client_auth_cert(vec![id.cert.clone()], id.pkcs8.clone_key())
        .unwrap();
    let mut c = quinn::ClientConfig::new(Arc::new(quinn::crypto::rustls::QuicClientConfig::try_from(crypto).unwrap()));
    c.transport_config(transport());
    c
}

pub struct RawNode {
    pub ep: quinn::Endpoint,
    pub addr: SocketAddr,
    pub id: Identity,
    pub name: String,
}

pub fn raw_node(fabric: &Fabric, idx: u16, key: [u8; 32], name: &str) -> RawNode {
    let addr = Fabric::addr(idx);
    let id = identity(key, name);
    let sock = fabric.socket(addr);
    let ep = quinn::Endpoint::new_with_abstract_socket(
        quinn::EndpointConfig::default(),
        Some(server_config(&id, vec![name.to_string()])),
        sock,
        Arc::new(quinn::TokioRuntime),
    )
    .unwrap();
    RawNode { ep, addr, id, name: name.to_string() }
}

/// establish one real QUIC connection dialled by `from`; returns (dialer side, listener side)
pub async fn connect_pair(from: &RawNode, to: &RawNode) -> anyhow::Result<(quinn::Connection, quinn::Connection)> {
    let cfg = client_config(&from.id, vec![from.name.clone()]);
    let connecting = from.ep.connect_with(cfg, to.addr, &from.name)?;
    let (a, b) = tokio::join!(connecting, async {
        let inc = to.ep.accept().await.ok_or_else(|| anyhow::anyhow!("endpoint closed"))?;
        let c = inc.accept()?.await?;
        anyhow::Ok(c)
    });
    Ok((a?, b?))
}
