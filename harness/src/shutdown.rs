//! C08: (A) shutdown of a network with work in flight, on the fabric under virtual time: latency
//! against the configured idle-wait bound, post-state, subscriber tail, service clones, remote
//! observation, result of every pending / later API call - compared with the Lean lifecycle model
//! (`life.*` lines) and judged by oracles; (A2) the same on real loopback sockets for the "address can
//! be re-bound at once" clause; (B) runtime-teardown crash points, one child process per case
//! (`teardown.rs`), compared with the model's verdict for the translated decision points.
use crate::fabric::{paused_rt, Fabric};
use crate::net::*;
use crate::out::Run;
use crate::peers::ev_str;
use crate::raw::*;
use crate::rng::Rng;
use anemo::types::PeerEvent;
use anemo::{Network, PeerId};
use serde_json::json;
use std::sync::atomic::Ordering;
use std::time::Duration;

fn hang_req(id: &str) -> anemo::Request<bytes::Bytes> {
    let mut r = anemo::Request::new(bytes::Bytes::from_static(b"x")).with_route("/s");
    r.headers_mut().insert("x-id".into(), id.into());
    r.headers_mut().insert("x-hang".into(), "1".into());
    r
}

fn res_class<T, E>(r: &Result<Result<T, E>, tokio::time::error::Elapsed>) -> &'static str {
    match r {
        Err(_) => "hang",
        Ok(Ok(_)) => "ok",
        Ok(Err(_)) => "err",
    }
}

#[derive(Clone, Debug, Default)]
struct Plan {
    sit_ms: Option<u64>,
    peers: usize,
    inbound_rpcs: usize,
    outbound_rpcs: usize,
    dial_black_hole: bool,
    inbound_handshake: bool,
    subscribers: usize,
    concurrent_calls: bool,
    shutdowns: usize,
    by_drop: bool,
    at_ms: u64,
    /// capacity of the manager's mailbox (default 128): with a small one, API calls issued at the same
    /// instant fill it before the shutdown request is handed over
    mailbox: Option<usize>,
    /// the application keeps a `Peer` handle (obtained from `Network::peer`) across the shutdown
    keep_peer_handle: bool,
}

fn scenario(run: &mut Run, rng: &mut Rng, case: u64) -> anyhow::Result<()> {
    let seed = run.seed ^ (case << 8) ^ 0x08;
    let by_drop = rng.chance(1, 3);
    let plan = Plan {
        sit_ms: *rng.pick(&[Some(200u64), Some(1000), Some(5000), None]),
        peers: rng.below(3) as usize,
        inbound_rpcs: rng.below(3) as usize,
        outbound_rpcs: rng.below(3) as usize,
        dial_black_hole: !by_drop && rng.chance(1, 2),
        inbound_handshake: rng.chance(1, 3),
        subscribers: rng.below(3) as usize,
        concurrent_calls: !by_drop && rng.chance(1, 2),
        shutdowns: if by_drop { 0 } else { 1 + rng.below(3) as usize },
        by_drop,
        at_ms: 50 + rng.below(3000),
        mailbox: *rng.pick(&[None, None, Some(1usize), Some(2)]),
        keep_peer_handle: rng.chance(1, 2),
    };
    let p = plan.clone();
    let rt = paused_rt();
    let res: anyhow::Result<serde_json::Value> = rt.block_on(async move {
        let fabric = Fabric::new(seed);
        let mut cfg = config_idle(30_000);
        cfg.shutdown_idle_timeout_ms = p.sit_ms;
        cfg.connect_timeout_ms = Some(8_000);
        cfg.connection_manager_channel_capacity = p.mailbox;
        let s = start_node_with(&fabric, 1, key_of(seed, 1), "verif", None, cfg)?;
        let s_id = s.id;
        let s_addr = s.addr;
        let svc = s.svc.clone();
        let weak = s.net.downgrade();
        let mut peers: Vec<Node> = vec![];
        for i in 0..p.peers {
            let n = start_node(&fabric, seed, 2 + i as u16, config_idle(30_000))?;
            n.net.connect_with_peer_id(s_addr, s_id).await?;
            peers.push(n);
        }
        tokio::time::sleep(Duration::from_millis(150)).await;
        let peer_ids: Vec<PeerId> = peers.iter().map(|n| n.id).collect();
        let mut peer_logs: Vec<crate::peers::NodeLog> = peers.iter().map(|n| crate::peers::NodeLog::new(&n.net)).collect();
        let kept_peer_handle = if p.keep_peer_handle && !peer_ids.is_empty() { s.net.peer(peer_ids[0]) } else { None };
        // subscribers on S
        let mut subs = vec![];
        for _ in 0..p.subscribers {
            subs.push(s.net.subscribe()?);
        }
        // an observer of completion that does not keep the network alive
        let (mut observer, _) = s.net.subscribe()?;
        // in-flight work
        let mut pending: Vec<(String, tokio::task::JoinHandle<&'static str>)> = vec![];
        if !peers.is_empty() {
            for k in 0..p.inbound_rpcs {
                let net = peers[k % peers.len()].net.clone();
                pending.push((format!("peer-rpc-to-S#{k}"), tokio::spawn(async move { res_class(&tokio::time::timeout(Duration::from_secs(120), net.rpc(s_id, hang_req(&format!("in{k}")))).await) })));
            }
            for k in 0..p.outbound_rpcs {
                let mut peer = s.net.peer(peer_ids[k % peers.len()]).unwrap();
                pending.push((format!("S-rpc-to-peer#{k}"), tokio::spawn(async move { res_class(&tokio::time::timeout(Duration::from_secs(120), peer.rpc(hang_req(&format!("out{k}")))).await) })));
            }
        }
        if p.dial_black_hole {
            let net = s.net.clone();
            pending.push(("S-dial-black-hole".into(), tokio::spawn(async move { res_class(&tokio::time::timeout(Duration::from_secs(120), net.connect(Fabric::addr(77))).await) })));
        }
        tokio::time::sleep(Duration::from_millis(p.at_ms)).await;
        let handled_before = svc.log.lock().unwrap().invocations.len();
        if p.inbound_handshake {
            // a handshake that is in progress when the shutdown starts
            let raw = raw_node(&fabric, 60, key_of(seed, 60), "verif");
            tokio::spawn(async move {
                let _ = crate::streams::raw_connect(&raw, s_addr).await;
                tokio::time::sleep(Duration::from_secs(100)).await;
            });
            tokio::time::sleep(Duration::from_micros(1500)).await;
        }
        // ---- shutdown
        let t0 = tokio::time::Instant::now();
        let mut calls: Vec<(String, tokio::task::JoinHandle<&'static str>)> = vec![];
        let mut shutdown_results: Vec<&'static str> = vec![];
        let mut net_opt: Option<Network> = Some(s.net.clone());
        drop(s);
        if p.by_drop {
            net_opt = None; // the last handle
        } else {
            let net = net_opt.as_ref().unwrap().clone();
            let mut hs = vec![];
            if p.concurrent_calls {
                // issued before the shutdown calls, at the same instant: they sit in the mailbox first
                for k in 0..3u16 {
                    let n = net.clone();
                    calls.push((format!("connect#{k}"), tokio::spawn(async move { res_class(&tokio::time::timeout(Duration::from_secs(200), n.connect(Fabric::addr(90 + k))).await) })));
                }
            }
            for _ in 0..p.shutdowns {
                let n = net.clone();
                hs.push(tokio::spawn(async move { res_class(&tokio::time::timeout(Duration::from_secs(200), n.shutdown()).await) }));
            }
            if p.concurrent_calls {
                let n = net.clone();
                calls.push(("connect".into(), tokio::spawn(async move { res_class(&tokio::time::timeout(Duration::from_secs(200), n.connect(Fabric::addr(78))).await) })));
                if let Some(pid) = peer_ids.first().copied() {
                    let n = net.clone();
                    calls.push(("rpc".into(), tokio::spawn(async move { res_class(&tokio::time::timeout(Duration::from_secs(200), n.rpc(pid, hang_req("conc"))).await) })));
                }
            }
            for h in hs {
                shutdown_results.push(h.await?);
            }
        }
        // completion: explicit = the first shutdown() returned; drop = subscriber end-of-stream / is_closed of a weak observer
        let mut closed_after_ms = (tokio::time::Instant::now() - t0).as_millis() as u64;
        if p.by_drop {
            // poll an observer that does not keep the network alive
            let mut waited = 0u64;
            loop {
                let done = loop {
                    match observer.try_recv() {
                        Ok(_) => continue,
                        Err(tokio::sync::broadcast::error::TryRecvError::Closed) => break true,
                        Err(tokio::sync::broadcast::error::TryRecvError::Lagged(_)) => continue,
                        Err(_) => break false,
                    }
                };
                if done || waited > 100_000 {
                    break;
                }
                tokio::time::sleep(Duration::from_millis(5)).await;
                waited += 5;
            }
            closed_after_ms = (tokio::time::Instant::now() - t0).as_millis() as u64;
        }
        // ---- post-state
        tokio::time::sleep(Duration::from_millis(50)).await;
        let mut post = serde_json::Map::new();
        post.insert("upgrade".into(), json!(weak.upgrade().is_some()));
        post.insert("service_clones_alive".into(), json!(svc.live_clones.load(Ordering::SeqCst)));
        // futures produced by the user's service that are still alive (a detached or leaked request task)
        post.insert("handler_futures_alive".into(), json!(svc.concurrent.load(Ordering::SeqCst)));
        if let Some(net) = net_opt.as_ref() {
            post.insert("is_closed".into(), json!(net.is_closed()));
            post.insert("peers".into(), json!(net.peers().len()));
            post.insert("subscribe".into(), json!(if net.subscribe().is_ok() { "ok" } else { "err" }));
            post.insert("disconnect".into(), json!(if net.disconnect(peer_ids.first().copied().unwrap_or(s_id)).is_ok() { "ok" } else { "err" }));
            post.insert("connect".into(), json!(res_class(&tokio::time::timeout(Duration::from_secs(100), net.connect(Fabric::addr(79))).await)));
            post.insert("rpc".into(), json!(res_class(&tokio::time::timeout(Duration::from_secs(100), net.rpc(peer_ids.first().copied().unwrap_or(s_id), hang_req("late"))).await)));
            post.insert("shutdown_again".into(), json!(res_class(&tokio::time::timeout(Duration::from_secs(100), net.shutdown()).await)));
        }
        // pending work and concurrent calls all return
        let mut pend = serde_json::Map::new();
        for (name, h) in pending.into_iter().chain(calls) {
            let r = match tokio::time::timeout(Duration::from_secs(150), h).await {
                Err(_) => "hang",
                Ok(Err(_)) => "task-failed",
                Ok(Ok(c)) => c,
            };
            pend.insert(name, json!(r));
        }
        // subscribers: pending LostPeer for every connected peer, then end-of-stream
        let mut sub_out = vec![];
        for (mut rx, snapshot) in subs {
            let mut evs = vec![];
            let end = loop {
                match tokio::time::timeout(Duration::from_secs(5), rx.recv()).await {
                    Err(_) => break "open",
                    Ok(Ok(e)) => evs.push(e),
                    Ok(Err(tokio::sync::broadcast::error::RecvError::Closed)) => break "closed",
                    Ok(Err(_)) => break "lagged",
                }
            };
            let replay = crate::peers::replay_strict(&snapshot, &evs);
            sub_out.push(json!({"end": end, "events": evs.iter().map(ev_str).collect::<Vec<_>>(), "replays_to_empty": replay.map(|s| s.is_empty())}));
        }
        // remote peers saw the disconnect
        tokio::time::sleep(Duration::from_millis(300)).await;
        let mut remote = vec![];
        for (n, l) in peers.iter().zip(peer_logs.iter_mut()) {
            l.pump();
            remote.push(json!({"still_lists": n.net.peers().contains(&s_id), "saw_lost": l.events.iter().any(|e| matches!(e, PeerEvent::LostPeer(p, _) if *p == s_id))}));
        }
        let handled_after = svc.log.lock().unwrap().invocations.len();
        drop(kept_peer_handle);
        drop(net_opt);
        Ok(json!({"closed_after_ms": closed_after_ms, "shutdown_results": shutdown_results, "post": post, "pending": pend, "subscribers": sub_out, "remote": remote,
                  "handled_before": handled_before, "handled_after": handled_after}))
    });
    drop(rt);
    let obs = res?;
    let plan_s = format!("{plan:?}");
    let bound = plan.sit_ms.unwrap_or(60_000);
    let mut bad = vec![];
    if obs["closed_after_ms"].as_u64().unwrap() > bound + 150 {
        bad.push("shutdown did not complete within the configured idle-wait bound");
    }
    if obs["shutdown_results"].as_array().unwrap().iter().filter(|x| *x == "ok").count() < plan.shutdowns.min(1) || obs["shutdown_results"].as_array().unwrap().iter().any(|x| x == "hang") {
        bad.push("no shutdown() call reported success, or one hung");
    }
    let post = &obs["post"];
    if post["upgrade"] == json!(true) {
        bad.push("weak reference still upgrades after shutdown");
    }
    if post["service_clones_alive"].as_i64().unwrap_or(0) != 0 || post["handler_futures_alive"].as_i64().unwrap_or(0) != 0 {
        bad.push("clones of the user's service (or futures it produced) are still alive after shutdown");
    }
    if !plan.by_drop {
        if post["is_closed"] != json!(true) || post["peers"] != json!(0) {
            bad.push("network does not report closed with no peers");
        }
        for k in ["connect", "rpc"] {
            if post[k] != json!("err") {
                bad.push("an API call issued after shutdown did not return an error");
            }
        }
        if post["shutdown_again"] == json!("hang") {
            bad.push("a repeated shutdown hung");
        }
    }
    for (_k, v) in obs["pending"].as_object().unwrap() {
        if v != "err" {
            bad.push("an API call pending at shutdown did not return an error");
        }
    }
    for s in obs["subscribers"].as_array().unwrap() {
        if s["end"] != json!("closed") || s["replays_to_empty"] != json!(true) {
            bad.push("a subscriber did not receive its pending LostPeer events followed by end-of-stream");
        }
    }
    for r in obs["remote"].as_array().unwrap() {
        if r["still_lists"] == json!(true) || r["saw_lost"] != json!(true) {
            bad.push("a remote peer did not observe the disconnect");
        }
    }
    bad.dedup();
    for b in bad {
        run.oracle_fail(json!({"kind": b, "plan": plan_s.clone(), "observed": obs.clone()}));
    }
    run.count("shutdown-mode", if plan.by_drop { "by-drop" } else { "explicit" });
    run.count("shutdown-idle-bound", &plan.sit_ms.map(|x| x.to_string()).unwrap_or_else(|| "default".into()));
    run.count("shutdown-inflight", &format!("peers{}-in{}-out{}-dial{}-hs{}", plan.peers, plan.inbound_rpcs.min(plan.peers * 9), plan.outbound_rpcs.min(plan.peers * 9), plan.dial_black_hole as u8, plan.inbound_handshake as u8));
    // model line: the API-level lifecycle
    if !plan.by_drop {
        let op = format!(
            "life.api peers={} calls=shutdown*{},peers,is_closed,upgrade,subscribe,disconnect,connect,rpc,shutdown",
            plan.peers, plan.shutdowns
        );
        let imp = format!(
            "shutdown={} peers={} is_closed={} upgrade={} subscribe={} disconnect={} connect={} rpc={} shutdown_again={}",
            if obs["shutdown_results"].as_array().unwrap().iter().any(|x| x == "ok") { "ok" } else { "err" },
            post["peers"],
            post["is_closed"],
            post["upgrade"],
            post["subscribe"].as_str().unwrap_or("?"),
            post["disconnect"].as_str().unwrap_or("?"),
            post["connect"].as_str().unwrap_or("?"),
            post["rpc"].as_str().unwrap_or("?"),
            post["shutdown_again"].as_str().unwrap_or("?")
        );
        run.op(op, imp, true);
    } else {
        run.eval(&plan_s, true);
    }
    run.samples.push(json!({"plan": plan_s, "closed_after_ms": obs["closed_after_ms"], "bound_ms": bound}));
    if run.samples.len() > 12 {
        run.samples.truncate(12);
    }
    Ok(())
}

/// (A2) real sockets: the address can be re-bound at once
fn rebind_real(run: &mut Run, n: usize) -> anyhow::Result<()> {
    let rt = tokio::runtime::Builder::new_multi_thread().worker_threads(2).enable_all().build()?;
    for i in 0..n {
        let expired_bound = (i / 2) % 2 == 1;
        let r: anyhow::Result<(bool, bool, u128, bool)> = rt.block_on(async move {
            let mut c = anemo::Config::default();
            // every other pair: an idle-wait bound that expires while the connection is still in its closing period
            c.shutdown_idle_timeout_ms = Some(if (i / 2) % 2 == 1 { 1 } else { 300 });
            let a = Network::bind("127.0.0.1:0").private_key([3; 32]).server_name("verif").config(c.clone()).start(Svc::new())?;
            let b = Network::bind("127.0.0.1:0").private_key([4; 32]).server_name("verif").config(c).start(Svc::new())?;
            let addr = a.local_addr();
            match i % 4 {
                0 | 3 => {
                    b.connect(addr).await?;
                }
                2 => {
                    a.connect(b.local_addr()).await?;
                }
                _ => {}
            }
            let t0 = std::time::Instant::now();
            let ok = if i % 3 == 2 {
                let weak = a.downgrade();
                drop(a);
                let mut w = 0;
                while weak.upgrade().is_some() && w < 400 {
                    tokio::time::sleep(Duration::from_millis(5)).await;
                    w += 1;
                }
                // dropped handle: wait for the manager to finish (service clones are gone then)
                tokio::time::sleep(Duration::from_millis(700)).await;
                true
            } else {
                a.shutdown().await.is_ok()
            };
            let took = t0.elapsed().as_millis();
            let rebound = std::net::UdpSocket::bind(addr).is_ok();
            let mut rebound_later = rebound;
            if !rebound {
                tokio::time::sleep(Duration::from_millis(1500)).await;
                rebound_later = std::net::UdpSocket::bind(addr).is_ok();
            }
            Ok((ok, rebound, took, rebound_later))
        });
        let (ok, rebound, took, rebound_later) = r?;
        // connected and the idle wait (1 ms) expired before the endpoint was idle
        let idle_wait_expired = expired_bound && i % 4 != 1;
        if !ok || !rebound {
            run.oracle_fail(json!({"kind": "after shutdown the socket address cannot be re-bound at once", "idle_wait_expired": idle_wait_expired, "case": i, "shutdown_ok": ok, "rebound": rebound, "took_ms": took as u64}));
        }
        if !rebound_later {
            run.oracle_fail(json!({"kind": "the socket address is still in use 1.5 s after shutdown completed (the socket was never released)", "case": i, "shutdown_idle_timeout_ms": if expired_bound { 1 } else { 300 }}));
        }
        run.count("rebind-real-socket", if rebound { "rebound" } else { "address-in-use" });
        run.eval(&format!("rebind{i}"), true);
    }
    Ok(())
}

/// (B) crash points
fn teardown_sweep(run: &mut Run) -> anyhow::Result<()> {
    let cases = crate::teardown::cases(run.quick());
    let exe = std::env::current_exe()?;
    let results = std::sync::Mutex::new(vec![]);
    let next = std::sync::atomic::AtomicUsize::new(0);
    std::thread::scope(|sc| {
        for _ in 0..8 {
            sc.spawn(|| loop {
                let i = next.fetch_add(1, Ordering::SeqCst);
                if i >= cases.len() {
                    break;
                }
                let (s, t, p, o, m) = &cases[i];
                let mut child = std::process::Command::new(&exe)
                    .args(["C08-child", "--scenario", s, "--trigger", t, "--point", p, "--occ", &o.to_string(), "--mode", m])
                    .stdout(std::process::Stdio::piped())
                    .stderr(std::process::Stdio::null())
                    .spawn()
                    .unwrap();
                let t0 = std::time::Instant::now();
                let mut timed_out = false;
                loop {
                    match child.try_wait() {
                        Ok(Some(_)) => break,
                        _ if t0.elapsed() > Duration::from_secs(45) => {
                            let _ = child.kill();
                            timed_out = true;
                            break;
                        }
                        _ => std::thread::sleep(Duration::from_millis(50)),
                    }
                }
                let out = child.wait_with_output().map(|o| String::from_utf8_lossy(&o.stdout).to_string()).unwrap_or_default();
                let res = out.lines().find_map(|l| l.strip_prefix("RESULT ").and_then(|j| serde_json::from_str::<serde_json::Value>(j).ok()));
                results.lock().unwrap().push((i, timed_out, res));
            });
        }
    });
    let mut results = results.into_inner().unwrap();
    results.sort_by_key(|r| r.0);
    for (i, timed_out, res) in results {
        let (s, t, p, o, m) = &cases[i];
        let case = format!("scenario={s} trigger={t} point={p} occ={o} mode={m}");
        let mut verdict = "safe".to_string();
        match &res {
            None => {
                verdict = if timed_out { "child-hung".into() } else { "child-died".into() };
                run.oracle_fail(json!({"kind": "runtime teardown: the process hung or died", "case": case, "timed_out": timed_out}));
            }
            Some(r) => {
                let panics = r["panics"].as_array().cloned().unwrap_or_default();
                if !panics.is_empty() {
                    verdict = "panic".into();
                    run.oracle_fail(json!({"kind": "runtime teardown panicked", "case": case, "panics": panics, "replay": format!("verif-harness C08-child --scenario {s} --trigger {t} --point {p} --occ {o} --mode {m}")}));
                }
                if r["worker_stuck"] == json!(true) {
                    verdict = "stuck".into();
                    run.oracle_fail(json!({"kind": "runtime teardown: a task never returned from poll (teardown did not complete)", "case": case, "teardown_ms": r["teardown_ms"]}));
                }
                let api = r["api"].as_object().cloned().unwrap_or_default();
                if api.values().any(|v| v == "hang") || api.contains_key("stuck") || api.contains_key("panicked") {
                    verdict = "api-hang".into();
                    run.oracle_fail(json!({"kind": "after runtime teardown an API call on a live handle hung or panicked", "case": case, "api": api}));
                }
                run.count("teardown-parked", if r["parked"] == json!(true) { "parked-at-point" } else { "point-not-reached(raced)" });
            }
        }
        run.count("teardown-verdict", &verdict);
        let parked = res.as_ref().map(|r| r["parked"] == json!(true)).unwrap_or(false);
        let manager_point = p.starts_with("cm.") || (t == "peer-dials" && p.starts_with("ap."));
        if parked || !manager_point {
            run.op(format!("life.teardown scenario={s} trigger={t} point={p}"), verdict, true);
        } else {
            // the point was not reached (raced): nothing for the model to say about this instant
            run.eval(&case, true);
        }
    }
    Ok(())
}

pub fn run_c08(run: &mut Run) -> anyhow::Result<()> {
    crate::streams::install_panic_counter();
    let mut rng = Rng::new(run.seed);
    let q = run.quick();
    for i in 0..(if q { 60 } else { 2500 }) {
        run.mark(&format!("shutdown scenario {i} seed {}", run.seed));
        scenario(run, &mut rng, i)?;
    }
    let p = crate::streams::PANICS.load(Ordering::SeqCst);
    if p > 0 {
        run.oracle_fail(json!({"kind": "panic during shutdown scenarios", "count": p}));
    }
    rebind_real(run, if q { 8 } else { 40 })?;
    teardown_sweep(run)?;
    Ok(())
}
