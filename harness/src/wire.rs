//! C07 (and the byte-level parts of C06/C15): the real codecs, through the `anemo::verif::wire`
//! hooks, on in-memory streams.
use crate::out::{args, hexs, size_bucket, unhex, Run};
use crate::rng::Rng;
use anemo::types::response::StatusCode;
use anemo::verif::wire as hook;
use anemo::{Config, Request, Response};
use bytes::Bytes;
use serde_json::json;
use std::collections::BTreeMap;
use std::panic::{catch_unwind, AssertUnwindSafe};
use std::path::Path;
use tokio_util::codec::{FramedRead, FramedWrite};

pub fn rt() -> tokio::runtime::Runtime {
    tokio::runtime::Builder::new_current_thread().enable_all().build().unwrap()
}

pub fn config_with_max(max: Option<usize>) -> Config {
    let mut c = Config::default();
    c.max_frame_size = max;
    c
}

/// Map an error of the wire functions to the closed enum shared with the model.
pub fn classify(e: &anyhow::Error) -> String {
    if let Some(io) = e.downcast_ref::<std::io::Error>() {
        let msg = io.to_string();
        if io.kind() == std::io::ErrorKind::UnexpectedEof {
            return "early-eof".into();
        }
        if msg.contains("frame size too big") {
            return "frame-too-big".into();
        }
        if msg.contains("bytes remaining on stream") {
            return "bytes-remaining".into();
        }
        return format!("io:{msg}").replace(' ', "_");
    }
    if e.downcast_ref::<bincode::Error>().is_some() {
        return "bad-header".into();
    }
    let msg = e.to_string();
    if msg == "Invalid Protocol Header" {
        return "bad-preamble".into();
    }
    if let Some(v) = msg.strip_prefix("invalid version ") {
        return format!("bad-version:{v}");
    }
    if msg == "unexpected EOF" {
        return "unexpected-eof".into();
    }
    if let Some(v) = msg.strip_prefix("invalid StatusCode ") {
        return format!("bad-status:{v}");
    }
    format!("other:{msg}").replace(' ', "_")
}

fn fmt_max(max: Option<usize>) -> String {
    max.map(|m| m.to_string()).unwrap_or_else(|| "none".into())
}

fn fmt_headers_in_order<'a>(it: impl Iterator<Item = (&'a String, &'a String)>) -> String {
    let v: Vec<String> = it.map(|(k, v)| format!("{}:{}", hexs(k.as_bytes()), hexs(v.as_bytes()))).collect();
    if v.is_empty() {
        "-".into()
    } else {
        v.join(",")
    }
}

fn fmt_headers_sorted(h: &anemo::types::HeaderMap) -> String {
    let m: BTreeMap<&[u8], &[u8]> = h.iter().map(|(k, v)| (k.as_bytes(), v.as_bytes())).collect();
    if m.is_empty() {
        return "-".into();
    }
    m.iter().map(|(k, v)| format!("{}:{}", hexs(k), hexs(v))).collect::<Vec<_>>().join(",")
}

#[derive(Clone, Debug)]
pub struct Msg {
    pub route: String,
    pub status: StatusCode,
    pub headers: Vec<(String, String)>,
    pub body: Vec<u8>,
}

/// Encode a request with the real encoder.  Returns (op line, implementation answer, bytes written).
pub fn enc_req(max: Option<usize>, m: &Msg) -> (String, String, Vec<u8>) {
    let mut req = Request::new(Bytes::from(m.body.clone())).with_route(m.route.clone()).with_extension(0xC0FFEEu32);
    for (k, v) in &m.headers {
        req.headers_mut().insert(k.clone(), v.clone());
    }
    // the very map the encoder will iterate (moved, not rebuilt): record its iteration order
    let op = format!(
        "wire.enc-req max={} route={} headers={} body={}",
        fmt_max(max),
        hexs(m.route.as_bytes()),
        fmt_headers_in_order(req.headers().iter()),
        hexs(&m.body)
    );
    let cfg = config_with_max(max);
    let mut w = FramedWrite::new(Vec::<u8>::new(), hook::codec(&cfg));
    let res = futures::executor::block_on(hook::write_request(&mut w, req));
    let written = w.get_ref().clone();
    let out = match res {
        Ok(()) => format!("ok {}", hexs(&written)),
        Err(e) => format!("err {} written={}", classify(&e), hexs(&written)),
    };
    (op, out, written)
}

pub fn enc_resp(max: Option<usize>, m: &Msg) -> (String, String, Vec<u8>) {
    let mut resp = Response::new(Bytes::from(m.body.clone())).with_status(m.status).with_extension(0xC0FFEEu32);
    for (k, v) in &m.headers {
        resp.headers_mut().insert(k.clone(), v.clone());
    }
    let op = format!(
        "wire.enc-resp max={} status={} headers={} body={}",
        fmt_max(max),
        m.status.to_u16(),
        fmt_headers_in_order(resp.headers().iter()),
        hexs(&m.body)
    );
    let cfg = config_with_max(max);
    let mut w = FramedWrite::new(Vec::<u8>::new(), hook::codec(&cfg));
    let res = futures::executor::block_on(hook::write_response(&mut w, resp));
    let written = w.get_ref().clone();
    let out = match res {
        Ok(()) => format!("ok {}", hexs(&written)),
        Err(e) => format!("err {} written={}", classify(&e), hexs(&written)),
    };
    (op, out, written)
}

pub enum Dec {
    Req(Request<Bytes>),
    Resp(Response<Bytes>),
    Err(String),
    Panic(String),
}

fn panic_msg(p: Box<dyn std::any::Any + Send>) -> String {
    p.downcast_ref::<String>().cloned().or_else(|| p.downcast_ref::<&str>().map(|s| s.to_string())).unwrap_or_else(|| "?".into())
}

pub fn dec_req(max: Option<usize>, bytes: &[u8]) -> (String, String, Dec) {
    let op = format!("wire.dec-req max={} bytes={}", fmt_max(max), hexs(bytes));
    let cfg = config_with_max(max);
    let r = catch_unwind(AssertUnwindSafe(|| {
        let mut rd = FramedRead::new(bytes, hook::codec(&cfg));
        let res = futures::executor::block_on(hook::read_request(&mut rd));
        let rest = rd.read_buffer().len() + rd.get_ref().len();
        (res, rest)
    }));
    match r {
        Err(p) => {
            let m = panic_msg(p);
            (op, format!("panic:{}", m.replace(' ', "_")), Dec::Panic(m))
        }
        Ok((Ok(req), rest)) => {
            let out = format!(
                "ok route={} headers={} body={} version={:?} rest={}",
                hexs(req.route().as_bytes()),
                fmt_headers_sorted(req.headers()),
                hexs(req.body()),
                req.version(),
                rest
            );
            (op, out, Dec::Req(req))
        }
        Ok((Err(e), _)) => {
            let c = classify(&e);
            (op, format!("err {c}"), Dec::Err(c))
        }
    }
}

pub fn dec_resp(max: Option<usize>, bytes: &[u8]) -> (String, String, Dec) {
    let op = format!("wire.dec-resp max={} bytes={}", fmt_max(max), hexs(bytes));
    let cfg = config_with_max(max);
    let r = catch_unwind(AssertUnwindSafe(|| {
        let mut rd = FramedRead::new(bytes, hook::codec(&cfg));
        let res = futures::executor::block_on(hook::read_response(&mut rd));
        let rest = rd.read_buffer().len() + rd.get_ref().len();
        (res, rest)
    }));
    match r {
        Err(p) => {
            let m = panic_msg(p);
            (op, format!("panic:{}", m.replace(' ', "_")), Dec::Panic(m))
        }
        Ok((Ok(resp), rest)) => {
            let out = format!(
                "ok status={} headers={} body={} version={:?} rest={}",
                resp.status().to_u16(),
                fmt_headers_sorted(resp.headers()),
                hexs(resp.body()),
                resp.version(),
                rest
            );
            (op, out, Dec::Resp(resp))
        }
        Ok((Err(e), _)) => {
            let c = classify(&e);
            (op, format!("err {c}"), Dec::Err(c))
        }
    }
}

pub fn dec_ver(bytes: &[u8]) -> (String, String) {
    let op = format!("wire.dec-ver bytes={}", hexs(bytes));
    let r = catch_unwind(AssertUnwindSafe(|| {
        let mut s: &[u8] = bytes;
        let res = futures::executor::block_on(hook::read_version_frame(&mut s));
        (res, s.len())
    }));
    match r {
        Err(p) => (op, format!("panic:{}", panic_msg(p).replace(' ', "_"))),
        Ok((Ok(v), rest)) => (op, format!("ok {v:?} rest={rest}")),
        Ok((Err(e), _)) => (op, format!("err {}", classify(&e))),
    }
}

pub fn enc_ver() -> (String, String) {
    let mut v = Vec::new();
    futures::executor::block_on(hook::write_version_frame(&mut v, anemo::types::Version::V1)).unwrap();
    ("wire.enc-ver version=1".into(), format!("ok {}", hexs(&v)))
}

/// Execute one op line against the implementation (used for corpus and replay files).
/// Returns the (possibly re-ordered) op line and the implementation's answer.
pub fn exec_op(line: &str) -> Option<(String, String)> {
    let (cmd, a) = args(line);
    let max = || match a.get("max").map(|s| s.as_str()) {
        Some("none") | None => None,
        Some(s) => s.parse::<usize>().ok(),
    };
    let headers = || -> Option<Vec<(String, String)>> {
        let s = a.get("headers")?;
        if s == "-" {
            return Some(vec![]);
        }
        s.split(',')
            .map(|kv| {
                let (k, v) = kv.split_once(':')?;
                Some((String::from_utf8(unhex(k)?).ok()?, String::from_utf8(unhex(v)?).ok()?))
            })
            .collect()
    };
    match cmd.as_str() {
        "wire.enc-req" => {
            let m = Msg {
                route: String::from_utf8(unhex(a.get("route")?)?).ok()?,
                status: StatusCode::Success,
                headers: headers()?,
                body: unhex(a.get("body")?)?,
            };
            let (op, out, _) = enc_req(max(), &m);
            Some((op, out))
        }
        "wire.enc-resp" => {
            let m = Msg {
                route: String::new(),
                status: StatusCode::new(a.get("status")?.parse().ok()?).ok()?,
                headers: headers()?,
                body: unhex(a.get("body")?)?,
            };
            let (op, out, _) = enc_resp(max(), &m);
            Some((op, out))
        }
        "wire.dec-req" => {
            let (op, out, _) = dec_req(max(), &unhex(a.get("bytes")?)?);
            Some((op, out))
        }
        "wire.dec-resp" => {
            let (op, out, _) = dec_resp(max(), &unhex(a.get("bytes")?)?);
            Some((op, out))
        }
        "wire.dec-ver" => Some(dec_ver(&unhex(a.get("bytes")?)?)),
        "wire.enc-ver" => Some(enc_ver()),
        _ => None,
    }
}

// ------------------------------------------------------------------ generators

pub fn gen_string(rng: &mut Rng, max_len: usize) -> String {
    let kind = rng.below(10);
    let n = match rng.below(8) {
        0 => 0,
        1 => 1,
        2..=5 => rng.below(12) as usize,
        6 => rng.below(64) as usize,
        _ => rng.below(max_len as u64 + 1) as usize,
    };
    let mut s = String::new();
    for _ in 0..n {
        let c = match kind {
            0..=5 => (b'a' + rng.below(26) as u8) as char,
            6 => *rng.pick(&['/', '-', '_', '.', ':', '*', ' ', '=', ',', '0', '9', 'Z']),
            7 => char::from_u32(rng.range(0x80, 0x7ff) as u32).unwrap_or('é'),
            8 => char::from_u32(rng.range(0x800, 0xd7ff) as u32).unwrap_or('€'),
            _ => char::from_u32(rng.range(0x10000, 0x10ffff) as u32).unwrap_or('𝄞'),
        };
        s.push(c);
    }
    s
}

pub fn gen_route(rng: &mut Rng) -> String {
    match rng.below(8) {
        0 => String::new(),
        1 => "/".into(),
        2 => format!("/{}", gen_string(rng, 20)),
        3 => format!("/{}/{}", gen_string(rng, 10), gen_string(rng, 10)),
        4 => "/".repeat(rng.below(300) as usize),
        _ => gen_string(rng, 300),
    }
}

pub fn gen_body(rng: &mut Rng, cap: usize) -> Vec<u8> {
    let n = match rng.below(10) {
        0 => 0,
        1 => 1,
        2..=5 => rng.below(64) as usize,
        6 | 7 => rng.below(2048) as usize,
        8 => rng.below(cap as u64 / 8 + 1) as usize,
        _ => rng.below(cap as u64 + 1) as usize,
    };
    match rng.below(3) {
        0 => vec![rng.below(256) as u8; n],
        _ => rng.bytes(n),
    }
}

pub fn gen_msg(rng: &mut Rng, body_cap: usize) -> Msg {
    let nh = match rng.below(10) {
        0..=2 => 0,
        3..=6 => rng.below(5) as usize,
        7 | 8 => rng.below(24) as usize,
        _ => rng.below(300) as usize,
    };
    let mut headers = Vec::new();
    for i in 0..nh {
        let mut k = gen_string(rng, 24);
        if rng.chance(1, 10) {
            k = (*rng.pick(&["timeout", "content-type", "status-message", "wait-nanos", ""])).to_string();
        }
        if nh > 30 {
            k.push_str(&i.to_string());
        }
        headers.push((k, gen_string(rng, 40)));
    }
    const ALL: [StatusCode; 8] = [
        StatusCode::Success,
        StatusCode::BadRequest,
        StatusCode::NotFound,
        StatusCode::RequestTimeout,
        StatusCode::TooManyRequests,
        StatusCode::InternalServerError,
        StatusCode::VersionNotSupported,
        StatusCode::Unknown,
    ];
    Msg { route: gen_route(rng), status: *rng.pick(&ALL), headers, body: gen_body(rng, body_cap) }
}

/// Malformed variants of a valid encoding.
pub fn mutate(rng: &mut Rng, valid: &[u8]) -> Vec<u8> {
    let mut v = valid.to_vec();
    match rng.below(9) {
        0 if !v.is_empty() => {
            let n = rng.below(v.len() as u64) as usize;
            v.truncate(n);
        }
        1 if !v.is_empty() => {
            let i = rng.below(v.len() as u64) as usize;
            v[i] ^= 1 << rng.below(8);
        }
        2 if !v.is_empty() => {
            // mutations concentrated in the structured prefix (preamble, lengths, header)
            let i = rng.below(v.len().min(48) as u64) as usize;
            v[i] = rng.below(256) as u8;
        }
        3 => {
            let i = rng.below(v.len() as u64 + 1) as usize;
            let ins = rng.rbytes(9);
            v.splice(i..i, ins);
        }
        4 if v.len() >= 12 => {
            // huge frame length prefix
            let big = *rng.pick(&[0xffff_ffffu32, 0x8000_0000, 0x0080_0001, 0x0080_0000, 0x7fff_ffff]);
            v[8..12].copy_from_slice(&big.to_be_bytes());
        }
        5 if v.len() >= 20 => {
            // huge bincode length (route length / status+map length)
            let big = *rng.pick(&[u64::MAX, 1 << 63, 1 << 32, 0xffff_ffff, 1 << 20]);
            v[12..20].copy_from_slice(&big.to_le_bytes());
        }
        6 if v.len() > 1 => {
            let i = rng.below(v.len() as u64 - 1) as usize;
            v.remove(i);
        }
        7 => {
            let extra = rng.rbytes(16);
            v.extend(extra);
        }
        _ => {
            if v.len() >= 7 {
                v[5] = rng.below(3) as u8;
                v[6] = rng.below(4) as u8;
            }
        }
    }
    v
}

fn msg_headers_as_map(m: &Msg) -> BTreeMap<String, String> {
    m.headers.iter().cloned().collect() // later entries win, as with HashMap::insert
}

fn class_of(out: &str) -> String {
    let w = out.split_whitespace().take(2).collect::<Vec<_>>();
    if w.first() == Some(&"ok") {
        "ok".into()
    } else {
        w.get(1).unwrap_or(&"?").split(':').next().unwrap_or("?").to_string()
    }
}

pub fn run_c07(run: &mut Run, replay: Option<&Path>, corpus: &Path) -> anyhow::Result<()> {
    std::panic::set_hook(Box::new(|_| {}));
    // ---- corpus / replay first: "op \t expected" lines; expected (if present) pins the implementation
    let mut files: Vec<std::path::PathBuf> = vec![];
    if let Some(r) = replay {
        files.push(r.to_path_buf());
    } else if let Ok(rd) = std::fs::read_dir(corpus) {
        let mut fs: Vec<_> = rd.filter_map(|e| e.ok().map(|e| e.path())).filter(|p| p.extension().map(|e| e == "txt").unwrap_or(false)).collect();
        fs.sort();
        files = fs;
    }
    for f in &files {
        for line in std::fs::read_to_string(f)?.lines() {
            let line = line.trim();
            if line.is_empty() || line.starts_with('#') {
                continue;
            }
            let (opl, expected) = match line.split_once('\t') {
                Some((a, b)) => (a, Some(b.trim())),
                None => (line, None),
            };
            match exec_op(opl) {
                Some((op, out)) => {
                    if let Some(exp) = expected {
                        if exp != out {
                            run.oracle_fail(json!({"kind": "golden-vector-mismatch", "file": f.display().to_string(), "op": op, "expected": exp, "impl": out}));
                        }
                    }
                    run.count("source", "corpus");
                    run.count("result", &class_of(&out));
                    run.op(op, out, true);
                }
                None => run.notes.push(format!("corpus line not understood: {opl}")),
            }
        }
    }
    if replay.is_some() {
        return Ok(());
    }

    let mut rng = Rng::new(run.seed);
    let (n_msgs, n_mal, body_cap) = if run.quick() { (2500, 12000, 16 * 1024) } else { (10000, 100000, 64 * 1024) };

    // ---- structured, valid messages: encode (bytes compared with the model), decode, round-trip oracle
    for i in 0..n_msgs {
        let m = gen_msg(&mut rng, body_cap);
        let is_req = rng.chance(1, 2);
        // mostly no limit; sometimes a limit near the header/body size to hit refusal on the encoder
        let max = match rng.below(12) {
            0 => Some(rng.below(64) as usize),
            1 => Some(m.body.len()),
            2 => Some(m.body.len().saturating_sub(1)),
            3 => Some(1 << 20),
            _ => None,
        };
        let (op, out, bytes) = if is_req { enc_req(max, &m) } else { enc_resp(max, &m) };
        let enc_op = op.clone();
        run.count("kind", if is_req { "enc-req" } else { "enc-resp" });
        run.count("body_len", size_bucket(m.body.len()));
        run.count("headers", size_bucket(m.headers.len()));
        run.count("route_len", size_bucket(m.route.len()));
        let ok = out.starts_with("ok");
        run.count("enc_result", &class_of(&out));
        run.op(op, out, true);
        if !ok {
            continue;
        }
        // layout oracle on the implementation alone, whatever limit is configured (the limit may refuse a
        // message, never change how an accepted one is laid out): the 8-byte preamble, then
        // exactly two frames with 4-byte big-endian length prefixes, the second holding the raw body
        {
            let b = &bytes[..];
            let skip = 8; // requests and responses alike start with the version frame
            let be32 = |o: usize| -> Option<usize> { b.get(o..o + 4).map(|x| u32::from_be_bytes([x[0], x[1], x[2], x[3]]) as usize) };
            let good = (|| {
                if b.get(..8)? != &b"anemo\x00\x01\x00"[..] {
                    return None;
                }
                let l1 = be32(skip)?;
                let o2 = skip + 4 + l1;
                let l2 = be32(o2)?;
                if l2 != m.body.len() || b.len() != o2 + 4 + l2 || &b[o2 + 4..] != &m.body[..] {
                    return None;
                }
                Some(())
            })()
            .is_some();
            if !good {
                run.oracle_fail(json!({"kind": "layout: an accepted message is not [preamble] + two 4-byte big-endian length-prefixed frames (header, raw body)", "ops": [enc_op.clone()], "impl": hexs(&bytes[..bytes.len().min(64)])}));
            }
        }
        // decode what was encoded, with optional trailing bytes
        let mut stream = bytes.clone();
        let extra = if rng.chance(1, 4) { rng.rbytes(20) } else { vec![] };
        stream.extend_from_slice(&extra);
        let (dop, dout, dec) = if is_req { dec_req(max, &stream) } else { dec_resp(max, &stream) };
        run.count("result", &class_of(&dout));
        // property oracle on the implementation alone: lossless round trip, nothing else travels
        let want_h = msg_headers_as_map(&m);
        let mut bad = None;
        match &dec {
            Dec::Req(r) => {
                let got_h: BTreeMap<String, String> = r.headers().iter().map(|(k, v)| (k.clone(), v.clone())).collect();
                if r.route() != m.route || got_h != want_h || r.body().as_ref() != &m.body[..] {
                    bad = Some("request round trip differs");
                } else if r.extensions().get::<u32>().is_some() || r.peer_id().is_some() {
                    bad = Some("extensions travelled");
                }
            }
            Dec::Resp(r) => {
                let got_h: BTreeMap<String, String> = r.headers().iter().map(|(k, v)| (k.clone(), v.clone())).collect();
                if r.status() != m.status || got_h != want_h || r.body().as_ref() != &m.body[..] {
                    bad = Some("response round trip differs");
                } else if r.extensions().get::<u32>().is_some() || r.peer_id().is_some() {
                    bad = Some("extensions travelled");
                }
            }
            Dec::Err(e) => {
                // trailing garbage after a complete message must not matter
                let _ = e;
                bad = Some("valid encoding rejected by the decoder");
            }
            Dec::Panic(_) => bad = Some("decoder panicked"),
        }
        if !dout.ends_with(&format!("rest={}", extra.len())) && bad.is_none() {
            bad = Some("decoder consumed a different number of bytes than were encoded");
        }
        if let Some(b) = bad {
            run.oracle_fail(json!({"kind": b, "ops": [enc_op, dop.clone()], "impl": dout.clone()}));
        }
        run.op(dop, dout, true);

        // every strict prefix must be rejected (all offsets for small messages, sampled otherwise)
        if i % 5 == 0 {
            let offs: Vec<usize> = if bytes.len() <= 80 { (0..bytes.len()).collect() } else { (0..24).map(|_| rng.below(bytes.len() as u64) as usize).collect() };
            for o in offs {
                let (pop, pout, pdec) = if is_req { dec_req(max, &bytes[..o]) } else { dec_resp(max, &bytes[..o]) };
                run.count("result", &class_of(&pout));
                run.count("source", "prefix");
                if !matches!(pdec, Dec::Err(_)) {
                    run.oracle_fail(json!({"kind": "strict prefix of a valid message not rejected", "op": pop.clone(), "impl": pout.clone()}));
                }
                run.op(pop, pout, o >= 8);
            }
        }
    }

    // ---- malformed stream
    for _ in 0..n_mal {
        let kind = rng.below(10);
        let bytes = match kind {
            0 => rng.rbytes(64),
            1 => {
                // valid preamble + random tail
                let mut v = b"anemo\x00\x01\x00".to_vec();
                v.extend(rng.rbytes(48));
                v
            }
            _ => {
                let m = gen_msg(&mut rng, 512);
                let (_, _, b) = if rng.chance(1, 2) { enc_req(None, &m) } else { enc_resp(None, &m) };
                let mut b = mutate(&mut rng, &b);
                if rng.chance(1, 5) {
                    b = mutate(&mut rng, &b);
                }
                b
            }
        };
        let max = if rng.chance(1, 6) { Some(rng.below(600) as usize) } else { None };
        run.mark(&format!("wire.dec-req|dec-resp max={} bytes={}", fmt_max(max), hexs(&bytes)));
        let (op, out, dec) = match rng.below(5) {
            0 => {
                let (o, p) = dec_ver(&bytes);
                (o, p, None)
            }
            1 | 2 => {
                let (o, p, d) = dec_req(max, &bytes);
                (o, p, Some(d))
            }
            _ => {
                let (o, p, d) = dec_resp(max, &bytes);
                (o, p, Some(d))
            }
        };
        run.count("source", "malformed");
        run.count("result", &class_of(&out));
        if out.starts_with("panic") || matches!(dec, Some(Dec::Panic(_))) {
            run.oracle_fail(json!({"kind": "decoder panicked", "op": op.clone(), "impl": out.clone()}));
        }
        let nontrivial = !out.contains("early-eof") && !out.contains("bad-preamble");
        run.op(op, out, nontrivial);
    }
    let (op, out) = enc_ver();
    run.op(op, out, true);
    Ok(())
}
