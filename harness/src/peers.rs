//! C04 / C05: direct drive of the real active-peer set with real connections, atomicity probes at
//! the lock pause points, multi-thread stress, the tie-break hook, two-node schedules and whole
//! networks dialling each other on the fabric.
use crate::fabric::{paused_rt, Fabric, Faults};
use crate::net::*;
use crate::out::Run;
use crate::raw::*;
use crate::rng::Rng;
use anemo::types::{DisconnectReason, PeerEvent};
use anemo::verif::{tie_break, VerifActivePeers, VerifConn};
use anemo::{ConnectionOrigin, PeerId, Request};
use bytes::Bytes;
use serde_json::json;
use std::collections::{BTreeMap, BTreeSet};
use std::sync::atomic::{AtomicBool, AtomicUsize, Ordering};
use std::sync::{Arc, Mutex};
use std::time::Duration;
use tokio::sync::broadcast::error::TryRecvError;

pub fn reason_name(r: &DisconnectReason) -> &'static str {
    match r {
        DisconnectReason::Requested => "requested",
        DisconnectReason::VersionMismatch => "version-mismatch",
        DisconnectReason::TransportError => "transport-error",
        DisconnectReason::ConnectionClosed => "connection-closed",
        DisconnectReason::ApplicationClosed => "application-closed",
        DisconnectReason::Reset => "reset",
        DisconnectReason::TimedOut => "timed-out",
        DisconnectReason::LocallyClosed => "locally-closed",
    }
}

const REASONS: [DisconnectReason; 8] = [
    DisconnectReason::Requested,
    DisconnectReason::VersionMismatch,
    DisconnectReason::TransportError,
    DisconnectReason::ConnectionClosed,
    DisconnectReason::ApplicationClosed,
    DisconnectReason::Reset,
    DisconnectReason::TimedOut,
    DisconnectReason::LocallyClosed,
];

pub fn ev_str(e: &PeerEvent) -> String {
    match e {
        PeerEvent::NewPeer(p) => format!("new:{}", pid_hex(p)),
        PeerEvent::LostPeer(p, r) => format!("lost:{}:{}", pid_hex(p), reason_name(r)),
    }
}

pub fn drain(rx: &mut tokio::sync::broadcast::Receiver<PeerEvent>) -> (Vec<PeerEvent>, bool) {
    let mut v = vec![];
    let mut lagged = false;
    loop {
        match rx.try_recv() {
            Ok(e) => v.push(e),
            Err(TryRecvError::Lagged(_)) => lagged = true,
            Err(_) => break,
        }
    }
    (v, lagged)
}

pub fn fmt_list(v: &[String]) -> String {
    if v.is_empty() {
        "-".into()
    } else {
        v.join(",")
    }
}

pub fn fmt_peers(mut v: Vec<PeerId>) -> String {
    v.sort();
    fmt_list(&v.iter().map(pid_hex).collect::<Vec<_>>())
}

/// strict replay (independent Rust mirror of the oracle: snapshot + events = listing, alternation)
pub fn replay_strict(snapshot: &[PeerId], events: &[PeerEvent]) -> Option<BTreeSet<PeerId>> {
    let mut s: BTreeSet<PeerId> = snapshot.iter().copied().collect();
    if s.len() != snapshot.len() {
        return None;
    }
    for e in events {
        match e {
            PeerEvent::NewPeer(p) => {
                if !s.insert(*p) {
                    return None;
                }
            }
            PeerEvent::LostPeer(p, _) => {
                if !s.remove(p) {
                    return None;
                }
            }
        }
    }
    Some(s)
}

struct Minted {
    conn: VerifConn,
    _other: quinn::Connection,
    peer: usize,
    was_closed: bool,
    added: bool,
}

/// One direct-drive sequence. Returns op lines (for the failure replay).
async fn drive_sequence(run: &mut Run, rng: &mut Rng, own: &RawNode, remotes: &[RawNode], len: usize) -> anyhow::Result<()> {
    let ap = VerifActivePeers::new(1024);
    let (mut rx, snap0) = ap.subscribe();
    assert!(snap0.is_empty());
    let own_id = own.id.peer_id;
    let mut ops: Vec<String> = vec![];
    let mut minted: Vec<Minted> = vec![];
    let mut subs: Vec<(tokio::sync::broadcast::Receiver<PeerEvent>, Vec<PeerId>, usize)> = vec![];
    let op0 = format!("peers.reset own={}", pid_hex(&own_id));
    ops.push(op0.clone());
    run.op(op0, "ok".into(), false);
    let npeers = 1 + rng.below(remotes.len() as u64) as usize;
    let mut ctx = 0u64;
    for step in 0..len {
        let kind = rng.below(10);
        let mut stale_violation = false;
        let (op, head): (String, String) = if kind < 5 && minted.len() < 12 {
            // add a brand-new real connection
            let pi = rng.below(npeers as u64) as usize;
            let inbound = rng.chance(1, 2);
            let (mine, theirs) = if inbound {
                let (d, l) = connect_pair(&remotes[pi], own).await?;
                (l, d)
            } else {
                connect_pair(own, &remotes[pi]).await?
            };
            let origin = if inbound { ConnectionOrigin::Inbound } else { ConnectionOrigin::Outbound };
            let vc = VerifConn::new(mine, origin)?;
            let n = minted.len() + 1;
            let kept = ap.add(&own_id, &vc).is_some();
            minted.push(Minted { conn: vc, _other: theirs, peer: pi, was_closed: false, added: true });
            run.count("op", if kept { "add-kept" } else { "add-dropped" });
            (format!("peers.add conn={n} peer={} origin={}", pid_hex(&remotes[pi].id.peer_id), if inbound { "in" } else { "out" }), if kept { "kept ".into() } else { "dropped ".into() })
        } else if kind < 7 {
            let pi = rng.below(npeers as u64) as usize;
            let r = rng.pick(&REASONS).clone();
            ap.remove(&remotes[pi].id.peer_id, r.clone());
            run.count("op", "remove");
            (format!("peers.remove peer={} reason={}", pid_hex(&remotes[pi].id.peer_id), reason_name(&r)), String::new())
        } else if kind < 9 && !minted.is_empty() {
            // exit of some connection's handler: current, stale (replaced) or of another peer
            let mi = rng.below(minted.len() as u64) as usize;
            let pi = if rng.chance(1, 6) { rng.below(npeers as u64) as usize } else { minted[mi].peer };
            let r = rng.pick(&REASONS).clone();
            let before = ap.get(&remotes[pi].id.peer_id).map(|c| c.stable_id());
            ap.remove_with_stable_id(remotes[pi].id.peer_id, minted[mi].conn.stable_id(), r.clone());
            let cur = ap.get(&remotes[pi].id.peer_id).map(|c| c.stable_id());
            // oracle: the end of an older / foreign connection never disturbs the listed one
            if before.is_some() && before != Some(minted[mi].conn.stable_id()) {
                let undisturbed = cur == before && ap.get(&remotes[pi].id.peer_id).map(|c| c.close_reason().is_none()).unwrap_or(false);
                if !undisturbed {
                    stale_violation = true;
                }
            }
            run.count("op", if cur.is_none() { "remove-stable" } else { "remove-stable-stale" });
            (format!("peers.remove-stable peer={} conn={} reason={}", pid_hex(&remotes[pi].id.peer_id), mi + 1, reason_name(&r)), String::new())
        } else {
            run.count("op", "list");
            ("peers.list".into(), String::new())
        };
        // observations
        let (evs, lagged) = drain(&mut rx);
        let mut newly_closed = vec![];
        for (i, m) in minted.iter_mut().enumerate() {
            if !m.was_closed && m.conn.close_reason().is_some() {
                m.was_closed = true;
                newly_closed.push((i + 1).to_string());
            }
        }
        let peers = ap.peers();
        let out = if op == "peers.list" {
            format!("peers={}", fmt_peers(peers.clone()))
        } else {
            format!("{head}events={} closed={} peers={}", fmt_list(&evs.iter().map(ev_str).collect::<Vec<_>>()), fmt_list(&newly_closed), fmt_peers(peers.clone()))
        };
        ops.push(op.clone());
        // ---- property oracle on the implementation alone
        let mut bad: Option<String> = None;
        let set: BTreeSet<PeerId> = peers.iter().copied().collect();
        if set.len() != peers.len() {
            bad = Some("listing contains a duplicate".into());
        }
        for p in &peers {
            match ap.get(p) {
                Some(c) if c.close_reason().is_some() => bad = Some("a listed peer's connection is closed".into()),
                None => bad = Some("listed peer has no connection".into()),
                _ => {}
            }
        }
        for m in minted.iter() {
            if m.added && !m.was_closed {
                let listed = ap.get(&remotes[m.peer].id.peer_id).map(|c| c.stable_id() == m.conn.stable_id()).unwrap_or(false);
                if !listed {
                    bad = Some("a connection that is neither listed nor closed (leak)".into());
                }
            }
        }
        if lagged {
            bad = Some("subscriber lagged unexpectedly".into());
        }
        if stale_violation || (op.starts_with("peers.remove-stable") && false) {
            bad = Some("the end of an older (replaced) connection removed or closed its replacement".into());
        }
        if let Some(b) = bad {
            run.oracle_fail(json!({"kind": b, "ops": ops.clone(), "step": step}));
        }
        run.op_in(&mut ctx, op, out);
        if rng.chance(1, 5) {
            let (r, s) = ap.subscribe();
            subs.push((r, s, step));
        }
    }
    // subscribers that joined mid-history: snapshot + later events = final listing, strictly
    let final_peers: BTreeSet<PeerId> = ap.peers().into_iter().collect();
    for (mut r, snap, at) in subs {
        let (evs, _) = drain(&mut r);
        run.eval(&format!("sub@{at}:{}", ops.len()), true);
        match replay_strict(&snap, &evs) {
            Some(s) if s == final_peers => {}
            other => run.oracle_fail(json!({"kind": "snapshot plus later events does not reproduce the listing", "ops": ops.clone(), "subscribed_after_step": at,
                "snapshot": snap.iter().map(pid_hex).collect::<Vec<_>>(), "events": evs.iter().map(ev_str).collect::<Vec<_>>(), "replay": format!("{:?}", other.map(|s| s.len()))})),
        }
    }
    Ok(())
}

thread_local! {
    static IN_SUBSCRIBE: std::cell::Cell<u32> = std::cell::Cell::new(0);
    static READ_HITS: std::cell::Cell<u32> = std::cell::Cell::new(0);
    static REENTRY: std::cell::Cell<bool> = std::cell::Cell::new(false);
}

/// Deterministic atomicity probes at the lock pause points (DESIGN §8 C04):
/// A. if one `subscribe()` reaches the read-lock point twice, run an `add` between the two
///    acquisitions;  B. while an op is inside `send_event`, another thread calls `subscribe()`:
///    on correct code it blocks until the op has released the write lock.
async fn atomicity_probes(run: &mut Run, own: &RawNode, remotes: &[RawNode]) -> anyhow::Result<()> {
    let own_id = own.id.peer_id;
    // ---------- probe A
    {
        let ap = VerifActivePeers::new(64);
        let (c, _o) = connect_pair(own, &remotes[0]).await?;
        let vc = VerifConn::new(c, ConnectionOrigin::Outbound)?;
        let ap2 = ap.clone();
        let vc2 = vc.clone();
        anemo::verif::set_point_callback(Some(Arc::new(move |pi: &anemo::verif::PointInfo| {
            if pi.name == "ap.read" && IN_SUBSCRIBE.with(|c| c.get()) > 0 && !REENTRY.with(|c| c.get()) {
                let n = READ_HITS.with(|c| {
                    c.set(c.get() + 1);
                    c.get()
                });
                if n == 2 {
                    REENTRY.with(|c| c.set(true));
                    let _ = ap2.add(&own_id, &vc2);
                    REENTRY.with(|c| c.set(false));
                }
            }
        })));
        IN_SUBSCRIBE.with(|c| c.set(1));
        READ_HITS.with(|c| c.set(0));
        let (mut rx, snap) = ap.subscribe();
        IN_SUBSCRIBE.with(|c| c.set(0));
        let hits = READ_HITS.with(|c| c.get());
        anemo::verif::set_point_callback(None);
        let (evs, _) = drain(&mut rx);
        let listing: BTreeSet<PeerId> = ap.peers().into_iter().collect();
        run.eval("probeA", true);
        run.count("probe", &format!("A:read-lock-acquisitions-in-subscribe={hits}"));
        match replay_strict(&snap, &evs) {
            Some(s) if s == listing => {}
            _ => run.oracle_fail(json!({"kind": "subscribe is not atomic: an add between its lock acquisitions breaks snapshot+events=listing",
                "history": ["subscribe() begins", "first read-lock section ends", format!("add(conn to {}) runs", pid_hex(&remotes[0].id.peer_id)), "second read-lock section"],
                "snapshot": snap.iter().map(pid_hex).collect::<Vec<_>>(), "events": evs.iter().map(ev_str).collect::<Vec<_>>(),
                "listing": listing.iter().map(pid_hex).collect::<Vec<_>>()})),
        }
    }
    // ---------- probe B (for add, replace, remove)
    for variant in ["add", "replace", "remove"] {
        let ap = VerifActivePeers::new(64);
        let (c1, _o1) = connect_pair(own, &remotes[0]).await?;
        let (c2, _o2) = connect_pair(own, &remotes[0]).await?;
        let v1 = VerifConn::new(c1, ConnectionOrigin::Outbound)?;
        let v2 = VerifConn::new(c2, ConnectionOrigin::Outbound)?;
        if variant != "add" {
            let _ = ap.add(&own_id, &v1);
        }
        let result: Arc<Mutex<Vec<(Vec<PeerId>, tokio::sync::broadcast::Receiver<PeerEvent>, bool)>>> = Arc::new(Mutex::new(vec![]));
        let fired = Arc::new(AtomicUsize::new(0));
        let (apc, res2, fired2) = (ap.clone(), result.clone(), fired.clone());
        anemo::verif::set_point_callback(Some(Arc::new(move |pi: &anemo::verif::PointInfo| {
            if pi.name == "ap.send_event" && fired2.fetch_add(1, Ordering::SeqCst) == 0 {
                let done = Arc::new(AtomicBool::new(false));
                let (apd, resd, doned) = (apc.clone(), res2.clone(), done.clone());
                std::thread::spawn(move || {
                    let (rx, snap) = apd.subscribe();
                    let early = !doned.load(Ordering::SeqCst);
                    resd.lock().unwrap().push((snap, rx, early));
                });
                // give the other thread ample time; on correct code it is blocked on the write lock
                std::thread::sleep(Duration::from_millis(40));
                done.store(true, Ordering::SeqCst);
            }
        })));
        match variant {
            "add" => {
                let _ = ap.add(&own_id, &v1);
            }
            "replace" => {
                let _ = ap.add(&own_id, &v2);
            }
            _ => ap.remove(&remotes[0].id.peer_id, DisconnectReason::Requested),
        }
        anemo::verif::set_point_callback(None);
        // wait for the helper
        for _ in 0..200 {
            if !result.lock().unwrap().is_empty() || fired.load(Ordering::SeqCst) == 0 {
                break;
            }
            std::thread::sleep(Duration::from_millis(5));
        }
        let listing: BTreeSet<PeerId> = ap.peers().into_iter().collect();
        run.eval(&format!("probeB-{variant}"), true);
        let mut g = result.lock().unwrap();
        run.count("probe", &format!("B-{variant}:send_event-point-fired={}", fired.load(Ordering::SeqCst).min(1)));
        if let Some((snap, mut rx, early)) = g.pop() {
            let (evs, _) = drain(&mut rx);
            run.count("probe", &format!("B-{variant}:subscribe-returned-while-op-inside-send_event={early}"));
            match replay_strict(&snap, &evs) {
                Some(s) if s == listing => {}
                _ => run.oracle_fail(json!({"kind": "events are not sent under the lock: a subscription taken while the op is emitting its event sees the change twice or not at all",
                    "variant": variant, "snapshot": snap.iter().map(pid_hex).collect::<Vec<_>>(), "events": evs.iter().map(ev_str).collect::<Vec<_>>(),
                    "listing": listing.iter().map(pid_hex).collect::<Vec<_>>()})),
            }
        }
    }
    Ok(())
}

/// multi-thread stress: subscribers on OS threads check snapshot+events=listing-so-far while the
/// main thread churns adds / replacements / removes with real connections
async fn stress(run: &mut Run, rng: &mut Rng, own: &RawNode, remotes: &[RawNode], nconn: usize) -> anyhow::Result<()> {
    let own_id = own.id.peer_id;
    let ap = VerifActivePeers::new(1 << 16);
    let mut pool = vec![];
    for i in 0..nconn {
        let pi = i % 2;
        let (c, o) = connect_pair(own, &remotes[pi]).await?;
        pool.push((VerifConn::new(c, ConnectionOrigin::Outbound)?, o, pi));
    }
    let stop = Arc::new(AtomicBool::new(false));
    let failures: Arc<Mutex<Vec<serde_json::Value>>> = Arc::new(Mutex::new(vec![]));
    let checks = Arc::new(AtomicUsize::new(0));
    // points yield to widen race windows
    anemo::verif::set_point_callback(Some(Arc::new(|pi: &anemo::verif::PointInfo| {
        if pi.name.starts_with("ap.") {
            std::thread::yield_now();
        }
    })));
    let mut handles = vec![];
    for _ in 0..6 {
        let (ap, stop, failures, checks) = (ap.clone(), stop.clone(), failures.clone(), checks.clone());
        handles.push(std::thread::spawn(move || {
            while !stop.load(Ordering::SeqCst) {
                let (mut rx, snap) = ap.subscribe();
                std::thread::yield_now();
                // take a second subscription: everything `rx` has received up to this instant,
                // replayed over `snap`, must equal the second snapshot
                let (_rx2, snap2) = ap.subscribe();
                // events sent after snap2 may already be in rx; replay only reproduces snap2 if we
                // stop at the right point, so instead check the weaker but sound prefix property:
                // some prefix of the events replays snap into snap2, and the whole list replays strictly
                let (evs, lagged) = drain(&mut rx);
                if lagged {
                    continue;
                }
                checks.fetch_add(1, Ordering::Relaxed);
                let want: BTreeSet<PeerId> = snap2.iter().copied().collect();
                let mut ok_prefix = false;
                for k in 0..=evs.len() {
                    if replay_strict(&snap, &evs[..k]).map(|s| s == want).unwrap_or(false) {
                        ok_prefix = true;
                        break;
                    }
                }
                if replay_strict(&snap, &evs).is_none() || !ok_prefix {
                    failures.lock().unwrap().push(json!({"kind": "concurrent subscriber: snapshot plus events is not a change log",
                        "snapshot": snap.iter().map(pid_hex).collect::<Vec<_>>(), "events": evs.iter().map(ev_str).collect::<Vec<_>>(),
                        "later_snapshot": snap2.iter().map(pid_hex).collect::<Vec<_>>()}));
                    break;
                }
            }
        }));
    }
    for (vc, _o, pi) in pool.iter() {
        let _ = ap.add(&own_id, vc);
        if rng.chance(1, 3) {
            ap.remove(&remotes[*pi].id.peer_id, DisconnectReason::Requested);
        }
        if rng.chance(1, 4) {
            std::thread::sleep(Duration::from_micros(200));
        }
    }
    stop.store(true, Ordering::SeqCst);
    for h in handles {
        let _ = h.join();
    }
    anemo::verif::set_point_callback(None);
    let n = checks.load(Ordering::Relaxed);
    run.extra.insert("stress_subscriber_checks".into(), json!(n));
    run.evaluations += n as u64;
    for f in failures.lock().unwrap().drain(..) {
        run.oracle_fail(f);
    }
    Ok(())
}


/// C04 "the listing contains no peer whose connection it has seen closed", with user code that does
/// not yield: while a handler of the peer blocks a worker thread, the peer's connection ends; the loss
/// must be listed and announced at once (within 1.8 s here; the handler blocks for 3 s), not when the handler gets round to finishing.
/// (real time, multi-thread runtime)
fn blocked_handler_exit(run: &mut Run, cases: usize) -> anyhow::Result<()> {
    blocked_handler(run, cases, "listing")
}

/// `what`: "listing" (C04/C09: the loss is listed and announced at once), "limit" (C10: the departed peer
/// no longer counts against `max_concurrent_connections`), "redial" (C13: a High-affinity known peer
/// whose connection was lost is dialled again at the next connectivity check)
pub fn blocked_handler(run: &mut Run, cases: usize, what: &'static str) -> anyhow::Result<()> {
    for case in 0..cases {
        run.mark(&format!("scenario blocked_handler/{what} case {case}"));
        let seed = run.seed ^ 0xB10C ^ (case as u64);
        let rt = tokio::runtime::Builder::new_multi_thread().worker_threads(4).enable_all().build()?;
        let res: anyhow::Result<(Option<u128>, bool, Option<bool>)> = rt.block_on(async move {
            let fabric = Fabric::new(seed);
            let mut cb = config_idle(30_000);
            if what == "limit" {
                cb.max_concurrent_connections = Some(1);
            }
            if what == "redial" {
                cb.connectivity_check_interval_ms = Some(300);
            }
            let a = start_node(&fabric, seed, 1, config_idle(30_000))?;
            let b = start_node(&fabric, seed, 2, cb)?;
            let c = start_node(&fabric, seed, 3, config_idle(30_000))?;
            let (mut rx, _) = b.net.subscribe()?;
            a.net.connect_with_peer_id(b.addr, b.id).await?;
            tokio::time::sleep(Duration::from_millis(100)).await;
            let (an, bid) = (a.net.clone(), b.id);
            tokio::spawn(async move {
                let mut req = anemo::Request::new(bytes::Bytes::from_static(b"x")).with_route("/b");
                req.headers_mut().insert("x-id".into(), "blocker".into());
                req.headers_mut().insert("x-block-ms".into(), "3000".into());
                let _ = an.rpc(bid, req).await;
            });
            tokio::time::sleep(Duration::from_millis(150)).await; // the handler is now blocking a worker of B
            let t0 = std::time::Instant::now();
            if case % 2 == 0 || what == "redial" {
                let _ = a.net.disconnect(b.id);
            } else {
                let _ = a.net.shutdown().await;
            }
            if what == "redial" {
                // only now does B learn that A is a High-affinity peer it should stay connected to
                b.net.known_peers().insert(anemo::types::PeerInfo { peer_id: a.id, affinity: anemo::types::PeerAffinity::High, address: vec![a.addr.into()] });
            }
            let mut lost_after = None;
            let deadline = tokio::time::Instant::now() + Duration::from_millis(2200);
            loop {
                match tokio::time::timeout_at(deadline, rx.recv()).await {
                    Ok(Ok(PeerEvent::LostPeer(p, _))) if p == a.id => {
                        lost_after = Some(t0.elapsed().as_millis());
                        break;
                    }
                    Ok(Ok(_)) => continue,
                    _ => break,
                }
            }
            let still = b.net.peers().contains(&a.id);
            let extra = match what {
                // a third peer arrives while the departed peer's handler is still busy
                "limit" => Some(matches!(tokio::time::timeout(Duration::from_millis(1500), c.net.connect_with_peer_id(b.addr, b.id)).await, Ok(Ok(_)))),
                "redial" => {
                    // within a few connectivity checks B is connected to A again
                    let deadline = tokio::time::Instant::now() + Duration::from_millis(2000);
                    let mut again = false;
                    loop {
                        match tokio::time::timeout_at(deadline, rx.recv()).await {
                            Ok(Ok(PeerEvent::NewPeer(p))) if p == a.id => {
                                again = true;
                                break;
                            }
                            Ok(Ok(_)) => continue,
                            _ => break,
                        }
                    }
                    Some(again)
                }
                _ => None,
            };
            Ok((lost_after, still, extra))
        });
        let (lost_after, still, extra) = res?;
        rt.shutdown_timeout(Duration::from_secs(4));
        let ok = matches!(lost_after, Some(ms) if ms <= 1800) && !still && extra != Some(false);
        if !ok {
            let kind = match (what, extra) {
                ("limit", Some(false)) => "a peer that has left still counts against the connection limit while one of its handlers is running (a new peer was refused)",
                ("redial", Some(false)) => "a lost High-affinity peer was not dialled again while one of its old handlers was still running",
                _ => "a peer whose connection ended stayed listed / unannounced while one of its handlers was still running",
            };
            run.oracle_fail(json!({"kind": kind, "case": case, "lost_peer_after_ms": lost_after.map(|x| x as u64), "still_listed_after_2200ms": still}));
        }
        run.count(&format!("blocked-handler/{what}"), if ok { "prompt" } else { "late" });
        run.eval(&format!("blocked{what}{case}"), true);
    }
    Ok(())
}

/// The handler of a connection that the remote closed is parked (pause point `rh.exit`, i.e. after it
/// observed the close and before it deregisters) while a NEW connection to the same peer is registered;
/// when it resumes it must remove nothing: the entry now belongs to the new connection.
/// (real time, multi-thread runtime, fabric)
pub fn stale_exit_race(run: &mut Run, cases: usize) -> anyhow::Result<()> {
    use std::sync::{Condvar, Mutex as StdMutex};
    struct Gate {
        st: StdMutex<(bool, bool, bool)>, // (armed, parked, released)
        cv: Condvar,
    }
    for case in 0..cases {
        run.mark(&format!("scenario stale_exit_race case {case}"));
        let seed = run.seed ^ 0x57A1E ^ (case as u64);
        let rt = tokio::runtime::Builder::new_multi_thread().worker_threads(4).enable_all().build()?;
        let gate = Arc::new(Gate { st: StdMutex::new((false, false, false)), cv: Condvar::new() });
        let res: anyhow::Result<serde_json::Value> = rt.block_on({
            let gate = gate.clone();
            async move {
                let fabric = Fabric::new(seed);
                let n1 = start_node(&fabric, seed, 1, config_idle(30_000))?;
                let n2 = start_node(&fabric, seed, 2, config_idle(30_000))?;
                // S (whose stale handler is parked) is the node with the smaller id, so that the re-dial
                // replaces the stale connection at S whichever side dialled first (tie-break)
                let (s, p) = if n1.id.0 < n2.id.0 { (n1, n2) } else { (n2, n1) };
                let mut slog = NodeLog::new(&s.net);
                // who dials first decides the origin of the stale connection at S
                if case % 2 == 0 {
                    p.net.connect_with_peer_id(s.addr, s.id).await?;
                } else {
                    s.net.connect_with_peer_id(p.addr, p.id).await?;
                }
                tokio::time::sleep(Duration::from_millis(150)).await;
                let pid = p.id;
                {
                    let gate = gate.clone();
                    anemo::verif::set_point_callback(Some(Arc::new(move |info: &anemo::verif::PointInfo<'_>| {
                        if info.name != "rh.exit" || info.peer != Some(pid) {
                            return;
                        }
                        let mut g = gate.st.lock().unwrap();
                        if !g.0 || g.1 {
                            return;
                        }
                        g.1 = true;
                        gate.cv.notify_all();
                        while !g.2 {
                            g = gate.cv.wait(g).unwrap();
                        }
                    })));
                }
                gate.st.lock().unwrap().0 = true;
                // the remote closes the connection: S's handler observes it and walks to `rh.exit`
                let _ = p.net.disconnect(s.id);
                let parked = {
                    let gate = gate.clone();
                    tokio::task::spawn_blocking(move || {
                        let g = gate.st.lock().unwrap();
                        let (g, _) = gate.cv.wait_timeout_while(g, Duration::from_millis(2000), |g| !g.1).unwrap();
                        g.1
                    })
                    .await?
                };
                // meanwhile a new connection between the two is established and registered at S
                let redial = tokio::time::timeout(Duration::from_secs(5), p.net.connect_with_peer_id(s.addr, s.id)).await;
                tokio::time::sleep(Duration::from_millis(200)).await;
                slog.pump();
                // the scenario is about a REPLACED entry: S must have announced the replacement
                let replaced = slog.events.len() >= 3 && matches!(slog.events.last(), Some(PeerEvent::NewPeer(x)) if *x == p.id);
                let listed_before_release = s.net.peers().contains(&p.id) && replaced;
                {
                    let mut g = gate.st.lock().unwrap();
                    g.2 = true;
                    g.0 = false;
                    gate.cv.notify_all();
                }
                tokio::time::sleep(Duration::from_millis(400)).await;
                anemo::verif::set_point_callback(None);
                slog.pump();
                let s_lists = s.net.peers().contains(&p.id);
                let p_lists = p.net.peers().contains(&s.id);
                let mk = |id: &str| {
                    let mut r = anemo::Request::new(bytes::Bytes::from_static(b"x")).with_route("/r");
                    r.headers_mut().insert("x-id".into(), id.into());
                    r
                };
                let r1 = tokio::time::timeout(Duration::from_secs(3), s.net.rpc(p.id, mk("s2p"))).await;
                let r2 = tokio::time::timeout(Duration::from_secs(3), p.net.rpc(s.id, mk("p2s"))).await;
                let evs: Vec<String> = slog.events.iter().map(ev_str).collect();
                Ok(json!({"parked": parked, "redial_ok": matches!(redial, Ok(Ok(_))), "listed_before_release": listed_before_release, "s_lists_p": s_lists, "p_lists_s": p_lists,
                          "rpc_s_to_p": matches!(r1, Ok(Ok(_))), "rpc_p_to_s": matches!(r2, Ok(Ok(_))), "events_at_s": evs}))
            }
        });
        anemo::verif::set_point_callback(None);
        {
            let mut g = gate.st.lock().unwrap();
            g.2 = true;
            gate.cv.notify_all();
        }
        rt.shutdown_timeout(Duration::from_secs(3));
        let o = res?;
        let evs = o["events_at_s"].as_array().cloned().unwrap_or_default();
        let tail_ok = evs.last().and_then(|e| e.as_str()).map(|e| e.starts_with("new:")).unwrap_or(false);
        let ok = o["redial_ok"] == json!(true) && o["s_lists_p"] == json!(true) && o["p_lists_s"] == json!(true) && o["rpc_s_to_p"] == json!(true) && o["rpc_p_to_s"] == json!(true) && tail_ok;
        if o["parked"] == json!(true) && o["listed_before_release"] == json!(true) && !ok {
            run.oracle_fail(json!({"kind": "the late exit of a superseded connection's handler removed / disturbed the connection that replaced it", "case": case, "observed": o.clone()}));
        }
        run.count("stale-exit-race", if o["parked"] == json!(true) { if ok { "parked-ok" } else { "parked-broken" } } else { "point-not-reached" });
        run.eval(&format!("staleexit{case}"), true);
    }
    Ok(())
}

/// Rounds of connect / close on a multi-thread runtime while other OS threads hammer the read-side API
/// (`peers()`, `peer()`): the lookups must not change what is listed or announced, and the write-side API
/// must not silently give up under contention.
/// `closer`: "remote" (the other node disconnects: the entry leaves through the handler) or "local"
/// (explicit `disconnect` on the observed node).
pub fn contention_rounds(run: &mut Run, rounds: usize, closer: &'static str) -> anyhow::Result<()> {
    run.mark(&format!("scenario contention_rounds/{closer}"));
    let seed = run.seed ^ 0xC0A7;
    let rt = tokio::runtime::Builder::new_multi_thread().worker_threads(4).enable_all().build()?;
    let stop = Arc::new(std::sync::atomic::AtomicBool::new(false));
    let stop2 = stop.clone();
    let res: anyhow::Result<Vec<serde_json::Value>> = rt.block_on(async move {
        let fabric = Fabric::new(seed);
        let a = start_node(&fabric, seed, 1, config_idle(30_000))?;
        let b = start_node(&fabric, seed, 2, config_idle(30_000))?;
        let (mut rx, _) = a.net.subscribe()?;
        let mut pollers = vec![];
        for k in 0..3 {
            let (net, other, stop) = (a.net.clone(), b.id, stop2.clone());
            pollers.push(std::thread::spawn(move || {
                let mut n = 0u64;
                while !stop.load(std::sync::atomic::Ordering::Relaxed) {
                    if k == 0 {
                        let _ = net.peers();
                    } else {
                        let _ = net.peer(other);
                    }
                    n += 1;
                    if n % 64 == 0 {
                        std::thread::yield_now();
                    }
                }
            }));
        }
        let mut problems = vec![];
        let mut events: Vec<PeerEvent> = vec![];
        for round in 0..rounds {
            if tokio::time::timeout(Duration::from_secs(5), a.net.connect_with_peer_id(b.addr, b.id)).await.map(|r| r.is_err()).unwrap_or(true) {
                problems.push(json!({"kind": "connect failed or hung on a fault-free network", "round": round}));
                break;
            }
            // let B register the connection (it does so after A consumed the acknowledgement)
            for _ in 0..200 {
                if b.net.peers().contains(&a.id) {
                    break;
                }
                tokio::time::sleep(Duration::from_millis(2)).await;
            }
            if closer == "local" {
                let r = a.net.disconnect(b.id);
                let listed = a.net.peers().contains(&b.id);
                if r.is_err() || listed {
                    problems.push(json!({"kind": "explicit disconnect did not remove the peer at once (under concurrent readers)", "round": round, "result_ok": r.is_ok(), "still_listed": listed}));
                    break;
                }
            } else {
                let _ = b.net.disconnect(a.id);
            }
            // A announces NewPeer then exactly one LostPeer for this round
            let deadline = tokio::time::Instant::now() + Duration::from_secs(3);
            let mut got_lost = false;
            while !got_lost {
                match tokio::time::timeout_at(deadline, rx.recv()).await {
                    Ok(Ok(e)) => {
                        got_lost = matches!(&e, PeerEvent::LostPeer(p, r) if *p == b.id && (closer != "local" || *r == DisconnectReason::Requested));
                        events.push(e);
                    }
                    _ => break,
                }
            }
            if !got_lost || a.net.peers().contains(&b.id) {
                problems.push(json!({"kind": if closer == "local" { "explicit disconnect was not announced with LostPeer(Requested)" } else { "a connection closed by the remote was not announced / unlisted" }, "round": round, "still_listed": a.net.peers().contains(&b.id)}));
                break;
            }
            // wait until B has let go as well, so that the next round starts from scratch
            for _ in 0..500 {
                if !b.net.peers().contains(&a.id) {
                    break;
                }
                tokio::time::sleep(Duration::from_millis(2)).await;
            }
        }
        stop2.store(true, std::sync::atomic::Ordering::Relaxed);
        for p in pollers {
            let _ = p.join();
        }
        tokio::time::sleep(Duration::from_millis(100)).await;
        let (more, _) = drain(&mut rx);
        events.extend(more);
        match replay_strict(&[], &events) {
            Some(set) if set == a.net.peers().into_iter().collect() => {}
            Some(_) => problems.push(json!({"kind": "event log does not replay to the listing (under concurrent lookups)"})),
            None => problems.push(json!({"kind": "event log does not alternate: a listing change without its event (under concurrent lookups)", "events": events.iter().rev().take(6).map(ev_str).collect::<Vec<_>>()})),
        }
        Ok(problems)
    });
    stop.store(true, std::sync::atomic::Ordering::Relaxed);
    let problems = res?;
    rt.shutdown_timeout(Duration::from_secs(3));
    run.count(&format!("contention-rounds/{closer}"), if problems.is_empty() { "clean" } else { "problem" });
    for p in problems {
        run.oracle_fail(p);
    }
    run.eval(&format!("contention{closer}"), true);
    Ok(())
}

/// Dialling a peer that is already connected (replacement) leaves the pair connected: the wind-down of
/// the replaced connection must not disturb its replacement.
fn redial_keeps_connection(run: &mut Run, cases: usize) -> anyhow::Result<()> {
    for case in 0..cases {
        run.mark(&format!("scenario redial_keeps_connection case {case}"));
        let seed = run.seed ^ 0x2ED1 ^ (case as u64);
        let rt = paused_rt();
        let res: anyhow::Result<serde_json::Value> = rt.block_on(async move {
            let fabric = Fabric::new(seed);
            let a = start_node(&fabric, seed, 1, config_idle(60_000))?;
            let b = start_node(&fabric, seed, 2, config_idle(60_000))?;
            let mut la = NodeLog::new(&a.net);
            let mut lb = NodeLog::new(&b.net);
            a.net.connect_with_peer_id(b.addr, b.id).await?;
            tokio::time::sleep(Duration::from_millis(200)).await;
            let mk = |id: &str| Request::new(Bytes::from_static(b"x")).with_header("x-id", id);
            let r0 = a.net.rpc(b.id, mk("first")).await.is_ok();
            // in half of the cases requests are in flight in both directions on the connection that the
            // second dial will replace: they may fail, the pair must stay connected
            if case % 4 >= 2 {
                for (n, to, id) in [(a.net.clone(), b.id, "slow-ab"), (b.net.clone(), a.id, "slow-ba")] {
                    tokio::spawn(async move { n.rpc(to, Request::new(Bytes::from_static(b"x")).with_header("x-id", id).with_header("x-sleep-ms", "1500")).await.is_ok() });
                }
                tokio::time::sleep(Duration::from_millis(100)).await;
            }
            // the second dial: same direction, or the reverse one
            let second = if case % 2 == 0 { a.net.connect_with_peer_id(b.addr, b.id).await.is_ok() } else { b.net.connect_with_peer_id(a.addr, a.id).await.is_ok() };
            tokio::time::sleep(Duration::from_secs(2)).await;
            la.pump();
            lb.pump();
            let r1 = tokio::time::timeout(Duration::from_secs(5), a.net.rpc(b.id, mk("ab"))).await.map(|r| r.is_ok()).unwrap_or(false);
            let r2 = tokio::time::timeout(Duration::from_secs(5), b.net.rpc(a.id, mk("ba"))).await.map(|r| r.is_ok()).unwrap_or(false);
            Ok(json!({"first_rpc": r0, "second_dial_ok": second, "a_lists_b": a.net.peers().contains(&b.id), "b_lists_a": b.net.peers().contains(&a.id), "rpc_a_to_b": r1, "rpc_b_to_a": r2,
                      "events_a": la.events.iter().map(ev_str).collect::<Vec<_>>(), "events_b": lb.events.iter().map(ev_str).collect::<Vec<_>>()}))
        });
        drop(rt);
        let o = res?;
        let tail_new = |k: &str| o[k].as_array().and_then(|v| v.last()).and_then(|e| e.as_str()).map(|e| e.starts_with("new:")).unwrap_or(false);
        let ok = ["first_rpc", "second_dial_ok", "a_lists_b", "b_lists_a", "rpc_a_to_b", "rpc_b_to_a"].iter().all(|k| o[*k] == json!(true)) && tail_new("events_a") && tail_new("events_b");
        if !ok {
            run.oracle_fail(json!({"kind": "dialling an already connected peer left the pair disconnected or disturbed (the end of a replaced connection must not affect its replacement)", "case": case, "observed": o}));
        }
        run.count("redial-keeps-connection", if ok { "ok" } else { "broken" });
        run.eval(&format!("redial{case}"), true);
    }
    Ok(())
}

/// A subscriber that reads late but stays within the CONFIGURED capacity of the event channel is entitled
/// to every event: its snapshot plus its events must reproduce the listing.
fn lazy_subscriber(run: &mut Run, cases: usize) -> anyhow::Result<()> {
    for case in 0..cases {
        run.mark(&format!("scenario lazy_subscriber case {case}"));
        let seed = run.seed ^ 0x1A2B ^ ((case as u64) << 8);
        let rt = paused_rt();
        let res: anyhow::Result<(bool, usize, (String, String))> = rt.block_on(async move {
            let fabric = Fabric::new(seed);
            let mut cfg = config_idle(60_000);
            cfg.peer_event_broadcast_channel_capacity = Some(512);
            cfg.connection_manager_channel_capacity = Some(if case % 2 == 0 { 4 } else { 16 });
            let a = start_node(&fabric, seed, 1, cfg)?;
            let b = start_node(&fabric, seed, 2, config_idle(60_000))?;
            let mut log = NodeLog::new(&a.net);
            let rounds = 40 + 10 * case;
            for i in 0..rounds {
                if i % 2 == 0 {
                    a.net.connect_with_peer_id(b.addr, b.id).await?;
                } else {
                    b.net.connect_with_peer_id(a.addr, a.id).await?;
                }
                tokio::time::sleep(Duration::from_millis(150)).await;
                let _ = if i % 3 == 0 { b.net.disconnect(a.id) } else { a.net.disconnect(b.id) };
                tokio::time::sleep(Duration::from_millis(400)).await;
            }
            let lagged = log.pump();
            let n = log.events.len();
            Ok((lagged, n, log.acceptor_line(a.net.peers())))
        });
        drop(rt);
        let (lagged, n, (op, imp)) = res?;
        run.count("lazy-subscriber", if lagged { "lagged" } else { "complete" });
        if lagged || n < 80 {
            run.oracle_fail(json!({"kind": "a subscriber within the configured event-channel capacity (512) lost events", "events_received": n, "lagged": lagged, "case": case}));
        } else {
            run.op(op, imp, true);
        }
    }
    Ok(())
}

pub fn run_c04(run: &mut Run, replay: Option<&std::path::Path>) -> anyhow::Result<()> {
    let seed = run.seed;
    let (nseq, len, nstress) = if run.quick() { (260, 22, 150) } else { (6000, 40, 1500) };
    let rt = paused_rt();
    rt.block_on(async {
        let fabric = Fabric::new(seed);
        let own = raw_node(&fabric, 1, key_of(seed, 1), "verif");
        let remotes: Vec<RawNode> = (0..4).map(|i| raw_node(&fabric, 10 + i, key_of(seed, 10 + i), "verif")).collect();
        let mut rng = Rng::new(seed);
        if let Some(path) = replay {
            return replay_ops(run, path, &own, &remotes).await;
        }
        for _ in 0..nseq {
            let l = 4 + rng.below(len as u64) as usize;
            drive_sequence(run, &mut rng, &own, &remotes, l).await?;
        }
        atomicity_probes(run, &own, &remotes).await?;
        stress(run, &mut rng, &own, &remotes, nstress).await?;
        anyhow::Ok(())
    })?;
    // whole networks: every node's event log must be accepted by the model against its listing
    network_logs(run, if run.quick() { 25 } else { 400 })?;
    blocked_handler_exit(run, if run.quick() { 2 } else { 8 })?;
    stale_exit_race(run, if run.quick() { 2 } else { 8 })?;
    redial_keeps_connection(run, if run.quick() { 8 } else { 40 })?;
    lazy_subscriber(run, if run.quick() { 2 } else { 20 })?;
    contention_rounds(run, if run.quick() { 200 } else { 2000 }, "remote")?;
    Ok(())
}

/// replay a direct-drive op list (peers.* lines) against the real set
async fn replay_ops(run: &mut Run, path: &std::path::Path, own: &RawNode, remotes: &[RawNode]) -> anyhow::Result<()> {
    let own_id = own.id.peer_id;
    let mut ap = VerifActivePeers::new(1024);
    let (mut rx, _) = ap.subscribe();
    let mut minted: BTreeMap<usize, (VerifConn, quinn::Connection, bool)> = BTreeMap::new();
    let by_hex: BTreeMap<String, usize> = remotes.iter().enumerate().map(|(i, r)| (pid_hex(&r.id.peer_id), i)).collect();
    // peers in the file are renamed onto this run's remotes in order of first appearance
    let mut rename: BTreeMap<String, usize> = BTreeMap::new();
    for line in std::fs::read_to_string(path)?.lines() {
        let (cmd, a) = crate::out::args(line);
        let mut peer_of = |h: &String| -> usize {
            if let Some(i) = by_hex.get(h) {
                return *i;
            }
            let n = rename.len();
            *rename.entry(h.clone()).or_insert(n % remotes.len())
        };
        let parse_reason = |s: Option<&String>| REASONS.iter().find(|r| Some(reason_name(r)) == s.map(|x| x.as_str())).cloned().unwrap_or(DisconnectReason::Requested);
        let mut head = String::new();
        let op = match cmd.as_str() {
            "peers.reset" => {
                ap = VerifActivePeers::new(1024);
                rx = ap.subscribe().0;
                minted.clear();
                run.op(format!("peers.reset own={}", pid_hex(&own_id)), "ok".into(), false);
                continue;
            }
            "peers.add" => {
                let pi = peer_of(a.get("peer").unwrap());
                let inbound = a.get("origin").map(|s| s == "in").unwrap_or(false);
                let n: usize = a.get("conn").and_then(|s| s.parse().ok()).unwrap_or(0);
                let (mine, theirs) = if inbound {
                    let (d, l) = connect_pair(&remotes[pi], own).await?;
                    (l, d)
                } else {
                    connect_pair(own, &remotes[pi]).await?
                };
                let vc = VerifConn::new(mine, if inbound { ConnectionOrigin::Inbound } else { ConnectionOrigin::Outbound })?;
                head = if ap.add(&own_id, &vc).is_some() { "kept ".into() } else { "dropped ".into() };
                minted.insert(n, (vc, theirs, false));
                format!("peers.add conn={n} peer={} origin={}", pid_hex(&remotes[pi].id.peer_id), if inbound { "in" } else { "out" })
            }
            "peers.remove" => {
                let pi = peer_of(a.get("peer").unwrap());
                let r = parse_reason(a.get("reason"));
                ap.remove(&remotes[pi].id.peer_id, r.clone());
                format!("peers.remove peer={} reason={}", pid_hex(&remotes[pi].id.peer_id), reason_name(&r))
            }
            "peers.remove-stable" => {
                let pi = peer_of(a.get("peer").unwrap());
                let n: usize = a.get("conn").and_then(|s| s.parse().ok()).unwrap_or(0);
                let r = parse_reason(a.get("reason"));
                if let Some((vc, _, _)) = minted.get(&n) {
                    ap.remove_with_stable_id(remotes[pi].id.peer_id, vc.stable_id(), r.clone());
                }
                format!("peers.remove-stable peer={} conn={n} reason={}", pid_hex(&remotes[pi].id.peer_id), reason_name(&r))
            }
            "peers.list" => {
                run.op("peers.list".into(), format!("peers={}", fmt_peers(ap.peers())), true);
                continue;
            }
            _ => continue,
        };
        let (evs, _) = drain(&mut rx);
        let mut newly = vec![];
        for (n, (vc, _, was)) in minted.iter_mut() {
            if !*was && vc.close_reason().is_some() {
                *was = true;
                newly.push(n.to_string());
            }
        }
        run.op(op, format!("{head}events={} closed={} peers={}", fmt_list(&evs.iter().map(ev_str).collect::<Vec<_>>()), fmt_list(&newly), fmt_peers(ap.peers())), true);
    }
    Ok(())
}

// ------------------------------------------------------------------ whole networks

pub struct NodeLog {
    pub rx: tokio::sync::broadcast::Receiver<PeerEvent>,
    pub snapshot: Vec<PeerId>,
    pub events: Vec<PeerEvent>,
}

impl NodeLog {
    pub fn new(n: &anemo::Network) -> Self {
        let (rx, snapshot) = n.subscribe().unwrap();
        NodeLog { rx, snapshot, events: vec![] }
    }
    pub fn pump(&mut self) -> bool {
        let (e, lag) = drain(&mut self.rx);
        self.events.extend(e);
        lag
    }
    /// model line + implementation answer for the trace acceptor
    pub fn acceptor_line(&mut self, listing: Vec<PeerId>) -> (String, String) {
        self.pump();
        let op = format!(
            "peers.replay snapshot={} events={}",
            fmt_list(&self.snapshot.iter().map(pid_hex).collect::<Vec<_>>()),
            fmt_list(&self.events.iter().map(ev_str).collect::<Vec<_>>())
        );
        (op, format!("ok peers={}", fmt_peers(listing)))
    }
}

/// random small networks with dials/disconnects; each node's whole event log is fed to the model's
/// strict replay and must reproduce the node's final listing (C04 at network level)
fn network_logs(run: &mut Run, n: usize) -> anyhow::Result<()> {
    let seed = run.seed;
    for case in 0..n {
        run.mark(&format!("scenario network_logs case {case} seed {}", run.seed));
        let rt = paused_rt();
        let lines: Vec<(String, String)> = rt.block_on(async {
            let mut rng = Rng::new(seed ^ (0xC04 + case as u64));
            let fabric = Fabric::new(seed + case as u64);
            fabric.set_faults(Faults { loss_permille: rng.below(30), dup_permille: rng.below(20), min_latency_us: 500, max_latency_us: 500 + rng.below(20_000) });
            let k = 2 + rng.below(3) as u16;
            let nodes: Vec<Node> = (0..k).map(|i| start_node(&fabric, seed + case as u64, i + 1, config_idle(5_000)).unwrap()).collect();
            let mut logs: Vec<NodeLog> = nodes.iter().map(|n| NodeLog::new(&n.net)).collect();
            for _ in 0..(4 + rng.below(10)) {
                let i = rng.below(k as u64) as usize;
                let j = rng.below(k as u64) as usize;
                if i == j {
                    continue;
                }
                match rng.below(4) {
                    0 | 1 => {
                        let (a, b) = (nodes[i].net.clone(), nodes[j].addr);
                        if rng.chance(1, 2) {
                            // simultaneous mutual dial
                            let (c, d) = (nodes[j].net.clone(), nodes[i].addr);
                            let _ = tokio::join!(a.connect(b), c.connect(d));
                        } else {
                            let _ = a.connect(b).await;
                        }
                    }
                    2 => {
                        let _ = nodes[i].net.disconnect(nodes[j].id);
                    }
                    _ => tokio::time::sleep(Duration::from_millis(rng.below(3000))).await,
                }
                for l in logs.iter_mut() {
                    l.pump();
                }
            }
            tokio::time::sleep(Duration::from_secs(12)).await;
            let mut out = vec![];
            for (n, l) in nodes.iter().zip(logs.iter_mut()) {
                out.push(l.acceptor_line(n.net.peers()));
            }
            out
        });
        for (op, imp) in lines {
            run.count("network-log", "node");
            run.op(op, imp, true);
        }
    }
    Ok(())
}

// ------------------------------------------------------------------ C05

fn origin_s(o: ConnectionOrigin) -> &'static str {
    if o == ConnectionOrigin::Inbound {
        "in"
    } else {
        "out"
    }
}

pub fn run_c05(run: &mut Run, replay: Option<&std::path::Path>) -> anyhow::Result<()> {
    let seed = run.seed;
    let mut rng = Rng::new(seed);
    if let Some(p) = replay {
        return replay_c05(run, p);
    }
    // ---- (a) the tie-break hook against the model on many identity pairs
    let n_pairs = if run.quick() { 1500 } else { 60000 };
    for i in 0..n_pairs {
        let mut a = [0u8; 32];
        let mut b = [0u8; 32];
        a.copy_from_slice(&rng.bytes(32));
        b.copy_from_slice(&rng.bytes(32));
        match i % 6 {
            0 => b = a,
            1 => {
                b = a;
                b[31] = b[31].wrapping_add(1)
            }
            2 => {
                b = a;
                b[0] = b[0].wrapping_add(1)
            }
            3 => {
                b = a;
                let k = rng.below(32) as usize;
                b[k] ^= 1 << rng.below(8)
            }
            _ => {}
        }
        // the property itself, on the implementation alone: for distinct identities both ends condemn the same
        // connection (X dialled by a, Y dialled by b), and each end decides the same in either arrival order
        if a != b {
            let (i_, o_) = (ConnectionOrigin::Inbound, ConnectionOrigin::Outbound);
            let a_drops_x_when_y_arrives = tie_break(&PeerId(a), &PeerId(b), o_, i_);
            let a_drops_y_when_x_arrives = tie_break(&PeerId(a), &PeerId(b), i_, o_);
            let b_drops_x_when_y_arrives = tie_break(&PeerId(b), &PeerId(a), i_, o_);
            let b_drops_y_when_x_arrives = tie_break(&PeerId(b), &PeerId(a), o_, i_);
            let a_keeps_x = !a_drops_x_when_y_arrives;
            if a_drops_y_when_x_arrives != a_keeps_x || b_drops_y_when_x_arrives != !b_drops_x_when_y_arrives || a_keeps_x != !b_drops_x_when_y_arrives {
                run.oracle_fail(json!({"kind": "simultaneous-dial tie-break: the two ends do not keep the same connection, or an end decides differently depending on arrival order",
                    "a": hex::encode(a), "b": hex::encode(b), "a_keeps_its_own_dial": a_keeps_x, "a_drops_peers_dial_if_own_arrives_second": a_drops_y_when_x_arrives,
                    "b_drops_as_dial_if_own_arrives_second": b_drops_x_when_y_arrives, "b_drops_own_dial_if_as_arrives_second": b_drops_y_when_x_arrives}));
            }
        }
        for e in [ConnectionOrigin::Inbound, ConnectionOrigin::Outbound] {
            for n in [ConnectionOrigin::Inbound, ConnectionOrigin::Outbound] {
                let r = tie_break(&PeerId(a), &PeerId(b), e, n);
                run.count("tiebreak", &format!("{}-{}:{}", origin_s(e), origin_s(n), r));
                run.op(format!("peers.tiebreak own={} remote={} existing={} new={}", hex::encode(a), hex::encode(b), origin_s(e), origin_s(n)), r.to_string(), true);
            }
        }
    }
    // ---- (b) two real active-peer sets, two real connections, random admissible schedules
    let n_sched = if run.quick() { 300 } else { 6000 };
    let rt = paused_rt();
    rt.block_on(async {
        let fabric = Fabric::new(seed);
        let na = raw_node(&fabric, 1, key_of(seed, 1), "verif");
        let nb = raw_node(&fabric, 2, key_of(seed, 2), "verif");
        for s in 0..n_sched {
            duo_schedule(run, &mut rng, &na, &nb, s).await?;
        }
        anyhow::Ok(())
    })?;
    // ---- (c) whole networks dialling each other at about the same time
    let n_net = if run.quick() { 150 } else { 4000 };
    for case in 0..n_net {
        mutual_dial_case(run, seed, case as u64)?;
    }
    stale_exit_race(run, if run.quick() { 2 } else { 8 })?;
    for case in 0..(if run.quick() { 4 } else { 60 }) {
        background_dial_meets_inbound(run, case)?;
    }
    for case in 0..(if run.quick() { 2 } else { 12 }) {
        slow_link_mutual_dial(run, case)?;
    }
    Ok(())
}

/// Simultaneous dials over a SLOW link, in REAL time (the other network scenarios run under tokio's virtual
/// clock, which anything that reads the OS clock does not follow): 250-400 ms one-way latency, so the two
/// registrations on each side lie hundreds of real milliseconds apart.
fn slow_link_mutual_dial(run: &mut Run, case: u64) -> anyhow::Result<()> {
    let seed = run.seed ^ 0x510e ^ (case << 16);
    run.mark(&format!("scenario slow_link_mutual_dial case {case} seed {} (real time; re-run with ./check C05 --seed <seed>)", run.seed));
    let lat = 250_000 + 50_000 * (case % 4);
    let rt = tokio::runtime::Builder::new_multi_thread().worker_threads(4).enable_all().build()?;
    let res: anyhow::Result<serde_json::Value> = rt.block_on(async move {
        let fabric = Fabric::new(seed);
        fabric.set_faults(Faults { loss_permille: 0, dup_permille: 0, min_latency_us: lat, max_latency_us: lat });
        let a = start_node(&fabric, seed, 1, config_idle(60_000))?;
        let b = start_node(&fabric, seed, 2, config_idle(60_000))?;
        let mut la = NodeLog::new(&a.net);
        let mut lb = NodeLog::new(&b.net);
        let (na, nb, aa, ba) = (a.net.clone(), b.net.clone(), a.addr, b.addr);
        let skew = Duration::from_millis(40 * (case % 3));
        let (r1, r2) = tokio::join!(na.connect(ba), async {
            tokio::time::sleep(skew).await;
            nb.connect(aa).await
        });
        // wait for quiet (no event on either side for 1.5 s; the machine may be loaded), at most 25 s
        let mut quiet = 0;
        let mut waited = 0;
        while quiet < 3 && waited < 50 {
            tokio::time::sleep(Duration::from_millis(500)).await;
            let before = la.events.len() + lb.events.len();
            la.pump();
            lb.pump();
            quiet = if la.events.len() + lb.events.len() == before { quiet + 1 } else { 0 };
            waited += 1;
        }
        let (ea, eb) = (la.events.len(), lb.events.len());
        let mk = |id: &str| Request::new(Bytes::from_static(b"x")).with_header("x-id", id);
        let rab = tokio::time::timeout(Duration::from_secs(15), a.net.rpc(b.id, mk("ab"))).await.map(|r| r.is_ok()).unwrap_or(false);
        let rba = tokio::time::timeout(Duration::from_secs(15), b.net.rpc(a.id, mk("ba"))).await.map(|r| r.is_ok()).unwrap_or(false);
        tokio::time::sleep(Duration::from_millis(1_000)).await;
        la.pump();
        lb.pump();
        Ok(json!({"dial_a_ok": r1.is_ok(), "dial_b_ok": r2.is_ok(), "a_lists_b": a.net.peers().iter().filter(|p| **p == b.id).count(), "b_lists_a": b.net.peers().iter().filter(|p| **p == a.id).count(),
                  "rpc_a_to_b": rab, "rpc_b_to_a": rba, "late_events": (la.events.len() - ea) + (lb.events.len() - eb),
                  "events_a": la.events.iter().map(ev_str).collect::<Vec<_>>(), "events_b": lb.events.iter().map(ev_str).collect::<Vec<_>>()}))
    });
    drop(rt);
    let o = res?;
    let ok = o["a_lists_b"] == json!(1) && o["b_lists_a"] == json!(1) && o["rpc_a_to_b"] == json!(true) && o["rpc_b_to_a"] == json!(true) && o["late_events"] == json!(0);
    run.eval(&format!("slow-link-mutual-dial {case}"), true);
    run.count("slow-link-mutual-dial", if ok { "converged" } else { "broken" });
    if !ok {
        run.oracle_fail(json!({"kind": "simultaneous dials over a slow link (real time) did not converge on one shared connection", "one_way_latency_us": lat, "observed": o, "seed": run.seed, "case": case}));
    }
    Ok(())
}

/// A mutual dial in which one side's dial is a BACKGROUND dial (High-affinity known peer) that is still in
/// flight -- its first address is a black hole -- when the peer's own connection is registered.  The pair
/// must end up connected once, with RPCs in both directions, and stay so over the following checks.
fn background_dial_meets_inbound(run: &mut Run, case: u64) -> anyhow::Result<()> {
    use anemo::types::{PeerAffinity, PeerInfo};
    let seed = run.seed ^ 0x5b6d ^ (case << 16);
    run.mark(&format!("scenario background_dial_meets_inbound case {case} seed {} (re-run with ./check C05 --seed <seed>)", run.seed));
    let rt = paused_rt();
    let res: anyhow::Result<serde_json::Value> = rt.block_on(async move {
        let fabric = Fabric::new(seed);
        let mut ca = config_idle(60_000);
        ca.connectivity_check_interval_ms = Some(1_000);
        ca.connect_timeout_ms = Some(5_000 + 1_000 * (case % 3));
        let a = start_node(&fabric, seed, 1, ca)?;
        let b = start_node(&fabric, seed, 2, config_idle(60_000))?;
        let mut la = NodeLog::new(&a.net);
        let mut lb = NodeLog::new(&b.net);
        // B's address list at A: a black hole first (the dial to it stays in flight), B's real address second
        let addrs: Vec<anemo::types::Address> = if case % 2 == 0 { vec![Fabric::addr(250).into(), b.addr.into()] } else { vec![Fabric::addr(250).into()] };
        a.net.known_peers().insert(PeerInfo { peer_id: b.id, affinity: PeerAffinity::High, address: addrs });
        tokio::time::sleep(Duration::from_millis(2_300)).await; // the first check has started the dial
        let dialled = b.net.connect(a.addr).await.is_ok();
        tokio::time::sleep(Duration::from_millis(12_000)).await; // the background dial fails meanwhile; several checks pass
        la.pump();
        lb.pump();
        let mk = |id: &str| Request::new(Bytes::from_static(b"x")).with_header("x-id", id);
        let r1 = tokio::time::timeout(Duration::from_secs(5), a.net.rpc(b.id, mk("ab"))).await.map(|r| r.is_ok()).unwrap_or(false);
        let r2 = tokio::time::timeout(Duration::from_secs(5), b.net.rpc(a.id, mk("ba"))).await.map(|r| r.is_ok()).unwrap_or(false);
        Ok(json!({"b_dial_ok": dialled, "a_closed": a.net.is_closed(), "a_lists_b": a.net.peers().iter().filter(|p| **p == b.id).count(), "b_lists_a": b.net.peers().iter().filter(|p| **p == a.id).count(),
                  "rpc_a_to_b": r1, "rpc_b_to_a": r2, "events_a": la.events.iter().map(ev_str).collect::<Vec<_>>(), "events_b": lb.events.iter().map(ev_str).collect::<Vec<_>>()}))
    });
    drop(rt);
    let o = res?;
    let ok = o["b_dial_ok"] == json!(true) && o["a_closed"] == json!(false) && o["a_lists_b"] == json!(1) && o["b_lists_a"] == json!(1) && o["rpc_a_to_b"] == json!(true) && o["rpc_b_to_a"] == json!(true);
    run.eval(&format!("bg-dial-meets-inbound {case}"), true);
    run.count("bg-dial-meets-inbound", if ok { "converged" } else { "broken" });
    if !ok {
        run.oracle_fail(json!({"kind": "a background dial in flight while the peer's own connection was registered left the pair disconnected (or the network down)", "observed": o, "seed": run.seed, "case": case}));
    }
    Ok(())
}

async fn duo_schedule(run: &mut Run, rng: &mut Rng, na: &RawNode, nb: &RawNode, idx: usize) -> anyhow::Result<()> {
    let (ida, idb) = (na.id.peer_id, nb.id.peer_id);
    // c1 dialled by A, c2 dialled by B
    let (c1a, c1b) = connect_pair(na, nb).await?;
    let (c2b, c2a) = connect_pair(nb, na).await?;
    let conn = |side: usize, c: usize| -> VerifConn {
        match (side, c) {
            (0, 1) => VerifConn::new(c1a.clone(), ConnectionOrigin::Outbound).unwrap(),
            (0, _) => VerifConn::new(c2a.clone(), ConnectionOrigin::Inbound).unwrap(),
            (1, 1) => VerifConn::new(c1b.clone(), ConnectionOrigin::Inbound).unwrap(),
            _ => VerifConn::new(c2b.clone(), ConnectionOrigin::Outbound).unwrap(),
        }
    };
    let conns = [[conn(0, 1), conn(0, 2)], [conn(1, 1), conn(1, 2)]];
    let aps = [VerifActivePeers::new(64), VerifActivePeers::new(64)];
    let mut rxs = [aps[0].subscribe().0, aps[1].subscribe().0];
    let ids = [ida, idb];
    let mut ops = vec![format!("duo.reset a={} b={}", pid_hex(&ida), pid_hex(&idb))];
    run.op(ops[0].clone(), "ok".into(), false);
    let mut offered = [[false; 2]; 2];
    let mut kept = [[false; 2]; 2];
    let mut exited = [[false; 2]; 2];
    let mut was_closed = [[false; 2]; 2];
    let include_loser = rng.chance(3, 4);
    let winner = if ida < idb { 1 } else { 0 }; // index into c: 0 => c1, 1 => c2
    let mut ctx = 0u64;
    for _step in 0..8 {
        // let close notifications travel
        tokio::time::sleep(Duration::from_millis(20)).await;
        let mut enabled: Vec<(bool, usize, usize)> = vec![];
        for s in 0..2 {
            for c in 0..2 {
                if !offered[s][c] && (c == winner || include_loser) {
                    enabled.push((true, s, c));
                }
                if kept[s][c] && !exited[s][c] && conns[s][c].close_reason().is_some() {
                    enabled.push((false, s, c));
                }
            }
        }
        if enabled.is_empty() {
            break;
        }
        let (is_add, s, c) = *rng.pick(&enabled);
        let side = if s == 0 { "A" } else { "B" };
        let cname = if c == 0 { "c1" } else { "c2" };
        let mut head = String::new();
        let op = if is_add {
            offered[s][c] = true;
            let k = aps[s].add(&ids[s], &conns[s][c]).is_some();
            kept[s][c] = k;
            head = if k { "kept ".into() } else { "dropped ".into() };
            format!("duo.add side={side} conn={cname}")
        } else {
            exited[s][c] = true;
            let r = DisconnectReason::from_quinn_error(&conns[s][c].close_reason().unwrap());
            aps[s].remove_with_stable_id(ids[1 - s], conns[s][c].stable_id(), r.clone());
            format!("duo.exit side={side} conn={cname} reason={}", reason_name(&r))
        };
        run.count("duo", if is_add { "add" } else { "exit" });
        // deltas per node; `closed` lists connections this node's set closed (locally closed)
        let mut parts = vec![];
        for n in 0..2 {
            let (evs, _) = drain(&mut rxs[n]);
            let mut newly = vec![];
            for cc in 0..2 {
                let locally = matches!(conns[n][cc].close_reason(), Some(quinn::ConnectionError::LocallyClosed));
                if locally && !was_closed[n][cc] {
                    was_closed[n][cc] = true;
                    newly.push((cc + 1).to_string());
                }
            }
            parts.push(format!("events={} closed={} peers={}", fmt_list(&evs.iter().map(ev_str).collect::<Vec<_>>()), fmt_list(&newly), fmt_peers(aps[n].peers())));
        }
        ops.push(op.clone());
        run.op_in(&mut ctx, op, format!("{head}a=[{}] b=[{}]", parts[0], parts[1]));
    }
    // quiescence oracle on the implementation: both list each other once, on the winner, open
    tokio::time::sleep(Duration::from_millis(50)).await;
    if offered[0][winner] && offered[1][winner] {
        let okside = |s: usize| {
            aps[s].peers() == vec![ids[1 - s]]
                && aps[s].get(&ids[1 - s]).map(|x| x.stable_id() == conns[s][winner].stable_id() && x.close_reason().is_none()).unwrap_or(false)
        };
        // exits still pending?
        let pending = (0..2).any(|s| (0..2).any(|c| kept[s][c] && !exited[s][c] && conns[s][c].close_reason().is_some()));
        if !pending && !(okside(0) && okside(1)) {
            run.oracle_fail(json!({"kind": "two-node schedule did not converge on the connection dialled by the greater identity", "ops": ops.clone(), "schedule": idx}));
        }
        // "...and drop the other": the connection that lost must be closed at both ends, not merely unlisted
        let loser = 1 - winner;
        for sd in 0..2 {
            if offered[sd][loser] && conns[sd][loser].close_reason().is_none() {
                run.oracle_fail(json!({"kind": "the connection that lost the tie-break is still open (two live connections between the same pair)", "ops": ops.clone(), "schedule": idx, "side": if sd == 0 { "A" } else { "B" }}));
            }
        }
        let q = format!("quiet={} converged={} winner={}", !pending, okside(0) && okside(1), winner + 1);
        run.op("duo.state".into(), q, true);
    }
    Ok(())
}

fn mutual_dial_case(run: &mut Run, seed: u64, case: u64) -> anyhow::Result<()> {
    run.mark(&format!("scenario mutual_dial case {case} seed {seed}"));
    let rt = paused_rt();
    let res: anyhow::Result<(Vec<(String, String)>, Option<serde_json::Value>, String)> = rt.block_on(async {
        let mut rng = Rng::new(seed ^ (0xC05 << 20) ^ case);
        let fabric = Fabric::new(seed ^ case);
        let lat = 200 + rng.below(30_000);
        fabric.set_faults(Faults { loss_permille: if rng.chance(1, 3) { rng.below(80) } else { 0 }, dup_permille: rng.below(10), min_latency_us: lat, max_latency_us: lat + rng.below(20_000) });
        // a connection limit of 1 on either end must not get in the way of the pair's own convergence
        let lim = rng.below(6);
        let mut ca = config_idle(20_000);
        let mut cb = config_idle(20_000);
        if lim == 0 || lim == 2 {
            ca.max_concurrent_connections = Some(1);
        }
        if lim == 1 || lim == 2 {
            cb.max_concurrent_connections = Some(1);
        }
        let a = start_node(&fabric, seed ^ case, 1, ca)?;
        let b = start_node(&fabric, seed ^ case, 2, cb)?;
        let mut la = NodeLog::new(&a.net);
        let mut lb = NodeLog::new(&b.net);
        // applications keep `Peer` handles: the first one each side can get hold of is kept across whatever
        // replacement follows and used again once the pair is quiet
        let early: Arc<Mutex<[Option<anemo::Peer>; 2]>> = Arc::new(Mutex::new([None, None]));
        for (k, (net, other)) in [(a.net.clone(), b.id), (b.net.clone(), a.id)].into_iter().enumerate() {
            let early = early.clone();
            tokio::spawn(async move {
                for _ in 0..4000 {
                    if let Some(p) = net.peer(other) {
                        early.lock().unwrap()[k] = Some(p);
                        break;
                    }
                    tokio::time::sleep(Duration::from_micros(500)).await;
                }
            });
        }
        let skew = Duration::from_micros(rng.below(120_000));
        let first_a = rng.chance(1, 2);
        let (na, nb, aa, ab) = (a.net.clone(), b.net.clone(), a.addr, b.addr);
        let da = async move {
            if !first_a {
                tokio::time::sleep(skew).await;
            }
            na.connect(ab).await
        };
        let db = async move {
            if first_a {
                tokio::time::sleep(skew).await;
            }
            nb.connect(aa).await
        };
        let (ra, rb) = tokio::join!(da, db);
        tokio::time::sleep(Duration::from_secs(6)).await;
        la.pump();
        lb.pump();
        let (ea, eb) = (la.events.len(), lb.events.len());
        let mut problem: Option<String> = None;
        if ra.is_err() && rb.is_err() {
            problem = Some(format!("both dials failed: {:?} / {:?}", ra.as_ref().err().map(|e| e.to_string()), rb.as_ref().err().map(|e| e.to_string())));
        }
        if problem.is_none() && (a.net.peers() != vec![b.id] || b.net.peers() != vec![a.id]) {
            problem = Some(format!("listings at quiescence: A lists {} peer(s), B lists {}", a.net.peers().len(), b.net.peers().len()));
        }
        // RPCs both ways; the handler logs which connection carried it
        if problem.is_none() {
            let r1 = tokio::time::timeout(Duration::from_secs(10), a.net.rpc(b.id, Request::new(Bytes::from_static(b"ab")).with_header("x-id", "ab"))).await;
            let r2 = tokio::time::timeout(Duration::from_secs(10), b.net.rpc(a.id, Request::new(Bytes::from_static(b"ba")).with_header("x-id", "ba"))).await;
            if !matches!(r1, Ok(Ok(_))) || !matches!(r2, Ok(Ok(_))) {
                problem = Some("an RPC failed after the mutual dial went quiet".into());
            } else {
                // survivor = dialled by the greater id
                let greater_is_a = a.id > b.id;
                let at_b = b.svc.log.lock().unwrap().invocations.iter().find(|i| i.id == "ab").and_then(|i| i.origin);
                let at_a = a.svc.log.lock().unwrap().invocations.iter().find(|i| i.id == "ba").and_then(|i| i.origin);
                let want_b = if greater_is_a { ConnectionOrigin::Inbound } else { ConnectionOrigin::Outbound };
                let want_a = if greater_is_a { ConnectionOrigin::Outbound } else { ConnectionOrigin::Inbound };
                let both_dials_done = ra.is_ok() && rb.is_ok();
                if both_dials_done && (at_b != Some(want_b) || at_a != Some(want_a)) {
                    problem = Some("the surviving connection is not the one dialled by the greater identity".into());
                }
            }
        }
        // the retained handles may point at the connection that lost (then the call just fails); using them
        // must not disturb the surviving connection
        let handles: Vec<Option<anemo::Peer>> = { let mut g = early.lock().unwrap(); vec![g[0].take(), g[1].take()] };
        for (k, h) in handles.into_iter().enumerate() {
            if let Some(mut h) = h {
                let _ = tokio::time::timeout(Duration::from_secs(5), h.rpc(Request::new(Bytes::from_static(b"old")).with_header("x-id", format!("old{k}")))).await;
            }
        }
        tokio::time::sleep(Duration::from_secs(8)).await;
        la.pump();
        lb.pump();
        if problem.is_none() && (a.net.peers() != vec![b.id] || b.net.peers() != vec![a.id]) {
            problem = Some("the pair is no longer connected after a retained Peer handle was used".into());
        }
        if problem.is_none() && (la.events.len() != ea || lb.events.len() != eb) {
            problem = Some("further connect/disconnect events after the pair went quiet".into());
        }
        let lines = vec![la.acceptor_line(a.net.peers()), lb.acceptor_line(b.net.peers())];
        let desc = format!("seed={seed} case={case} latency_us={lat} skew_us={} first={}", skew.as_micros(), if first_a { "A" } else { "B" });
        Ok((lines, problem.map(|p| json!({"kind": p, "replay": {"mode": "mutual-dial", "case": case}, "scenario": desc.clone()})), desc))
    });
    let (lines, problem, _desc) = res?;
    run.count("mutual-dial", if problem.is_some() { "failed" } else { "converged" });
    if let Some(p) = problem {
        run.oracle_fail(p);
    }
    for (op, imp) in lines {
        run.op(op, imp, true);
    }
    Ok(())
}

fn replay_c05(run: &mut Run, path: &std::path::Path) -> anyhow::Result<()> {
    let txt = std::fs::read_to_string(path)?;
    if let Ok(v) = serde_json::from_str::<serde_json::Value>(&txt) {
        if let Some(case) = v.get("case").and_then(|c| c.as_u64()) {
            return mutual_dial_case(run, run.seed, case);
        }
    }
    // op list: tie-break lines are re-evaluated
    for line in txt.lines() {
        let (cmd, a) = crate::out::args(line);
        if cmd == "peers.tiebreak" {
            let id = |k: &str| -> PeerId {
                let mut x = [0u8; 32];
                if let Some(b) = a.get(k).and_then(|s| hex::decode(s).ok()) {
                    if b.len() == 32 {
                        x.copy_from_slice(&b)
                    }
                }
                PeerId(x)
            };
            let o = |k: &str| if a.get(k).map(|s| s == "in").unwrap_or(false) { ConnectionOrigin::Inbound } else { ConnectionOrigin::Outbound };
            let r = tie_break(&id("own"), &id("remote"), o("existing"), o("new"));
            run.op(line.to_string(), r.to_string(), true);
        }
    }
    Ok(())
}
