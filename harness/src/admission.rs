//! C10: inbound admission on whole networks: a listener with a connection limit and an affinity
//! table, several dialers, histories of non-overlapping arrivals, explicit dials, disconnects and
//! table edits, each run to quiescence in virtual time.
use crate::fabric::{paused_rt, Fabric};
use crate::net::*;
use crate::out::Run;
use crate::rng::Rng;
use anemo::types::{PeerAffinity, PeerInfo};
use anemo::Config;
use serde_json::json;
use std::time::Duration;

pub fn run_c10(run: &mut Run, replay: Option<&std::path::Path>) -> anyhow::Result<()> {
    let mut rng = Rng::new(run.seed);
    let nhist = if run.quick() { 90 } else { 4000 };
    let script: Option<Vec<String>> = replay.map(|p| std::fs::read_to_string(p).map(|s| s.lines().map(|l| l.to_string()).collect())).transpose()?;
    for h in 0..(if script.is_some() { 1 } else { nhist }) {
        let seed = run.seed ^ ((h as u64) << 8);
        run.mark(&format!("scenario admission history {h} seed {} (re-run with ./check C10 --seed <seed>)", run.seed));
        let mut limit: Option<usize> = *rng.pick(&[None, Some(0), Some(1), Some(1), Some(2), Some(2), Some(3), Some(5)]);
        let ndial = 4 + rng.below(5) as u16;
        let len = 8 + rng.below(18);
        // plan (generated or scripted)
        let mut plan: Vec<(String, u16, String)> = vec![]; // (kind, peer, aff)
        if let Some(sc) = &script {
            for l in sc {
                let (cmd, a) = crate::out::args(l);
                let peer: u16 = a.get("peer").and_then(|s| s.parse().ok()).unwrap_or(2);
                match cmd.as_str() {
                    "listener.reset" => limit = a.get("limit").and_then(|s| if s == "none" { None } else { s.parse().ok() }),
                    "listener.known" => plan.push(("known".into(), peer, a.get("aff").cloned().unwrap_or_default())),
                    "listener.arrive" => plan.push(("arrive".into(), peer, String::new())),
                    "listener.dial" => plan.push(("dial".into(), peer, String::new())),
                    "listener.disconnect" => plan.push(("disconnect".into(), peer, String::new())),
                    _ => {}
                }
            }
        } else {
            for _ in 0..len {
                let peer = 2 + rng.below(ndial as u64) as u16;
                match rng.below(10) {
                    0 | 1 => plan.push(("known".into(), peer, (*rng.pick(&["high", "allowed", "never", "never", "remove"])).to_string())),
                    2..=5 => plan.push(("arrive".into(), peer, String::new())),
                    6 | 7 => plan.push(("dial".into(), peer, String::new())),
                    8 if rng.chance(1, 2) => plan.push(("stuck".into(), peer, String::new())),
                    _ => plan.push(("disconnect".into(), peer, String::new())),
                }
            }
        }
        let max_peer = plan.iter().map(|p| p.1).max().unwrap_or(2).max(1 + ndial);
        let rt = paused_rt();
        let lines: anyhow::Result<Vec<(String, String, Option<String>)>> = rt.block_on(async {
            let fabric = Fabric::new(seed);
            let mut lc: Config = config_idle(3_600_000); // no idle losses during a history
            lc.max_concurrent_connections = limit;
            lc.connectivity_check_interval_ms = Some(2_000); // High-affinity entries of the history carry no address: nothing to dial in the background
            let l = start_node(&fabric, seed, 1, lc)?;
            let mut dialers = vec![];
            for i in 2..=max_peer {
                let mut c = config_idle(3_600_000);
                c.connectivity_check_interval_ms = Some(600_000);
                dialers.push(start_node(&fabric, seed, i, c)?);
            }
            let mut out = vec![(format!("listener.reset limit={}", limit.map(|x| x.to_string()).unwrap_or_else(|| "none".into())), "ok".to_string(), None)];
            let mut aff: std::collections::HashMap<u16, String> = Default::default();
            // a dialer whose handshake with the listener can never complete (it grants no unidirectional
            // streams, so the listener's acknowledgement cannot be sent): its attempts pass the admission
            // decision, time out, and must leave no trace in the listener's capacity
            let stuck = {
                let mut c = config_idle(3_600_000);
                let mut q = anemo::QuicConfig::default();
                q.max_idle_timeout_ms = Some(3_600_000);
                q.max_concurrent_uni_streams = Some(0);
                c.quic = Some(q);
                c.connectivity_check_interval_ms = Some(600_000);
                start_node(&fabric, seed, max_peer + 5, c)?
            };
            for (opi, (kind, peer, a)) in plan.iter().enumerate() {
                let d = &dialers[(*peer - 2) as usize];
                match kind.as_str() {
                    "known" => {
                        if a == "remove" {
                            l.net.known_peers().remove(&d.id);
                            aff.remove(peer);
                        } else {
                            let affinity = match a.as_str() {
                                "high" => PeerAffinity::High,
                                "allowed" => PeerAffinity::Allowed,
                                _ => PeerAffinity::Never,
                            };
                            // in-place updates with and without addresses (only High peers are ever dialled, so an
                            // address on an Allowed / Never entry changes nothing else)
                            let address = if a != "high" && (opi / 2 + *peer as usize) % 2 == 0 { vec![d.addr.into()] } else { vec![] };
                            l.net.known_peers().insert(PeerInfo { peer_id: d.id, affinity, address });
                            aff.insert(*peer, a.clone());
                        }
                        out.push((format!("listener.known peer={peer} aff={a}"), "ok".into(), None));
                    }
                    "arrive" => {
                        let before = l.net.peers().len();
                        let r = tokio::time::timeout(Duration::from_secs(30), d.net.connect(l.addr)).await;
                        tokio::time::sleep(Duration::from_millis(1500)).await;
                        let listed = l.net.peers().contains(&d.id);
                        let count = l.net.peers().len();
                        let class = match (&r, listed) {
                            (Ok(Ok(_)), true) => "admitted",
                            (Ok(Err(_)), _) => "rejected",
                            (Err(_), _) => "hang",
                            (Ok(Ok(_)), false) => "connect-ok-but-not-listed",
                        };
                        // property oracle, independent of the model
                        let want = match aff.get(peer).map(|s| s.as_str()) {
                            Some("never") => false,
                            Some("high") | Some("allowed") => true,
                            _ => limit.map(|lm| before < lm).unwrap_or(true),
                        };
                        let mut problem = None;
                        if (class == "admitted") != want || class == "hang" || class == "connect-ok-but-not-listed" {
                            problem = Some(format!("arrival from a peer with affinity {:?}, limit {:?}, {} established connection(s): {} (property says {})", aff.get(peer), limit, before, class, if want { "admit" } else { "reject" }));
                        }
                        if class == "rejected" && listed && !l.net.peers().contains(&d.id) {
                            problem = Some("a rejected dialer is listed".into());
                        }
                        out.push((format!("listener.arrive peer={peer}"), format!("{class} count={count}"), problem));
                    }
                    "stuck" => {
                        let r = tokio::time::timeout(Duration::from_secs(40), stuck.net.connect(l.addr)).await;
                        tokio::time::sleep(Duration::from_millis(1500)).await;
                        if matches!(r, Ok(Ok(_))) && l.net.peers().contains(&stuck.id) {
                            // (would be an ordinary arrival then; it is not one in any run so far)
                            return Err(anyhow::anyhow!("the stuck dialer got connected: the scenario's premise does not hold"));
                        }
                    }
                    "dial" => {
                        let r = tokio::time::timeout(Duration::from_secs(30), l.net.connect(d.addr)).await;
                        tokio::time::sleep(Duration::from_millis(1500)).await;
                        let ok = matches!(r, Ok(Ok(_)));
                        let problem = if !ok || !l.net.peers().contains(&d.id) { Some("an explicit outbound dial by the listener failed or was not registered (limit must not apply)".to_string()) } else { None };
                        out.push((format!("listener.dial peer={peer}"), format!("count={}", l.net.peers().len()), problem));
                    }
                    _ => {
                        // disconnect from either side
                        if peer % 2 == 0 {
                            let _ = l.net.disconnect(d.id);
                        } else {
                            let _ = d.net.disconnect(l.id);
                        }
                        tokio::time::sleep(Duration::from_millis(1500)).await;
                        out.push((format!("listener.disconnect peer={peer}"), format!("count={}", l.net.peers().len()), None));
                    }
                }
            }
            // background phase: a High-affinity peer WITH an address must be dialled and connected
            // whatever the limit and however many connections are established
            if script.is_none() {
                let extra = start_node(&fabric, seed, max_peer + 1, config_idle(3_600_000))?;
                let before = l.net.peers().len();
                l.net.known_peers().insert(PeerInfo { peer_id: extra.id, affinity: PeerAffinity::High, address: vec![extra.addr.into()] });
                tokio::time::sleep(Duration::from_millis(2 * 3_000 + 2_000)).await;
                let ok = l.net.peers().contains(&extra.id);
                let problem = if ok { None } else { Some(format!("a background dial to a High-affinity peer did not happen or was blocked (limit {limit:?}, {before} established connections)")) };
                out.push((format!("listener.dial peer={}", max_peer + 1), format!("count={}", l.net.peers().len()), problem));
            }
            Ok(out)
        });
        drop(rt);
        let lines = lines?;
        let ops: Vec<String> = lines.iter().map(|l| l.0.clone()).collect();
        let mut ctx = 0u64;
        for (i, (op, imp, problem)) in lines.into_iter().enumerate() {
            if let Some(p) = problem {
                run.oracle_fail(json!({"kind": p, "ops": ops[..=i].to_vec()}));
            }
            let k = op.split_whitespace().next().unwrap_or("?").to_string();
            run.count("op", &k);
            if k == "listener.arrive" {
                run.count("arrival", imp.split_whitespace().next().unwrap_or("?"));
            }
            run.op_in(&mut ctx, op, imp);
        }
        run.count("limit", &format!("{limit:?}"));
    }
    crate::peers::blocked_handler(run, if run.quick() { 1 } else { 4 }, "limit")?;
    Ok(())
}
