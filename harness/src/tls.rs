//! C01 / C03 / C14: certificate classes built with rcgen + ring for every symbolic class of the Lean
//! model, checked (i) against the three real verifiers through the hooks and (ii) in whole QUIC/TLS
//! handshakes on the fabric with an adversary endpoint as dialer and as listener; honest-honest
//! connects for pairs of (primary, alternate) name configurations.
use crate::fabric::{paused_rt, Fabric};
use crate::net::*;
use crate::out::{hexs, Run};
use crate::raw::*;
use crate::rng::Rng;
use anemo::{Config, PeerId};
use rustls::pki_types::{CertificateDer, PrivateKeyDer, ServerName, UnixTime};
use serde_json::json;
use std::sync::Arc;
use std::time::Duration;

#[derive(Clone, Debug, PartialEq)]
pub enum Alg {
    Ed25519,
    Other,
}

#[derive(Clone, Debug)]
pub struct CertSpec {
    pub spki: usize,
    pub spki_alg: Alg,
    pub signer: usize,
    pub sig_alg: Alg,
    pub names: Vec<String>,
    /// 0 = valid now, 1 = expired, 2 = not yet valid
    pub validity: u8,
    /// corrupt the DER afterwards (byte flip / truncation)
    pub corrupt: Option<u64>,
    /// carry the serial number that the ordinary certificate of this OTHER key carries (whoever builds a
    /// certificate chooses its serial number)
    pub serial_of: Option<usize>,
}

/// the serial number field of a DER certificate (Certificate -> TBSCertificate -> [0] version -> INTEGER)
pub fn cert_serial(der: &[u8]) -> Option<Vec<u8>> {
    fn tlv(b: &[u8]) -> Option<(u8, &[u8], &[u8])> {
        let tag = *b.first()?;
        let l0 = *b.get(1)? as usize;
        let (len, hdr) = if l0 < 0x80 {
            (l0, 2)
        } else {
            let n = l0 & 0x7f;
            let mut len = 0usize;
            for i in 0..n {
                len = (len << 8) | *b.get(2 + i)? as usize;
            }
            (len, 2 + n)
        };
        Some((tag, b.get(hdr..hdr + len)?, b.get(hdr + len..)?))
    }
    let (_, cert, _) = tlv(der)?;
    let (_, tbs, _) = tlv(cert)?;
    let (tag, first, rest) = tlv(tbs)?;
    if tag == 0xa0 {
        let (t, serial, _) = tlv(rest)?;
        (t == 0x02).then(|| serial.to_vec())
    } else {
        (tag == 0x02).then(|| first.to_vec())
    }
}

pub struct Keys {
    pub ed: Vec<[u8; 32]>,
    pub ed_kp: Vec<rcgen::KeyPair>,
    pub p256: Vec<rcgen::KeyPair>,
    pub ids: Vec<PeerId>,
}

pub fn ed_keypair(key: [u8; 32]) -> (rcgen::KeyPair, PrivateKeyDer<'static>) {
    let (_c, k) = anemo::verif::config::generate_cert(key, "x");
    (rcgen::KeyPair::from_der_and_sign_algo(&k, &rcgen::PKCS_ED25519).unwrap(), k)
}

impl Keys {
    pub fn new(seed: u64, n: usize) -> Self {
        let ed: Vec<[u8; 32]> = (0..n).map(|i| key_of(seed, 500 + i as u16)).collect();
        let ed_kp = ed.iter().map(|k| ed_keypair(*k).0).collect();
        let p256 = (0..n).map(|_| rcgen::KeyPair::generate_for(&rcgen::PKCS_ECDSA_P256_SHA256).unwrap()).collect();
        let ids = ed.iter().map(|k| identity(*k, "x").peer_id).collect();
        Keys { ed, ed_kp, p256, ids }
    }
    fn kp(&self, idx: usize, alg: &Alg) -> &rcgen::KeyPair {
        match alg {
            Alg::Ed25519 => &self.ed_kp[idx],
            Alg::Other => &self.p256[idx],
        }
    }
    pub fn index_of(&self, p: &PeerId) -> Option<usize> {
        self.ids.iter().position(|x| x == p)
    }
}

pub fn build_cert(keys: &Keys, s: &CertSpec) -> Option<CertificateDer<'static>> {
    let mut params = rcgen::CertificateParams::new(s.names.clone()).ok()?;
    match s.validity {
        1 => {
            params.not_before = rcgen::date_time_ymd(2000, 1, 1);
            params.not_after = rcgen::date_time_ymd(2001, 1, 1);
        }
        2 => {
            params.not_before = rcgen::date_time_ymd(2999, 1, 1);
            params.not_after = rcgen::date_time_ymd(3000, 1, 1);
        }
        _ => {}
    }
    if let Some(k) = s.serial_of {
        let other = rcgen::CertificateParams::new(vec!["x".to_string()]).ok()?.self_signed(&keys.ed_kp[k]).ok()?;
        params.serial_number = Some(rcgen::SerialNumber::from_slice(&cert_serial(other.der())?));
    }
    let subject = keys.kp(s.spki, &s.spki_alg);
    let cert = if s.signer == s.spki && s.sig_alg == s.spki_alg {
        params.self_signed(subject).ok()?
    } else {
        let issuer_kp = keys.kp(s.signer, &s.sig_alg);
        let issuer_cert = rcgen::CertificateParams::new(s.names.clone()).ok()?.self_signed(issuer_kp).ok()?;
        params.signed_by(subject, &issuer_cert, issuer_kp).ok()?
    };
    let mut der = cert.der().to_vec();
    if let Some(c) = s.corrupt {
        let i = (c as usize / 8) % der.len();
        if c % 5 == 0 {
            der.truncate(i.max(1));
        } else {
            der[i] ^= 1 << (c % 8);
        }
    }
    Some(CertificateDer::from(der))
}

fn alg_s(a: &Alg) -> &'static str {
    if *a == Alg::Ed25519 {
        "ed25519"
    } else {
        "other"
    }
}

fn names_s(n: &[String]) -> String {
    if n.is_empty() {
        "-".into()
    } else {
        n.iter().map(|x| hexs(x.as_bytes())).collect::<Vec<_>>().join("+")
    }
}

pub fn spec_s(s: &CertSpec) -> String {
    format!("{}:{}:{}:{}:{}:{}:{}", s.spki, alg_s(&s.spki_alg), s.signer, alg_s(&s.sig_alg), (s.validity == 0) as u8, s.corrupt.is_none() as u8, names_s(&s.names))
}

fn gen_spec(rng: &mut Rng, nkeys: usize, names_pool: &[&str]) -> CertSpec {
    let spki = rng.below(nkeys as u64) as usize;
    let mut s = CertSpec { spki, spki_alg: Alg::Ed25519, signer: spki, sig_alg: Alg::Ed25519, names: vec![if rng.chance(2, 3) { names_pool[0].to_string() } else { (*rng.pick(names_pool)).to_string() }], validity: 0, corrupt: None, serial_of: None };
    match rng.below(16) {
        0 | 1 | 2 | 13 | 14 | 15 => {}
        12 => s.serial_of = Some((spki + 1 + rng.below(nkeys as u64 - 1) as usize) % nkeys), // own key, the serial number of somebody else's certificate
        3 => s.signer = (spki + 1 + rng.below(nkeys as u64 - 1) as usize) % nkeys, // subject key X, signed by Y
        4 => {
            s.spki_alg = Alg::Other;
            s.sig_alg = Alg::Other
        }
        5 => {
            s.sig_alg = Alg::Other;
            s.signer = rng.below(nkeys as u64) as usize
        }
        6 => s.validity = 1,
        7 => s.validity = 2,
        8 => s.names = vec![],
        9 => s.names = vec![(*rng.pick(names_pool)).to_string(), (*rng.pick(names_pool)).to_string()],
        _ => s.corrupt = Some(rng.next() % 40_000),
    }
    s
}

/// sign `msg` as the TLS CertificateVerify of key `signer` would
fn sign(keys: &Keys, signer: usize, alg: &Alg, msg: &[u8]) -> (rustls::SignatureScheme, Vec<u8>) {
    match alg {
        Alg::Ed25519 => {
            let kp = ring::signature::Ed25519KeyPair::from_seed_unchecked(&keys.ed[signer]).unwrap();
            (rustls::SignatureScheme::ED25519, kp.sign(msg).as_ref().to_vec())
        }
        Alg::Other => {
            let rng = ring::rand::SystemRandom::new();
            let pk = ring::signature::EcdsaKeyPair::from_pkcs8(&ring::signature::ECDSA_P256_SHA256_ASN1_SIGNING, &keys.p256[signer].serialize_der(), &rng).unwrap();
            (rustls::SignatureScheme::ECDSA_NISTP256_SHA256, pk.sign(&rng, msg).unwrap().as_ref().to_vec())
        }
    }
}

const NAMES: [&str; 6] = ["verif", "Verif", "other", "a.b", "A.B", "verif2"];

/// (i) the verifiers, unit level
fn unit_level(run: &mut Run, rng: &mut Rng, keys: &Keys, n: usize) {
    for _ in 0..n {
        let spec = gen_spec(rng, keys.ed.len(), &NAMES);
        let cert = match build_cert(keys, &spec) {
            Some(c) => c,
            None => continue,
        };
        let accepted: Vec<String> = match rng.below(4) {
            0 | 1 => vec!["verif".into()],
            2 => vec!["verif".into(), "other".into()],
            _ => vec![(*rng.pick(&NAMES)).to_string()],
        };
        let hs_signer = if rng.chance(4, 5) { spec.spki } else { rng.below(keys.ed.len() as u64) as usize };
        let hs_alg = if rng.chance(9, 10) { Alg::Ed25519 } else { Alg::Other };
        let msg = rng.rbytes(100);
        let (mut scheme, mut sig) = sign(keys, hs_signer, &hs_alg, &msg);
        let (hs_signer, hs_alg) = if rng.chance(1, 8) {
            scheme = *rng.pick(&GARBAGE_SCHEMES);
            sig = rng.rbytes(96);
            (99usize, if scheme == rustls::SignatureScheme::ED25519 { Alg::Ed25519 } else { Alg::Other })
        } else {
            (hs_signer, hs_alg)
        };
        let dss = {
            use rustls::internal::msgs::codec::Codec;
            let mut b = u16::from(scheme).to_be_bytes().to_vec();
            b.extend_from_slice(&(sig.len() as u16).to_be_bytes());
            b.extend_from_slice(&sig);
            rustls::DigitallySignedStruct::read_bytes(&b).unwrap()
        };
        let sni = accepted[0].clone();
        // ---- listener side
        {
            let v = anemo::verif::crypto::client_cert_verifier(accepted.clone());
            let r1 = std::panic::catch_unwind(std::panic::AssertUnwindSafe(|| v.verify_client_cert(&cert, &[], UnixTime::now())));
            let r2 = std::panic::catch_unwind(std::panic::AssertUnwindSafe(|| v.verify_tls13_signature(&msg, &cert, &dss)));
            let (ok1, ok2) = match (&r1, &r2) {
                (Ok(a), Ok(b)) => (a.is_ok(), b.is_ok()),
                _ => {
                    run.oracle_fail(json!({"kind": "certificate verifier panicked", "cert": spec_s(&spec), "der": hex::encode(&cert)}));
                    (false, false)
                }
            };
            let id = anemo::verif::crypto::peer_id_from_certificate(&cert).ok();
            let out = if ok1 && ok2 {
                match id.and_then(|p| keys.index_of(&p)) {
                    Some(k) => format!("accept id={k}"),
                    None => "accept id=?".into(),
                }
            } else {
                "reject".into()
            };
            let op = format!("tls.server accepted={} sni={} cert={} hs={}:{}", names_s(&accepted), hexs(sni.as_bytes()), spec_s(&spec), hs_signer, alg_s(&hs_alg));
            // property oracle: accepted as X only if the handshake signature was made with X's key
            // and the certificate is X's own self-signed Ed25519 certificate
            if ok1 && ok2 {
                let accepted_id = id.and_then(|p| keys.index_of(&p));
                if spec.corrupt.is_none() && (accepted_id != Some(hs_signer) || hs_alg != Alg::Ed25519 || spec.signer != spec.spki || spec.spki_alg != Alg::Ed25519) {
                    run.oracle_fail(json!({"kind": "a party was accepted under an identity whose private key it did not prove / with a certificate not self-signed by that identity", "ops": [op.clone()], "der": hex::encode(&cert)}));
                }
                if spec.corrupt.is_some() && accepted_id != Some(hs_signer) {
                    run.oracle_fail(json!({"kind": "a corrupted certificate was accepted under another identity", "ops": [op.clone()], "der": hex::encode(&cert)}));
                }
                // C14: the dialer's certificate must be valid for a name the listener accepts
                if spec.corrupt.is_none() && !spec.names.iter().any(|n| accepted.iter().any(|a| a.eq_ignore_ascii_case(n))) {
                    run.oracle_fail(json!({"kind": "listener accepted a certificate that is not valid for any network name it accepts", "ops": [op.clone()], "certificate_names": spec.names.clone(), "accepted_names": accepted.clone()}));
                }
            }
            run.count("server-verify", if out == "reject" { "reject" } else { "accept" });
            if spec.corrupt.is_none() {
                run.op(op, out, true);
            } else {
                run.eval(&op, true);
                run.count("corrupted-cert", if out == "reject" { "reject" } else { "accept-same-identity" });
            }
        }
        // ---- dialer side (plain and pinned)
        {
            let own = vec![accepted[0].clone()];
            let dialed = if rng.chance(4, 5) { own[0].clone() } else { (*rng.pick(&NAMES)).to_string() };
            let pin: Option<usize> = match rng.below(3) {
                0 => None,
                1 => Some(spec.spki),
                _ => Some(rng.below(keys.ed.len() as u64) as usize),
            };
            let v = match pin {
                None => anemo::verif::crypto::server_cert_verifier(own.clone()),
                Some(p) => anemo::verif::crypto::expected_server_cert_verifier(own.clone(), keys.ids[p]),
            };
            let sn = match ServerName::try_from(dialed.clone()) {
                Ok(s) => s,
                Err(_) => continue,
            };
            let r1 = std::panic::catch_unwind(std::panic::AssertUnwindSafe(|| v.verify_server_cert(&cert, &[], &sn, &[], UnixTime::now())));
            let r2 = std::panic::catch_unwind(std::panic::AssertUnwindSafe(|| v.verify_tls13_signature(&msg, &cert, &dss)));
            let ok = matches!((&r1, &r2), (Ok(Ok(_)), Ok(Ok(_))));
            if r1.is_err() || r2.is_err() {
                run.oracle_fail(json!({"kind": "certificate verifier panicked", "cert": spec_s(&spec), "der": hex::encode(&cert)}));
            }
            let id = anemo::verif::crypto::peer_id_from_certificate(&cert).ok().and_then(|p| keys.index_of(&p));
            let out = if ok { format!("accept id={}", id.map(|k| k.to_string()).unwrap_or_else(|| "?".into())) } else { "reject".into() };
            let op = format!(
                "tls.client own={} pin={} dialed={} cert={} hs={}:{}",
                names_s(&own),
                pin.map(|p| p.to_string()).unwrap_or_else(|| "none".into()),
                hexs(dialed.as_bytes()),
                spec_s(&spec),
                hs_signer,
                alg_s(&hs_alg)
            );
            if ok && (id != Some(hs_signer) || pin.map(|p| Some(p) != id).unwrap_or(false)) {
                run.oracle_fail(json!({"kind": "dialer accepted a party whose key it did not prove, or another identity than the one expected", "ops": [op.clone()], "der": hex::encode(&cert)}));
            }
            // C14: the listener's certificate must be valid for the name dialed, and that name must be one of the dialer's own
            if ok && spec.corrupt.is_none() && !(spec.names.iter().any(|n| n.eq_ignore_ascii_case(&dialed)) && own.iter().any(|o| o.eq_ignore_ascii_case(&dialed))) {
                run.oracle_fail(json!({"kind": "dialer accepted a certificate that is not valid for the network name it dialed (or dialed with a name that is not its own)", "ops": [op.clone()], "certificate_names": spec.names.clone(), "dialed": dialed.clone(), "own_names": own.clone(), "pinned": pin.is_some()}));
            }
            run.count("client-verify", if ok { "accept" } else { "reject" });
            if spec.corrupt.is_none() {
                run.op(op, out, true);
            } else {
                run.eval(&op, true);
            }
        }
    }
}

// ------------------------------------------------------------------ adversary endpoints

#[derive(Debug)]
struct AcceptAnyServer;
impl rustls::client::danger::ServerCertVerifier for AcceptAnyServer {
    fn verify_server_cert(&self, _: &CertificateDer<'_>, _: &[CertificateDer<'_>], _: &ServerName<'_>, _: &[u8], _: UnixTime) -> Result<rustls::client::danger::ServerCertVerified, rustls::Error> {
        Ok(rustls::client::danger::ServerCertVerified::assertion())
    }
    fn verify_tls12_signature(&self, _: &[u8], _: &CertificateDer<'_>, _: &rustls::DigitallySignedStruct) -> Result<rustls::client::danger::HandshakeSignatureValid, rustls::Error> {
        Ok(rustls::client::danger::HandshakeSignatureValid::assertion())
    }
    fn verify_tls13_signature(&self, _: &[u8], _: &CertificateDer<'_>, _: &rustls::DigitallySignedStruct) -> Result<rustls::client::danger::HandshakeSignatureValid, rustls::Error> {
        Ok(rustls::client::danger::HandshakeSignatureValid::assertion())
    }
    fn supported_verify_schemes(&self) -> Vec<rustls::SignatureScheme> {
        provider().signature_verification_algorithms.supported_schemes()
    }
}

#[derive(Debug)]
struct AcceptAnyClient;
impl rustls::server::danger::ClientCertVerifier for AcceptAnyClient {
    fn root_hint_subjects(&self) -> &[rustls::DistinguishedName] {
        &[]
    }
    fn verify_client_cert(&self, _: &CertificateDer<'_>, _: &[CertificateDer<'_>], _: UnixTime) -> Result<rustls::server::danger::ClientCertVerified, rustls::Error> {
        Ok(rustls::server::danger::ClientCertVerified::assertion())
    }
    fn verify_tls12_signature(&self, _: &[u8], _: &CertificateDer<'_>, _: &rustls::DigitallySignedStruct) -> Result<rustls::client::danger::HandshakeSignatureValid, rustls::Error> {
        Ok(rustls::client::danger::HandshakeSignatureValid::assertion())
    }
    fn verify_tls13_signature(&self, _: &[u8], _: &CertificateDer<'_>, _: &rustls::DigitallySignedStruct) -> Result<rustls::client::danger::HandshakeSignatureValid, rustls::Error> {
        Ok(rustls::client::danger::HandshakeSignatureValid::assertion())
    }
    fn supported_verify_schemes(&self) -> Vec<rustls::SignatureScheme> {
        provider().signature_verification_algorithms.supported_schemes()
    }
    fn client_auth_mandatory(&self) -> bool {
        false
    }
}

#[derive(Debug)]
struct FixedClientCert(Option<Arc<rustls::sign::CertifiedKey>>);
impl rustls::client::ResolvesClientCert for FixedClientCert {
    fn resolve(&self, _: &[&[u8]], _: &[rustls::SignatureScheme]) -> Option<Arc<rustls::sign::CertifiedKey>> {
        self.0.clone()
    }
    fn has_certs(&self) -> bool {
        self.0.is_some()
    }
}

#[derive(Debug)]
struct FixedServerCert(Arc<rustls::sign::CertifiedKey>);
impl rustls::server::ResolvesServerCert for FixedServerCert {
    fn resolve(&self, _: rustls::server::ClientHello<'_>) -> Option<Arc<rustls::sign::CertifiedKey>> {
        Some(self.0.clone())
    }
}

/// a "key" that signs nothing: random bytes labelled with an arbitrary scheme, whatever the peer offered
#[derive(Debug)]
struct GarbageKey(rustls::SignatureScheme);
impl rustls::sign::SigningKey for GarbageKey {
    fn choose_scheme(&self, _offered: &[rustls::SignatureScheme]) -> Option<Box<dyn rustls::sign::Signer>> {
        Some(Box::new(GarbageKey(self.0)))
    }
    fn algorithm(&self) -> rustls::SignatureAlgorithm {
        rustls::SignatureAlgorithm::ED25519
    }
}
impl rustls::sign::Signer for GarbageKey {
    fn sign(&self, message: &[u8]) -> Result<Vec<u8>, rustls::Error> {
        let mut v = vec![0x30u8; 64];
        for (i, b) in message.iter().take(64).enumerate() {
            v[i] ^= *b;
        }
        Ok(v)
    }
    fn scheme(&self) -> rustls::SignatureScheme {
        self.0
    }
}

const GARBAGE_SCHEMES: [rustls::SignatureScheme; 5] = [
    rustls::SignatureScheme::ED25519,
    rustls::SignatureScheme::ECDSA_NISTP256_SHA256,
    rustls::SignatureScheme::RSA_PSS_SHA256,
    rustls::SignatureScheme::ED448,
    rustls::SignatureScheme::RSA_PKCS1_SHA256,
];

/// handshake-signature behaviour of the adversary: (model signer index, model alg, rustls key)
fn adversary_signer(rng: &mut Rng, keys: &Keys, honest_idx: usize) -> (usize, Alg, Arc<dyn rustls::sign::SigningKey>) {
    if rng.chance(1, 5) {
        let sch = *rng.pick(&GARBAGE_SCHEMES);
        // nobody's key: index 99
        (99, if sch == rustls::SignatureScheme::ED25519 { Alg::Ed25519 } else { Alg::Other }, Arc::new(GarbageKey(sch)))
    } else {
        (honest_idx, Alg::Ed25519, signing_key(keys, honest_idx, &Alg::Ed25519))
    }
}

/// the certificate list sent: the end-entity first, then (sometimes) further valid certificates of others
fn chain_of(rng: &mut Rng, keys: &Keys, first: CertificateDer<'static>) -> (Vec<CertificateDer<'static>>, usize) {
    let mut v = vec![first];
    let extra = if rng.chance(1, 3) { 1 + rng.below(2) as usize } else { 0 };
    for _ in 0..extra {
        let k = rng.below(keys.ed.len() as u64) as usize;
        v.push(identity(keys.ed[k], "verif").cert);
    }
    (v, extra)
}

fn signing_key(keys: &Keys, idx: usize, alg: &Alg) -> Arc<dyn rustls::sign::SigningKey> {
    let der: PrivateKeyDer<'static> = match alg {
        Alg::Ed25519 => ed_keypair(keys.ed[idx]).1,
        Alg::Other => PrivateKeyDer::Pkcs8(keys.p256[idx].serialize_der().into()),
    };
    rustls::crypto::ring::sign::any_supported_type(&der).unwrap()
}

/// (ii-a) the adversary dials an honest listener
fn adversary_dials(run: &mut Run, rng: &mut Rng, keys: &Keys, case: u64) -> anyhow::Result<()> {
    let seed = run.seed ^ (case << 8) ^ 0xAD;
    run.mark(&format!("scenario adversary_dials case {case} seed {} (re-run with ./check <property> --seed <seed>)", run.seed));
    let spec = {
        let mut s = gen_spec(rng, keys.ed.len(), &NAMES);
        if rng.chance(1, 3) {
            s = CertSpec { spki: s.spki, spki_alg: Alg::Ed25519, signer: s.spki, sig_alg: Alg::Ed25519, names: vec!["verif".into()], validity: 0, corrupt: None, serial_of: None };
        }
        s
    };
    let present_cert = !rng.chance(1, 10);
    let hs_idx = if rng.chance(1, 2) { spec.spki } else { rng.below(keys.ed.len() as u64) as usize };
    let (hs_signer, hs_alg, hs_key) = adversary_signer(rng, keys, hs_idx);
    let (primary, alternate): (String, Option<String>) = match rng.below(3) {
        0 => ("verif".into(), None),
        1 => ("verif".into(), Some("other".into())),
        _ => ("other".into(), Some("verif".into())),
    };
    let sni = (*rng.pick(&["verif", "verif", "other", "Verif", "verif2", "a.b", "10.0.0.1"])).to_string();
    let cert = build_cert(keys, &spec);
    let cert = match cert {
        Some(c) => c,
        None => return Ok(()),
    };
    let accepted: Vec<String> = std::iter::once(primary.clone()).chain(alternate.clone()).collect();
    let rt = paused_rt();
    let (prim2, alt2, sni2) = (primary.clone(), alternate.clone(), sni.clone());
    let (chain, extra) = chain_of(rng, keys, cert.clone());
    run.count("adversary-chain-extra-certs", &extra.to_string());
    let ck = Arc::new(rustls::sign::CertifiedKey::new(chain, hs_key));
    let victim_ids: Vec<PeerId> = keys.ids.clone();
    let res: anyhow::Result<(bool, Vec<PeerId>, Vec<String>, bool)> = rt.block_on(async move {
        let fabric = Fabric::new(seed);
        let l = start_node_with(&fabric, 1, key_of(seed, 1), &prim2, alt2.as_deref(), config_idle(30_000))?;
        let mut log = crate::peers::NodeLog::new(&l.net);
        let sock = fabric.socket(Fabric::addr(9));
        let ep = quinn::Endpoint::new_with_abstract_socket(quinn::EndpointConfig::default(), None, sock, Arc::new(quinn::TokioRuntime))?;
        let crypto = rustls::ClientConfig::builder_with_provider(provider())
            .with_protocol_versions(&[&rustls::version::TLS13])?
            .dangerous()
            .with_custom_certificate_verifier(Arc::new(AcceptAnyServer))
            .with_client_cert_resolver(Arc::new(FixedClientCert(if present_cert { Some(ck) } else { None })));
        let mut cc = quinn::ClientConfig::new(Arc::new(quinn::crypto::rustls::QuicClientConfig::try_from(crypto)?));
        cc.transport_config(transport());
        let mut got_ack = false;
        let mut keep = None;
        if let Ok(connecting) = ep.connect_with(cc, l.addr, &sni2) {
            if let Ok(Ok(conn)) = tokio::time::timeout(Duration::from_secs(15), connecting).await {
                keep = Some(conn.clone());
                if let Ok(Ok(mut uni)) = tokio::time::timeout(Duration::from_secs(5), conn.accept_uni()).await {
                    let mut b = [0u8; 8];
                    got_ack = uni.read_exact(&mut b).await.is_ok();
                }
                // try to be served
                if let Ok(Ok((mut s, _r))) = tokio::time::timeout(Duration::from_secs(2), conn.open_bi()).await {
                    let _ = s.write_all(b"anemo\x00\x01\x00").await;
                }
            }
        }
        tokio::time::sleep(Duration::from_secs(2)).await;
        log.pump();
        let listed = l.net.peers();
        let evs: Vec<String> = log.events.iter().map(crate::peers::ev_str).collect();
        let handled_as_victim = l.svc.log.lock().unwrap().invocations.iter().any(|i| i.peer.map(|p| victim_ids.contains(&p)).unwrap_or(false));
        drop(keep);
        Ok((got_ack, listed, evs, handled_as_victim))
    });
    drop(rt);
    let (got_ack, listed, evs, _handled) = res?;
    let admitted: Option<usize> = listed.first().and_then(|p| keys.index_of(p));
    let out = match (listed.is_empty(), admitted) {
        (true, _) => "reject".to_string(),
        (false, Some(k)) => format!("accept id={k}"),
        (false, None) => "accept id=?".into(),
    };
    let cert_s = if present_cert { spec_s(&spec) } else { "none".into() };
    let op = format!("tls.server accepted={} sni={} cert={} hs={}:{}", names_s(&accepted), hexs(sni.as_bytes()), cert_s, hs_signer, alg_s(&hs_alg));
    // the adversary holds exactly the key it signs the handshake with
    if !listed.is_empty() && admitted != Some(hs_signer) {
        run.oracle_fail(json!({"kind": "listener admitted / listed a dialer under an identity whose private key the dialer does not hold", "ops": [op.clone()], "listed": listed.iter().map(pid_hex).collect::<Vec<_>>(), "events": evs, "der": hex::encode(&cert)}));
    }
    if !listed.is_empty() {
        let eq = |a: &str, b: &str| a.eq_ignore_ascii_case(b);
        let sni_ok = accepted.iter().any(|a| eq(a, &sni));
        let cert_ok = present_cert && (spec.corrupt.is_some() || spec.names.iter().any(|n| accepted.iter().any(|a| eq(a, n))));
        if !sni_ok || !cert_ok {
            run.oracle_fail(json!({"kind": "listener admitted a dialer whose claimed network name it does not accept, or whose certificate is not valid for an accepted name", "ops": [op.clone()],
                "accepted": accepted, "claimed": sni, "certificate_names": spec.names, "der": hex::encode(&cert)}));
        }
    }
    if listed.is_empty() && (got_ack || !evs.is_empty()) {
        run.oracle_fail(json!({"kind": "a rejected dialer was acknowledged or announced", "ops": [op.clone()], "got_ack": got_ack, "events": evs}));
    }
    run.count("adversary-dials", if listed.is_empty() { "rejected" } else { "admitted" });
    if spec.corrupt.is_none() || !present_cert {
        run.op(op, out, true);
    } else {
        run.eval(&op, true);
    }
    Ok(())
}

/// (ii-b) an honest network dials an address where the adversary listens
fn adversary_listens(run: &mut Run, rng: &mut Rng, keys: &Keys, case: u64) -> anyhow::Result<()> {
    let seed = run.seed ^ (case << 8) ^ 0xA1;
    run.mark(&format!("scenario adversary_listens case {case} seed {} (re-run with ./check <property> --seed <seed>)", run.seed));
    let mut spec = gen_spec(rng, keys.ed.len(), &["verif", "Verif", "other"]);
    if rng.chance(1, 3) {
        spec = CertSpec { spki: spec.spki, spki_alg: Alg::Ed25519, signer: spec.spki, sig_alg: Alg::Ed25519, names: vec!["verif".into()], validity: 0, corrupt: None, serial_of: None };
    }
    let hs_idx = if rng.chance(1, 2) { spec.spki } else { rng.below(keys.ed.len() as u64) as usize };
    let (hs_signer, hs_alg, hs_key) = adversary_signer(rng, keys, hs_idx);
    let pin: Option<usize> = match rng.below(3) {
        0 => None,
        1 => Some(spec.spki),
        _ => Some(rng.below(keys.ed.len() as u64) as usize),
    };
    let cert = match build_cert(keys, &spec) {
        Some(c) => c,
        None => return Ok(()),
    };
    let (chain, extra) = chain_of(rng, keys, cert.clone());
    run.count("adversary-chain-extra-certs", &extra.to_string());
    let ck = Arc::new(rustls::sign::CertifiedKey::new(chain, hs_key));
    let pin_id = pin.map(|p| keys.ids[p]);
    let rt = paused_rt();
    let res: anyhow::Result<(Result<PeerId, String>, Vec<PeerId>, Vec<String>)> = rt.block_on(async move {
        let fabric = Fabric::new(seed);
        let d = start_node_with(&fabric, 1, key_of(seed, 1), "verif", None, config_idle(30_000))?;
        let mut log = crate::peers::NodeLog::new(&d.net);
        let sock = fabric.socket(Fabric::addr(9));
        let crypto = rustls::ServerConfig::builder_with_provider(provider())
            .with_protocol_versions(&[&rustls::version::TLS13])?
            .with_client_cert_verifier(Arc::new(AcceptAnyClient))
            .with_cert_resolver(Arc::new(FixedServerCert(ck)));
        let mut sc = quinn::ServerConfig::with_crypto(Arc::new(quinn::crypto::rustls::QuicServerConfig::try_from(crypto)?));
        sc.transport = transport();
        let ep = quinn::Endpoint::new_with_abstract_socket(quinn::EndpointConfig::default(), Some(sc), sock, Arc::new(quinn::TokioRuntime))?;
        let adv = tokio::spawn(async move {
            // answer like a listener: complete TLS, send the ack, keep the connection
            if let Some(inc) = ep.accept().await {
                if let Ok(conn) = inc.await {
                    if let Ok(mut u) = conn.open_uni().await {
                        let _ = u.write_all(b"anemo\x00\x01\x00").await;
                        let _ = u.finish();
                        let _ = u.stopped().await;
                    }
                    tokio::time::sleep(Duration::from_secs(5)).await;
                }
            }
        });
        let r = match pin_id {
            Some(p) => tokio::time::timeout(Duration::from_secs(20), d.net.connect_with_peer_id(Fabric::addr(9), p)).await,
            None => tokio::time::timeout(Duration::from_secs(20), d.net.connect(Fabric::addr(9))).await,
        };
        let r = match r {
            Err(_) => Err("hang".to_string()),
            Ok(Err(e)) => Err(format!("{e:#}")),
            Ok(Ok(p)) => Ok(p),
        };
        // at the instant connect returns Ok the party must already be in the connected set
        let listed_now = d.net.peers();
        tokio::time::sleep(Duration::from_secs(1)).await;
        log.pump();
        adv.abort();
        Ok((r, listed_now, log.events.iter().map(crate::peers::ev_str).collect()))
    });
    drop(rt);
    let (r, listed_now, evs) = res?;
    let out = match &r {
        Ok(p) => format!("accept id={}", keys.index_of(p).map(|k| k.to_string()).unwrap_or_else(|| "?".into())),
        Err(_) => "reject".into(),
    };
    let op = format!(
        "tls.client own={} pin={} dialed={} cert={} hs={}:{}",
        names_s(&["verif".to_string()]),
        pin.map(|p| p.to_string()).unwrap_or_else(|| "none".into()),
        hexs(b"verif"),
        spec_s(&spec),
        hs_signer,
        alg_s(&hs_alg)
    );
    match &r {
        Ok(p) => {
            let k = keys.index_of(p);
            if k != Some(hs_signer) {
                run.oracle_fail(json!({"kind": "a dial succeeded although the party reached does not hold the private key of the identity returned", "ops": [op.clone()], "returned": pid_hex(p), "der": hex::encode(&cert)}));
            }
            if let Some(pn) = pin {
                if k != Some(pn) {
                    run.oracle_fail(json!({"kind": "a dial naming the identity it expects returned another identity", "ops": [op.clone()], "returned": pid_hex(p), "expected": pn}));
                }
            }
            if !listed_now.contains(p) && !evs.iter().any(|e| e.starts_with("new:")) {
                run.oracle_fail(json!({"kind": "connect returned Ok but the party was never in the caller's connected set", "ops": [op.clone()]}));
            }
        }
        Err(e) if e == "hang" => run.oracle_fail(json!({"kind": "a dial neither succeeded nor failed", "ops": [op.clone()]})),
        Err(_) => {
            if !listed_now.is_empty() || !evs.is_empty() {
                run.oracle_fail(json!({"kind": "a failed dial left the other party listed or announced", "ops": [op.clone()], "events": evs}));
            }
        }
    }
    run.count("adversary-listens", if r.is_ok() { "dial-ok" } else { "dial-failed" });
    if spec.corrupt.is_none() {
        run.op(op, out, true);
    } else {
        run.eval(&op, true);
    }
    Ok(())
}

/// (iii) honest endpoints with (primary, alternate?) name configurations, both directions, pinned or not
fn honest_names(run: &mut Run, rng: &mut Rng, case: u64) -> anyhow::Result<()> {
    let seed = run.seed ^ (case << 8) ^ 0x14;
    run.mark(&format!("scenario honest_names case {case} seed {} (re-run with ./check <property> --seed <seed>)", run.seed));
    let pool = ["verif", "Verif", "other", "a.b", "A.B", "net-1", "verif2"];
    let cfgs: Vec<(String, Option<String>)> = (0..2)
        .map(|_| {
            let p = (*rng.pick(&pool)).to_string();
            let a = if rng.chance(1, 2) { Some((*rng.pick(&pool)).to_string()) } else { None };
            (p, a)
        })
        .collect();
    let mut cfgs = cfgs;
    if rng.chance(1, 3) {
        cfgs[1].0 = cfgs[0].0.clone();
    } else if rng.chance(1, 3) {
        cfgs[1].1 = Some(cfgs[0].0.clone());
    }
    let pin_mode = rng.below(3); // 0 none, 1 right, 2 wrong
    let c2 = cfgs.clone();
    let rt = paused_rt();
    let res: anyhow::Result<Vec<(usize, usize, Result<PeerId, String>, PeerId, PeerId, Vec<PeerId>, Vec<PeerId>)>> = rt.block_on(async move {
        let mut out = vec![];
        for (di, li) in [(0usize, 1usize), (1, 0)] {
            let fabric = Fabric::new(seed ^ di as u64);
            let n0 = start_node_with(&fabric, 1, key_of(seed, 1), &c2[0].0, c2[0].1.as_deref(), config_idle(30_000))?;
            let n1 = start_node_with(&fabric, 2, key_of(seed, 2), &c2[1].0, c2[1].1.as_deref(), config_idle(30_000))?;
            let nodes = [&n0, &n1];
            let (d, l) = (nodes[di], nodes[li]);
            let r = match pin_mode {
                0 => tokio::time::timeout(Duration::from_secs(30), d.net.connect(l.addr)).await,
                1 => tokio::time::timeout(Duration::from_secs(30), d.net.connect_with_peer_id(l.addr, l.id)).await,
                _ => tokio::time::timeout(Duration::from_secs(30), d.net.connect_with_peer_id(l.addr, d.id)).await,
            };
            let r = match r {
                Err(_) => Err("hang".to_string()),
                Ok(Err(e)) => Err(format!("{e:#}")),
                Ok(Ok(p)) => Ok(p),
            };
            tokio::time::sleep(Duration::from_secs(1)).await;
            out.push((di, li, r, d.id, l.id, d.net.peers(), l.net.peers()));
        }
        Ok(out)
    });
    drop(rt);
    for (di, li, r, d_id, l_id, d_peers, l_peers) in res? {
        let ep = |c: &(String, Option<String>)| match &c.1 {
            Some(a) => format!("{}/{}", hexs(c.0.as_bytes()), hexs(a.as_bytes())),
            None => hexs(c.0.as_bytes()),
        };
        let (kd, kl) = (di + 1, li + 1);
        let pin = match pin_mode {
            0 => "none".to_string(),
            1 => kl.to_string(),
            _ => kd.to_string(),
        };
        let op = format!("tls.connect d={} kd={kd} l={} kl={kl} pin={pin}", ep(&cfgs[di]), ep(&cfgs[li]));
        let out = match &r {
            Ok(p) => format!("connect listener-sees={} dialer-sees={}", if l_peers.contains(&d_id) { kd.to_string() } else { "?".into() }, if *p == l_id { kl.to_string() } else { "?".into() }),
            Err(_) => "none".into(),
        };
        // property oracle: connect only if the dialer's primary name is accepted by the listener (DNS-name equality)
        let eq = |a: &str, b: &str| a.eq_ignore_ascii_case(b);
        let accepted = eq(&cfgs[di].0, &cfgs[li].0) || cfgs[li].1.as_deref().map(|a| eq(&cfgs[di].0, a)).unwrap_or(false);
        let should = accepted && pin_mode != 2;
        if r.is_ok() != should {
            run.oracle_fail(json!({"kind": if r.is_ok() { "endpoints of different networks (or with a wrong expected identity) connected" } else { "endpoints of the same network failed to connect" }, "ops": [op.clone()],
                "dialer": format!("{:?}", cfgs[di]), "listener": format!("{:?}", cfgs[li]), "error": r.as_ref().err()}));
        }
        if r.is_err() && (!d_peers.is_empty() || !l_peers.is_empty()) {
            run.oracle_fail(json!({"kind": "a failed connect left a peer listed", "ops": [op.clone()]}));
        }
        run.count("honest-names", if r.is_ok() { "connected" } else { "refused" });
        run.op(op, out, true);
    }
    Ok(())
}


/// C01, last sentence: the PeerId on a request / response is the authenticated one whatever the message carries
fn message_attribution(run: &mut Run, rng: &mut Rng, case: u64) -> anyhow::Result<()> {
    let seed = run.seed ^ (case << 8) ^ 0xA7;
    run.mark(&format!("scenario message_attribution case {case} seed {} (re-run with ./check <property> --seed <seed>)", run.seed));
    let n_msgs = 6;
    let mut plans = vec![];
    for _ in 0..n_msgs {
        let from = rng.below(3) as usize;
        let to = (from + 1 + rng.below(2) as usize) % 3;
        let claimed = rng.below(3) as usize; // identity the message *claims* in headers/body
        let hdr = (*rng.pick(&["peer-id", "peer_id", "x-peer-id", "from", "origin", "authorization", "x-forwarded-for"])).to_string();
        plans.push((from, to, claimed, hdr, rng.chance(1, 2)));
    }
    let plans2 = plans.clone();
    let rt = paused_rt();
    let res: anyhow::Result<Vec<(usize, usize, usize, Option<PeerId>, Option<PeerId>, [PeerId; 3])>> = rt.block_on(async move {
        let fabric = Fabric::new(seed);
        let nodes: Vec<Node> = (0..3).map(|i| start_node(&fabric, seed, 1 + i as u16, config_idle(30_000))).collect::<anyhow::Result<_>>()?;
        let ids = [nodes[0].id, nodes[1].id, nodes[2].id];
        for i in 0..3 {
            for j in (i + 1)..3 {
                nodes[i].net.connect_with_peer_id(nodes[j].addr, nodes[j].id).await?;
            }
        }
        tokio::time::sleep(Duration::from_millis(200)).await;
        let mut out = vec![];
        for (k, (from, to, claimed, hdr, in_body)) in plans2.iter().enumerate() {
            let body = if *in_body { ids[*claimed].0.to_vec() } else { format!("peer_id={}", pid_hex(&ids[*claimed])).into_bytes() };
            let mut req = anemo::Request::new(bytes::Bytes::from(body)).with_route("/attr");
            let xid = format!("m{k}");
            req.headers_mut().insert("x-id".into(), xid.clone());
            req.headers_mut().insert(hdr.clone(), pid_hex(&ids[*claimed]));
            // the sender even puts a PeerId into the request's local extensions
            req.extensions_mut().insert(ids[*claimed]);
            let r = tokio::time::timeout(Duration::from_secs(20), nodes[*from].net.rpc(ids[*to], req)).await;
            let resp_peer = match r {
                Ok(Ok(resp)) => resp.peer_id().copied(),
                _ => None,
            };
            let seen = nodes[*to].svc.log.lock().unwrap().invocations.iter().find(|i| i.id == xid).and_then(|i| i.peer);
            out.push((*from, *to, *claimed, seen, resp_peer, ids));
        }
        Ok(out)
    });
    drop(rt);
    for (from, to, claimed, seen, resp_peer, ids) in res? {
        if seen != Some(ids[from]) || resp_peer != Some(ids[to]) {
            run.oracle_fail(json!({"kind": "the PeerId attributed to a request/response is not the authenticated identity of the connection it arrived on",
                "sender": from, "callee": to, "claimed_in_message": claimed,
                "handler_saw": seen.map(|p| pid_hex(&p)), "caller_saw": resp_peer.map(|p| pid_hex(&p)), "ids": ids.iter().map(pid_hex).collect::<Vec<_>>()}));
        }
        run.count("message-attribution", if claimed == from { "claims-self" } else { "claims-other" });
        run.eval(&format!("attr{from}{to}{claimed}"), true);
    }
    Ok(())
}

/// C03: histories of pinned / unpinned dials among honest nodes and an impostor replaying a victim's
/// certificate, with datagram loss and concurrent dials
fn pinned_history(run: &mut Run, rng: &mut Rng, keys: &Keys, case: u64) -> anyhow::Result<()> {
    let seed = run.seed ^ (case << 8) ^ 0x03;
    run.mark(&format!("scenario pinned_history case {case} seed {} (re-run with ./check <property> --seed <seed>)", run.seed));
    let loss = *rng.pick(&[0u64, 0, 0, 50, 150, 300]);
    // addresses 1..=3 honest nodes (keys 1..3); address 9: impostor holding key index `imp` of `keys`,
    // presenting [victim cert] or [own cert, victim cert] chains
    let n_dials = 2 + rng.below(5) as usize;
    let mut dials = vec![];
    for _ in 0..n_dials {
        let from = rng.below(3) as usize;
        let target_addr = if rng.chance(1, 4) { 3usize } else { (from + 1 + rng.below(2) as usize) % 3 }; // 3 = impostor
        let pin: Option<usize> = match rng.below(4) {
            0 => None,
            1 | 2 => Some(if target_addr == 3 { (from + 1) % 3 } else { target_addr }), // the "right"/victim identity
            _ => Some(rng.below(3) as usize),
        };
        dials.push((from, target_addr, pin, rng.chance(1, 3)));
    }
    let chain_mode = rng.below(3);
    let dials2 = dials.clone();
    let adv_key = signing_key(keys, 0, &Alg::Ed25519);
    let adv_own = build_cert(keys, &CertSpec { spki: 0, spki_alg: Alg::Ed25519, signer: 0, sig_alg: Alg::Ed25519, names: vec!["verif".into()], validity: 0, corrupt: None, serial_of: None }).unwrap();
    let rt = paused_rt();
    type R = (usize, usize, Option<usize>, Result<PeerId, String>, bool);
    let res: anyhow::Result<(Vec<R>, Vec<PeerId>, Vec<Vec<PeerId>>, Vec<Vec<String>>, Vec<usize>, u64)> = rt.block_on(async move {
        let fabric = Fabric::new(seed);
        let nodes: Vec<Node> = (0..3).map(|i| start_node(&fabric, seed, 1 + i as u16, config_idle(10_000))).collect::<anyhow::Result<_>>()?;
        let ids: Vec<PeerId> = nodes.iter().map(|n| n.id).collect();
        let mut logs: Vec<crate::peers::NodeLog> = nodes.iter().map(|n| crate::peers::NodeLog::new(&n.net)).collect();
        // the impostor replays node-1's (victim) real certificate
        let victim_cert = identity(nodes[1].key, "verif").cert;
        let chain = match chain_mode {
            0 => vec![victim_cert.clone()],
            1 => vec![adv_own.clone(), victim_cert.clone()],
            _ => vec![victim_cert.clone(), adv_own.clone()],
        };
        let ck = Arc::new(rustls::sign::CertifiedKey::new(chain, adv_key));
        let crypto = rustls::ServerConfig::builder_with_provider(provider())
            .with_protocol_versions(&[&rustls::version::TLS13])?
            .with_client_cert_verifier(Arc::new(AcceptAnyClient))
            .with_cert_resolver(Arc::new(FixedServerCert(ck)));
        let mut sc = quinn::ServerConfig::with_crypto(Arc::new(quinn::crypto::rustls::QuicServerConfig::try_from(crypto)?));
        sc.transport = transport();
        let ep = quinn::Endpoint::new_with_abstract_socket(quinn::EndpointConfig::default(), Some(sc), fabric.socket(Fabric::addr(9)), Arc::new(quinn::TokioRuntime))?;
        let served = Arc::new(std::sync::atomic::AtomicU64::new(0));
        let served2 = served.clone();
        let adv = tokio::spawn(async move {
            while let Some(inc) = ep.accept().await {
                let served = served2.clone();
                tokio::spawn(async move {
                    if let Ok(conn) = inc.await {
                        if let Ok(mut u) = conn.open_uni().await {
                            let _ = u.write_all(b"anemo\x00\x01\x00").await;
                            let _ = u.finish();
                        }
                        // would the honest side serve or call us?
                        if let Ok(Ok(_)) = tokio::time::timeout(Duration::from_secs(5), conn.accept_bi()).await {
                            served.fetch_add(1, std::sync::atomic::Ordering::SeqCst);
                        }
                    }
                });
            }
        });
        fabric.set_faults(crate::fabric::Faults { loss_permille: loss, ..Default::default() });
        let mut results: Vec<R> = vec![];
        let mut pending = vec![];
        for (from, ta, pin, concurrent) in dials2.iter().cloned() {
            let addr = if ta == 3 { Fabric::addr(9) } else { nodes[ta].addr };
            let net = nodes[from].net.clone();
            let pin_id = pin.map(|p| ids[p]);
            let fut = async move {
                let r = match pin_id {
                    Some(p) => tokio::time::timeout(Duration::from_secs(60), net.connect_with_peer_id(addr, p)).await,
                    None => tokio::time::timeout(Duration::from_secs(60), net.connect(addr)).await,
                };
                let r = match r {
                    Err(_) => Err("hang".to_string()),
                    Ok(Err(e)) => Err(format!("{e:#}")),
                    Ok(Ok(p)) => Ok(p),
                };
                let listed = r.as_ref().map(|p| net.peers().contains(p)).unwrap_or(false);
                (from, ta, pin, r, listed)
            };
            if concurrent {
                pending.push(tokio::spawn(fut));
            } else {
                results.push(fut.await);
            }
        }
        for p in pending {
            results.push(p.await?);
        }
        fabric.set_faults(crate::fabric::Faults::default());
        tokio::time::sleep(Duration::from_secs(12)).await;
        let mut evs = vec![];
        for l in logs.iter_mut() {
            l.pump();
            evs.push(l.events.iter().map(crate::peers::ev_str).collect::<Vec<_>>());
        }
        let peers: Vec<Vec<PeerId>> = nodes.iter().map(|n| n.net.peers()).collect();
        let handled: Vec<usize> = nodes.iter().map(|n| n.svc.log.lock().unwrap().invocations.len()).collect();
        adv.abort();
        Ok((results, ids, peers, evs, handled, served.load(std::sync::atomic::Ordering::SeqCst)))
    });
    drop(rt);
    let (results, mut ids, peers, evs, handled, served) = res?;
    // index 3: the adversary's own identity (it does hold that key): reachable only by an unpinned dial
    // and only when it presents its own certificate first (chain mode 1)
    ids.push(keys.ids[0]);
    let hist = json!({"loss_permille": loss, "chain_mode": chain_mode, "dials": dials.iter().map(|d| format!("{:?}", d)).collect::<Vec<_>>()});
    // which unordered honest pairs had a successful dial
    let mut linked = std::collections::BTreeSet::new();
    for (from, ta, pin, r, listed_at_return) in &results {
        let holder: Option<usize> = if *ta == 3 { if chain_mode == 1 { Some(3) } else { None } } else { Some(*ta) };
        // under loss a dial of the *right* identity may fail at the dialer after the listener registered it
        // (half-open until the idle timeout): only dials of a wrong identity stay strict there
        if loss > 0 && holder.is_some() && pin.map(|p| Some(p) == holder).unwrap_or(true) {
            let h = holder.unwrap();
            linked.insert((*from.min(&h), *from.max(&h)));
        }
        match r {
            Ok(p) => {
                let k = ids.iter().position(|x| x == p);
                if k != holder || holder.is_none() {
                    run.oracle_fail(json!({"kind": "a dial returned an identity other than that of the party actually reached (or succeeded against an impostor)", "history": hist.clone(), "dial": [from, ta], "returned": pid_hex(p)}));
                }
                if let Some(pn) = pin {
                    if k != Some(*pn) {
                        run.oracle_fail(json!({"kind": "a dial naming the identity it expects returned another identity", "history": hist.clone(), "dial": [from, ta], "expected": pn, "returned": pid_hex(p)}));
                    }
                }
                let announced = evs[*from].iter().any(|e| *e == format!("new:{}", pid_hex(p)));
                if !listed_at_return && !announced {
                    run.oracle_fail(json!({"kind": "connect returned Ok but the party was never in the caller's connected set", "history": hist.clone(), "dial": [from, ta]}));
                }
                if let Some(h) = holder {
                    linked.insert((*from.min(&h), *from.max(&h)));
                }
            }
            Err(e) => {
                if e == "hang" {
                    run.oracle_fail(json!({"kind": "a dial neither succeeded nor failed within 60 s", "history": hist.clone(), "dial": [from, ta]}));
                }
                let should_succeed = loss == 0 && holder.is_some() && pin.map(|p| Some(p) == holder).unwrap_or(true);
                if should_succeed {
                    run.oracle_fail(json!({"kind": "a dial of the right identity on a fault-free network failed", "history": hist.clone(), "dial": [from, ta], "error": e}));
                }
            }
        }
        run.count("pinned-dial", match (r.is_ok(), *ta == 3, pin.is_some()) {
            (true, _, true) => "ok-pinned",
            (true, _, false) => "ok-unpinned",
            (false, true, _) => "refused-impostor",
            (false, false, true) => "refused-pinned",
            (false, false, false) => "failed-unpinned",
        });
        // model line (fault-free honest dials only; the impostor case is the tls.client line family)
        if loss == 0 && *ta != 3 {
            let op = format!("tls.connect d={} kd={} l={} kl={} pin={}", hexs(b"verif"), from + 1, hexs(b"verif"), ta + 1, pin.map(|p| (p + 1).to_string()).unwrap_or_else(|| "none".into()));
            let out = match r {
                Ok(_) => format!("connect listener-sees={} dialer-sees={}", from + 1, ta + 1),
                Err(_) => "none".into(),
            };
            run.op(op, out, true);
        } else {
            run.eval(&format!("{from}{ta}{pin:?}{loss}"), true);
        }
    }
    // nobody lists / announces / serves anybody because of a failed dial: listings and announcements only
    // between pairs with a successful dial; nobody ever lists or announces an id that is not one of the three
    // honest ids reached honestly; the impostor is never served
    for i in 0..3 {
        for p in &peers[i] {
            let k = ids.iter().position(|x| x == p);
            let ok = k.map(|k| linked.contains(&(i.min(k), i.max(k)))).unwrap_or(false);
            if !ok {
                run.oracle_fail(json!({"kind": "a node lists a party no successful dial connected it to", "history": hist.clone(), "node": i, "lists": pid_hex(p)}));
            }
        }
        for e in &evs[i] {
            if let Some(h) = e.strip_prefix("new:") {
                let k = ids.iter().position(|x| pid_hex(x) == h);
                let ok = k.map(|k| linked.contains(&(i.min(k), i.max(k)))).unwrap_or(false);
                if !ok {
                    run.oracle_fail(json!({"kind": "a node announced a party no successful dial connected it to", "history": hist.clone(), "node": i, "event": e}));
                }
            }
        }
        if handled[i] != 0 {
            run.oracle_fail(json!({"kind": "a handler was invoked although nobody sent a request", "history": hist.clone(), "node": i}));
        }
    }
    if served > 0 && !linked.iter().any(|(_, b)| *b == 3) {
        run.oracle_fail(json!({"kind": "an honest node opened a request stream to the impostor", "history": hist.clone()}));
    }
    Ok(())
}

/// C03, last sentence, on a node that is at its configured connection limit: explicit outbound dials
/// are not subject to the limit, so a dial that returns Ok must have put the party into the connected set
fn dial_at_limit(run: &mut Run, rng: &mut Rng, case: u64) -> anyhow::Result<()> {
    let seed = run.seed ^ (case << 8) ^ 0x31;
    run.mark(&format!("scenario dial_at_limit case {case} seed {}", run.seed));
    let limit = 1 + rng.below(2) as usize;
    let n_targets = limit + 1 + rng.below(2) as usize;
    let pinned = rng.chance(1, 2);
    let rt = paused_rt();
    let res: anyhow::Result<Vec<(usize, Result<PeerId, String>, bool, bool, PeerId)>> = rt.block_on(async move {
        let fabric = Fabric::new(seed);
        let mut cfg = config_idle(30_000);
        cfg.max_concurrent_connections = Some(limit);
        let d = start_node_with(&fabric, 1, key_of(seed, 1), "verif", None, cfg)?;
        let mut log = crate::peers::NodeLog::new(&d.net);
        let mut out = vec![];
        let mut targets = vec![];
        for i in 0..n_targets {
            targets.push(start_node(&fabric, seed, 2 + i as u16, config_idle(30_000))?);
        }
        for (i, t) in targets.iter().enumerate() {
            let r = if pinned { tokio::time::timeout(Duration::from_secs(30), d.net.connect_with_peer_id(t.addr, t.id)).await } else { tokio::time::timeout(Duration::from_secs(30), d.net.connect(t.addr)).await };
            let r = match r {
                Err(_) => Err("hang".to_string()),
                Ok(Err(e)) => Err(format!("{e:#}")),
                Ok(Ok(p)) => Ok(p),
            };
            let listed = d.net.peers().contains(&t.id);
            log.pump();
            let announced = log.events.iter().any(|e| matches!(e, anemo::types::PeerEvent::NewPeer(p) if *p == t.id));
            out.push((i, r, listed, announced, t.id));
            tokio::time::sleep(Duration::from_millis(150)).await;
        }
        Ok(out)
    });
    drop(rt);
    for (i, r, listed, announced, tid) in res? {
        match &r {
            Ok(p) => {
                if *p != tid || (!listed && !announced) {
                    run.oracle_fail(json!({"kind": "connect returned Ok but the party was never in the caller's connected set", "scenario": "dialer at its connection limit", "limit": limit, "dial_index": i, "listed": listed, "announced": announced}));
                }
            }
            Err(e) => run.oracle_fail(json!({"kind": "an explicit outbound dial on a fault-free network failed (outbound dials are not subject to the connection limit)", "limit": limit, "dial_index": i, "error": e})),
        }
        run.count("dial-at-limit", if i >= limit { "beyond-limit" } else { "below-limit" });
        run.eval(&format!("dal{limit}{i}{pinned}"), true);
    }
    Ok(())
}

/// the boundary input of C03's third clause: the party answering at the dialled address is the caller itself
fn self_dial(run: &mut Run, case: u64) -> anyhow::Result<()> {
    let seed = run.seed ^ (case << 8) ^ 0x5e1f;
    run.mark(&format!("scenario self_dial case {case} seed {}", run.seed));
    let pinned = case % 2 == 1;
    let rt = paused_rt();
    let res: anyhow::Result<(Result<PeerId, String>, bool, bool, PeerId, bool)> = rt.block_on(async move {
        let fabric = Fabric::new(seed);
        let d = start_node(&fabric, seed, 1, config_idle(30_000))?;
        let other = start_node(&fabric, seed, 2, config_idle(30_000))?;
        let mut log = crate::peers::NodeLog::new(&d.net);
        if case % 4 >= 2 {
            d.net.connect(other.addr).await?;
        }
        let r = if pinned { tokio::time::timeout(Duration::from_secs(30), d.net.connect_with_peer_id(d.addr, d.id)).await } else { tokio::time::timeout(Duration::from_secs(30), d.net.connect(d.addr)).await };
        let r = match r {
            Err(_) => Err("hang".to_string()),
            Ok(Err(e)) => Err(format!("{e:#}")),
            Ok(Ok(p)) => Ok(p),
        };
        tokio::time::sleep(Duration::from_millis(500)).await;
        let listed = d.net.peers().contains(&d.id);
        log.pump();
        let announced = log.events.iter().any(|e| matches!(e, anemo::types::PeerEvent::NewPeer(p) if *p == d.id));
        let rpc_ok = match &r {
            Ok(p) => tokio::time::timeout(Duration::from_secs(10), d.net.rpc(*p, anemo::Request::new(bytes::Bytes::from_static(b"me")).with_header("x-id", "self"))).await.map(|x| x.is_ok()).unwrap_or(false),
            Err(_) => false,
        };
        Ok((r, listed, announced, d.id, rpc_ok))
    });
    drop(rt);
    let (r, listed, announced, own, rpc_ok) = res?;
    run.eval(&format!("self-dial {case}"), true);
    run.count("self-dial", if r.is_ok() { "ok" } else { "refused" });
    if let Ok(p) = &r {
        // ("in the connected set at some instant before the call returns": listed now, or announced by NewPeer;
        // the two ends of a self-connection are one QUIC connection, so the tie-break's close ends both)
        let _ = rpc_ok;
        if *p != own || (!listed && !announced) {
            run.oracle_fail(json!({"kind": "connect returned Ok but the party returned is not in the caller's connected set", "scenario": "the caller dials its own address", "pinned": pinned,
                "returned_own_identity": *p == own, "listed": listed, "announced": announced, "rpc_to_returned_party_ok": rpc_ok}));
        }
    }
    Ok(())
}

fn common(run: &mut Run, which: &str) -> anyhow::Result<()> {
    crate::streams::install_panic_counter();
    let mut rng = Rng::new(run.seed);
    let keys = Keys::new(run.seed, 4);
    let q = run.quick();
    match which {
        "C01" => {
            unit_level(run, &mut rng, &keys, if q { 1500 } else { 100_000 });
            for i in 0..(if q { 60 } else { 2500 }) {
                adversary_dials(run, &mut rng, &keys, i)?;
            }
            for i in 0..(if q { 40 } else { 1500 }) {
                adversary_listens(run, &mut rng, &keys, 10_000 + i)?;
            }
            for i in 0..(if q { 10 } else { 400 }) {
                message_attribution(run, &mut rng, 60_000 + i)?;
            }
            // every single-byte mutation class of one valid certificate (sampled in quick)
            let base = CertSpec { spki: 0, spki_alg: Alg::Ed25519, signer: 0, sig_alg: Alg::Ed25519, names: vec!["verif".into()], validity: 0, corrupt: None, serial_of: None };
            let der_len = build_cert(&keys, &base).map(|c| c.len()).unwrap_or(300) as u64;
            let step = if q { 7 } else { 1 };
            let mut accepted_mut = 0u64;
            let mut c = 1u64;
            while c < der_len * 8 {
                if c % 5 != 0 {
                    let mut s = base.clone();
                    s.corrupt = Some(c);
                    if let Some(cert) = build_cert(&keys, &s) {
                        let v = anemo::verif::crypto::client_cert_verifier(vec!["verif".into()]);
                        let ok = std::panic::catch_unwind(std::panic::AssertUnwindSafe(|| v.verify_client_cert(&cert, &[], UnixTime::now()).is_ok()));
                        match ok {
                            Err(_) => run.oracle_fail(json!({"kind": "certificate verifier panicked on a mutated certificate", "der": hex::encode(&cert)})),
                            Ok(true) => {
                                accepted_mut += 1;
                                let id = anemo::verif::crypto::peer_id_from_certificate(&cert).ok();
                                if id != Some(keys.ids[0]) {
                                    run.oracle_fail(json!({"kind": "a mutated certificate was accepted under another identity", "der": hex::encode(&cert)}));
                                }
                            }
                            Ok(false) => {}
                        }
                        run.eval(&format!("mut{c}"), true);
                    }
                }
                c += step;
            }
            run.extra.insert("single_bit_mutations_accepted_with_same_identity".into(), json!(accepted_mut));
        }
        "C03" => {
            unit_level(run, &mut rng, &keys, if q { 600 } else { 30_000 });
            for i in 0..(if q { 90 } else { 4000 }) {
                adversary_listens(run, &mut rng, &keys, 20_000 + i)?;
            }
            for i in 0..(if q { 30 } else { 1000 }) {
                honest_names(run, &mut rng, 30_000 + i)?;
            }
            for i in 0..(if q { 40 } else { 2000 }) {
                pinned_history(run, &mut rng, &keys, 70_000 + i)?;
            }
            for i in 0..(if q { 12 } else { 300 }) {
                dial_at_limit(run, &mut rng, 80_000 + i)?;
            }
            for i in 0..(if q { 4 } else { 40 }) {
                self_dial(run, i)?;
            }
        }
        _ => {
            unit_level(run, &mut rng, &keys, if q { 600 } else { 30_000 });
            for i in 0..(if q { 70 } else { 3000 }) {
                honest_names(run, &mut rng, 40_000 + i)?;
            }
            for i in 0..(if q { 50 } else { 2000 }) {
                adversary_dials(run, &mut rng, &keys, 50_000 + i)?;
            }
        }
    }
    let p = crate::streams::PANICS.load(std::sync::atomic::Ordering::SeqCst);
    if p > 0 {
        run.oracle_fail(json!({"kind": "panic during TLS / handshake scenarios", "count": p}));
    }
    let _: Option<Config> = None;
    Ok(())
}

pub fn run_c01(run: &mut Run) -> anyhow::Result<()> {
    common(run, "C01")
}
pub fn run_c03(run: &mut Run) -> anyhow::Result<()> {
    common(run, "C03")
}
pub fn run_c14(run: &mut Run) -> anyhow::Result<()> {
    common(run, "C14")
}
