//! C09: (A) two-node link traces compared with the Lean idle-timer machine (`link.check`), exact
//! to +-tolerance; (B) N-node histories of dials, disconnects, restarts (graceful / crash),
//! partitions (short / long) compared at quiescent points with the abstract view (`views.op`), with
//! oracles for mutual listing, RPC reachability of every listed peer, immediate local disconnect and
//! propagation bounds.
use crate::fabric::{paused_rt, Fabric};
use crate::net::*;
use crate::out::Run;
use crate::peers::{ev_str, reason_name};
use crate::rng::Rng;
use anemo::types::PeerEvent;
use anemo::{Config, PeerId, Request};
use bytes::Bytes;
use serde_json::json;
use std::sync::{Arc, Mutex};
use std::time::Duration;

fn config_idle_ka(idle: u64, ka: Option<u64>) -> Config {
    let mut c = config_idle(idle);
    let mut q = c.quic.take().unwrap();
    q.keep_alive_interval_ms = ka;
    c.quic = Some(q);
    c.connectivity_check_interval_ms = Some(3_600_000);
    c
}

type TimedLog = Arc<Mutex<Vec<(u64, PeerEvent)>>>;

fn watch(net: &anemo::Network, start: tokio::time::Instant) -> (TimedLog, Vec<PeerId>) {
    let (mut rx, snapshot) = net.subscribe().unwrap();
    let log: TimedLog = Arc::new(Mutex::new(vec![]));
    let l2 = log.clone();
    tokio::spawn(async move {
        loop {
            match rx.recv().await {
                Ok(e) => l2.lock().unwrap().push(((tokio::time::Instant::now() - start).as_millis() as u64, e)),
                Err(tokio::sync::broadcast::error::RecvError::Lagged(_)) => {}
                Err(_) => break,
            }
        }
    });
    (log, snapshot)
}

async fn rpc(net: &anemo::Network, to: PeerId, id: String, limit: Duration) -> Result<(), String> {
    let mut req = anemo::Request::new(bytes::Bytes::from_static(b"ping")).with_route("/v");
    req.headers_mut().insert("x-id".into(), id);
    match tokio::time::timeout(limit, net.rpc(to, req)).await {
        Err(_) => Err("hang".into()),
        Ok(Err(e)) => Err(format!("{e:#}")),
        Ok(Ok(_)) => Ok(()),
    }
}

// ------------------------------------------------------------------ (A) link traces

#[derive(Clone, Debug)]
enum LEv {
    Rpc(usize, u64),
    Disc(usize, u64),
    Cut(u64),
    Heal(u64),
}

fn link_trace(run: &mut Run, rng: &mut Rng, case: u64) -> anyhow::Result<()> {
    let seed = run.seed ^ (case << 8) ^ 0x09;
    run.mark(&format!("scenario link_trace case {case} seed {} (re-run with ./check <property> --seed <seed>)", run.seed));
    let t_idle = 3000 + rng.below(4) * 1000;
    // script
    let mut evs: Vec<LEv> = vec![];
    let mut t = 200u64;
    for _ in 0..rng.below(4) {
        t += if rng.chance(1, 6) { t_idle + 400 + rng.below(1500) } else { 300 + rng.below(t_idle - 900) };
        evs.push(LEv::Rpc(rng.below(2) as usize, t));
    }
    if rng.chance(1, 3) {
        // a quiet partition that heals with nothing pending
        t += 300 + rng.below(1000);
        evs.push(LEv::Cut(t));
        t += 300 + rng.below(2 * t_idle);
        evs.push(LEv::Heal(t));
        for _ in 0..rng.below(3) {
            t += 300 + rng.below(t_idle - 900);
            evs.push(LEv::Rpc(rng.below(2) as usize, t));
        }
    }
    let final_cut = rng.chance(2, 3);
    if final_cut {
        t += 300 + rng.below(1500);
        evs.push(LEv::Cut(t));
    }
    for _ in 0..rng.below(4) {
        t += 200 + rng.below(2500);
        if rng.chance(1, 4) {
            evs.push(LEv::Disc(rng.below(2) as usize, t));
        } else {
            evs.push(LEv::Rpc(rng.below(2) as usize, t));
        }
    }
    // keep every event clear of the idle-timer instants (+-300 ms): whether an end is still alive at an
    // event that falls within a few ms of its deadline depends on trailing ACKs, not on the logic under
    // test.  (A mirror of the timer rules used only to place events; the verdict comes from the Lean model.)
    {
        let (mut alive, mut dl, mut sent) = ([true, true], [t_idle + 4, t_idle + 4], [false, false]);
        let mut open = true;
        let mut shift = 0u64;
        for e in evs.iter_mut() {
            let t0 = match e {
                LEv::Rpc(_, t) | LEv::Disc(_, t) | LEv::Cut(t) | LEv::Heal(t) => *t,
            } + shift;
            let mut t = t0;
            loop {
                let near = (0..2).filter(|x| alive[*x] && dl[*x] + 300 > t && dl[*x] < t + 300).map(|x| dl[x]).max();
                match near {
                    Some(d) => t = d + 350,
                    None => break,
                }
                for x in 0..2 {
                    if alive[x] && dl[x] <= t {
                        alive[x] = false;
                    }
                }
            }
            for x in 0..2 {
                if alive[x] && dl[x] <= t {
                    alive[x] = false;
                }
            }
            shift += t - t0;
            match e {
                LEv::Cut(tt) => {
                    *tt = t;
                    open = false;
                }
                LEv::Heal(tt) => {
                    *tt = t;
                    open = true;
                }
                LEv::Rpc(w, tt) => {
                    *tt = t;
                    let w = *w;
                    if alive[w] {
                        if open && alive[1 - w] {
                            dl = [t + t_idle, t + t_idle];
                            sent = [false, false];
                        } else if !sent[w] {
                            dl[w] = t + t_idle;
                            sent[w] = true;
                        }
                    }
                }
                LEv::Disc(w, tt) => {
                    *tt = t;
                    alive[*w] = false;
                    if open {
                        alive[1 - *w] = false;
                    }
                }
            }
        }
        t = evs.iter().map(|e| match e { LEv::Rpc(_, t) | LEv::Disc(_, t) | LEv::Cut(t) | LEv::Heal(t) => *t }).max().unwrap_or(t);
    }
    let end = t + 2 * t_idle + 1000;
    let evs2 = evs.clone();
    let rt = paused_rt();
    let res: anyhow::Result<(u64, Vec<Option<(u64, String)>>, Vec<String>)> = rt.block_on(async move {
        let fabric = Fabric::new(seed);
        // the dialer's own idle timeout is the shorter one in half of the traces (the effective timeout is
        // the smaller of the two ends' settings)
        let cfg = config_idle_ka(t_idle, None);
        let a = start_node(&fabric, seed, 1, cfg.clone())?;
        let b = start_node(&fabric, seed, 2, if case % 2 == 0 { cfg } else { config_idle_ka(t_idle + 20_000, None) })?;
        let start = tokio::time::Instant::now();
        let (la, _) = watch(&a.net, start);
        let (lb, _) = watch(&b.net, start);
        a.net.connect_with_peer_id(b.addr, b.id).await?;
        let t0 = (tokio::time::Instant::now() - start).as_millis() as u64;
        let nodes = [&a, &b];
        let mut open = true;
        let mut model_evs = vec![];
        for e in evs2.iter() {
            let at = match e {
                LEv::Rpc(_, t) | LEv::Disc(_, t) | LEv::Cut(t) | LEv::Heal(t) => *t,
            };
            tokio::time::sleep_until(start + Duration::from_millis(at)).await;
            match e {
                LEv::Cut(_) => {
                    fabric.partition(a.addr, b.addr, true);
                    open = false;
                }
                LEv::Heal(_) => {
                    fabric.partition(a.addr, b.addr, false);
                    open = true;
                }
                LEv::Rpc(w, _) => {
                    let net = nodes[*w].net.clone();
                    let to = nodes[1 - *w].id;
                    let h = tokio::spawn(async move { rpc(&net, to, "l".into(), Duration::from_secs(3600)).await });
                    if open {
                        let _ = tokio::time::timeout(Duration::from_millis(150), h).await;
                    }
                    model_evs.push(format!("rpc:{}:{}:{}", ["a", "b"][*w], at, open as u8));
                }
                LEv::Disc(w, _) => {
                    let _ = nodes[*w].net.disconnect(nodes[1 - *w].id);
                    model_evs.push(format!("disc:{}:{}:{}", ["a", "b"][*w], at, open as u8));
                }
            }
        }
        tokio::time::sleep_until(start + Duration::from_millis(end)).await;
        let first_loss = |l: &TimedLog| l.lock().unwrap().iter().find_map(|(t, e)| if let PeerEvent::LostPeer(_, r) = e { Some((*t, reason_name(r).to_string())) } else { None });
        Ok((t0, vec![first_loss(&la), first_loss(&lb)], model_evs))
    });
    drop(rt);
    let (t0, deaths, model_evs) = res?;
    let show = |d: &Option<(u64, String)>| d.as_ref().map(|x| x.0.to_string()).unwrap_or_else(|| "alive".into());
    let op = format!(
        "link.check T={t_idle} t0={t0} evs={} end={end} a={} b={} tol=150",
        if model_evs.is_empty() { "-".into() } else { model_evs.join(",") },
        show(&deaths[0]),
        show(&deaths[1])
    );
    // property oracle, independent of the model: once one end is gone the other is gone within the
    // idle timeout if it stays passive, within two idle timeouts whatever it sends
    if let (Some(x), Some(y)) = (&deaths[0], &deaths[1]) {
        let (first, second) = if x.0 <= y.0 { (x, y) } else { (y, x) };
        if second.0 > first.0 + 2 * t_idle + 150 {
            run.oracle_fail(json!({"kind": "a connection lost at one end was reported lost at the other end later than two idle timeouts", "ops": [op.clone()], "first": first, "second": second}));
        }
    } else if deaths[0].is_some() != deaths[1].is_some() {
        run.oracle_fail(json!({"kind": "a connection lost at one end is still listed at the other end two idle timeouts later", "ops": [op.clone()], "a": deaths[0], "b": deaths[1]}));
    }
    for d in deaths.iter().flatten() {
        run.count("link-loss-reason", &d.1);
    }
    run.count("link-trace", if final_cut { "final-cut" } else { "open-to-the-end" });
    run.op(op, "ok".into(), true);
    Ok(())
}

// ------------------------------------------------------------------ (B) network histories

struct VNode {
    /// clones of the user service alive on an idle network (manager etc.); every running connection
    /// handler holds one more
    base_clones: i64,
    node: Option<Node>,
    key: [u8; 32],
    idx: u16,
    id: PeerId,
    log: TimedLog,
    rpc_seq: u64,
}

fn network_history(run: &mut Run, rng: &mut Rng, case: u64) -> anyhow::Result<()> {
    let seed = run.seed ^ (case << 8) ^ 0x99;
    run.mark(&format!("scenario network_history case {case} seed {} (re-run with ./check <property> --seed <seed>)", run.seed));
    let n = 3 + rng.below(2) as usize;
    let t_idle = 4000u64;
    let ka: Option<u64> = if rng.chance(3, 4) { Some(1000) } else { None };
    let ka_ms = ka.unwrap_or(0);
    let quiet = 2 * t_idle + ka_ms + 1000;
    let n_ops = 3 + rng.below(6) as usize;
    let mut script = vec![];
    for _ in 0..n_ops {
        let i = rng.below(n as u64) as usize;
        let j = (i + 1 + rng.below(n as u64 - 1) as usize) % n;
        let kind = match rng.below(12) {
            0..=4 => "dial",
            5 | 6 => "disconnect",
            7 => "restart",
            8 => "crash",
            9 => "cut",
            10 => "blip",
            _ => "idle",
        };
        script.push((kind, i, j));
    }
    let script2 = script.clone();
    let mut lrng = rng.fork(case);
    let rt = paused_rt();
    type Out = (Vec<(String, String)>, Vec<serde_json::Value>, Vec<(String, String)>);
    let res: anyhow::Result<Out> = rt.block_on(async move {
        let fabric = Fabric::new(seed);
        let start = tokio::time::Instant::now();
        let now_ms = || (tokio::time::Instant::now() - start).as_millis() as u64;
        let cfg = config_idle_ka(t_idle, ka);
        let mut nodes: Vec<VNode> = vec![];
        for i in 0..n {
            let key = key_of(seed, 1 + i as u16);
            let node = start_node_with(&fabric, 1 + i as u16, key, "verif", None, cfg.clone())?;
            let (log, _) = watch(&node.net, start);
            tokio::time::sleep(Duration::from_millis(5)).await;
            let base_clones = node.svc.live_clones.load(std::sync::atomic::Ordering::SeqCst);
            nodes.push(VNode { base_clones, id: node.id, node: Some(node), key, idx: 1 + i as u16, log, rpc_seq: 0 });
        }
        let ids: Vec<PeerId> = nodes.iter().map(|x| x.id).collect();
        let idx_of = |p: &PeerId| ids.iter().position(|x| x == p).unwrap_or(99);
        let mut lines: Vec<(String, String)> = vec![(format!("views.reset n={n} ka={}", ka.is_some() as u8), "ok".into())];
        let mut fails: Vec<serde_json::Value> = vec![];
        let mut counts: Vec<(String, String)> = vec![];
        let mut hist: Vec<String> = vec![];
        for (kind, i, j) in script2.iter().cloned() {
            let t_op = now_ms();
            hist.push(format!("{kind} {i} {j} @{t_op}"));
            let mut model_kind = kind;
            match kind {
                "dial" => {
                    let net = nodes[i].node.as_ref().unwrap().net.clone();
                    let addr = nodes[j].node.as_ref().unwrap().addr;
                    let pinned = lrng.chance(1, 2);
                    let pid = ids[j];
                    let r = tokio::time::timeout(Duration::from_secs(30), async move {
                        if pinned {
                            net.connect_with_peer_id(addr, pid).await.map(|_| ())
                        } else {
                            net.connect(addr).await.map(|_| ())
                        }
                    })
                    .await;
                    match r {
                        Ok(Ok(())) => {}
                        other => fails.push(json!({"kind": "a dial between two running nodes on a fault-free network failed", "history": hist.clone(), "result": format!("{other:?}")})),
                    }
                }
                "disconnect" => {
                    let net = nodes[i].node.as_ref().unwrap().net.clone();
                    let was_listed = net.peers().contains(&ids[j]);
                    let before = nodes[i].log.lock().unwrap().len();
                    let r = net.disconnect(ids[j]);
                    // at once: not listed, RPC fails; the announcement follows (same lock) - give the watcher one poll
                    let listed_after = net.peers().contains(&ids[j]);
                    let rp = rpc(&net, ids[j], "after-disconnect".into(), Duration::from_secs(5)).await;
                    tokio::time::sleep(Duration::from_millis(1)).await;
                    let evs: Vec<String> = nodes[i].log.lock().unwrap()[before..].iter().map(|(_, e)| ev_str(e)).collect();
                    let want = format!("lost:{}:requested", pid_hex(&ids[j]));
                    if listed_after || rp.is_ok() || (was_listed && r.is_err()) || (was_listed && evs.iter().filter(|e| **e == want).count() != 1) || evs.iter().any(|e| e.starts_with("lost:") && *e != want && e.contains(&pid_hex(&ids[j]))) {
                        fails.push(json!({"kind": "explicit disconnect did not remove the peer at once with exactly one LostPeer(Requested), or an RPC to it still succeeded", "history": hist.clone(),
                            "was_listed": was_listed, "listed_after": listed_after, "disconnect_result_ok": r.is_ok(), "rpc_after": format!("{rp:?}"), "events": evs}));
                    }
                    // propagation: the other end reports the loss promptly (the close is delivered)
                    if was_listed {
                        tokio::time::sleep(Duration::from_millis(300)).await;
                        let seen = nodes[j].log.lock().unwrap().iter().any(|(t, e)| *t >= t_op && matches!(e, PeerEvent::LostPeer(p, _) if *p == ids[i]));
                        let still = nodes[j].node.as_ref().unwrap().net.peers().contains(&ids[i]);
                        if !seen || still {
                            fails.push(json!({"kind": "the other end did not report a delivered disconnect within 300 ms", "history": hist.clone(), "still_listed": still}));
                        }
                    }
                }
                "restart" | "crash" => {
                    let old = nodes[i].node.take().unwrap();
                    let addr = old.addr;
                    let had: Vec<usize> = (0..n).filter(|k| *k != i && nodes[*k].node.as_ref().map(|x| x.net.peers().contains(&ids[i])).unwrap_or(false)).collect();
                    if kind == "crash" {
                        fabric.remove(addr); // nothing it sends from now on leaves the machine
                    }
                    let _ = old.net.shutdown().await;
                    drop(old);
                    if kind == "restart" {
                        fabric.remove(addr);
                    }
                    let node = start_node_with(&fabric, nodes[i].idx, nodes[i].key, "verif", None, cfg.clone())?;
                    let (log, _) = watch(&node.net, start);
                    tokio::time::sleep(Duration::from_millis(5)).await;
                    nodes[i].base_clones = node.svc.live_clones.load(std::sync::atomic::Ordering::SeqCst);
                    nodes[i].node = Some(node);
                    nodes[i].log = log;
                    // every peer that listed it reports the loss: at once if the close was delivered, else within
                    // idle timeout + one keep-alive restart
                    let bound = if kind == "restart" { 300 } else { t_idle + ka_ms + 300 };
                    tokio::time::sleep(Duration::from_millis(bound)).await;
                    for k in had {
                        let seen = nodes[k].log.lock().unwrap().iter().any(|(t, e)| *t >= t_op && matches!(e, PeerEvent::LostPeer(p, _) if *p == ids[i]));
                        if !seen {
                            fails.push(json!({"kind": "a peer whose process went away was not reported lost within the bound", "history": hist.clone(), "observer": k, "bound_ms": bound, "graceful": kind == "restart"}));
                        }
                    }
                    model_kind = "restart";
                }
                "cut" | "blip" => {
                    let (a, b) = (Fabric::addr(nodes[i].idx), Fabric::addr(nodes[j].idx));
                    let linked = nodes[i].node.as_ref().unwrap().net.peers().contains(&ids[j]);
                    fabric.partition(a, b, true);
                    let d = if kind == "cut" { t_idle + ka_ms + t_idle / 2 } else { t_idle / 5 };
                    if kind == "cut" && linked {
                        // both ends report the loss no later than idle timeout (+ one keep-alive restart)
                        tokio::time::sleep(Duration::from_millis(t_idle + ka_ms + 300)).await;
                        for (x, y) in [(i, j), (j, i)] {
                            let seen = nodes[x].log.lock().unwrap().iter().any(|(t, e)| *t >= t_op && matches!(e, PeerEvent::LostPeer(p, _) if *p == ids[y]));
                            if !seen {
                                fails.push(json!({"kind": "a partitioned connection was not reported lost within idle timeout + keep-alive interval", "history": hist.clone(), "observer": x}));
                            }
                        }
                        tokio::time::sleep(Duration::from_millis(d - (t_idle + ka_ms + 300))).await;
                    } else {
                        tokio::time::sleep(Duration::from_millis(d)).await;
                    }
                    fabric.partition(a, b, false);
                }
                _ => {
                    tokio::time::sleep(Duration::from_millis(t_idle + 500)).await;
                }
            }
            // quiescence: fault-free for longer than (two) idle timeouts; without keep-alive that alone
            // ends every connection, so observe shortly after the operation there
            if ka.is_some() {
                tokio::time::sleep(Duration::from_millis(quiet)).await;
            } else {
                tokio::time::sleep(Duration::from_millis(400)).await;
            }
            // observe
            let listing: Vec<Vec<usize>> = nodes.iter().map(|x| {
                let mut v: Vec<usize> = x.node.as_ref().unwrap().net.peers().iter().map(&idx_of).collect();
                v.sort();
                v
            }).collect();
            let imp = listing.iter().enumerate().map(|(k, v)| format!("{k}:{}", v.iter().map(|x| x.to_string()).collect::<Vec<_>>().join(","))).collect::<Vec<_>>().join(";");
            // long=1: the operation took longer than the idle timeout with no traffic (matters without keep-alive)
            let long = matches!(kind, "crash" | "cut" | "idle") as u8;
            let op = match model_kind {
                "restart" => format!("views.op kind=restart i={i} long={long}"),
                "idle" => "views.op kind=idle long=1".to_string(),
                k => format!("views.op kind={k} i={i} j={j} long={long}"),
            };
            // without keep-alive the observation right after a non-idle operation sees connections that the
            // abstract view (which only speaks about quiescent points) keeps; an `idle` op follows in the model
            lines.push((op, imp.clone()));
            // oracles at the observation point
            for a in 0..n {
                for b in 0..n {
                    if a != b && listing[a].contains(&b) != listing[b].contains(&a) {
                        fails.push(json!({"kind": "views are not mutual after a fault-free period longer than the idle timeout", "history": hist.clone(), "listing": imp.clone(), "pair": [a, b]}));
                    }
                }
            }
            for a in 0..n {
                for b in 0..n {
                    if a == b {
                        continue;
                    }
                    let net = nodes[a].node.as_ref().unwrap().net.clone();
                    nodes[a].rpc_seq += 1;
                    let id = format!("q{a}-{}", nodes[a].rpc_seq);
                    let r = rpc(&net, ids[b], id.clone(), Duration::from_secs(10)).await;
                    if listing[a].contains(&b) {
                        let handled = nodes[b].node.as_ref().unwrap().svc.log.lock().unwrap().invocations.iter().any(|x| x.id == id && x.peer == Some(ids[a]));
                        if r.is_err() || !handled {
                            fails.push(json!({"kind": "a listed peer cannot be reached by RPC on a fault-free network", "history": hist.clone(), "listing": imp.clone(), "from": a, "to": b, "result": format!("{r:?}"), "handled": handled}));
                        }
                        counts.push(("quiescent-rpc".into(), "listed-ok".into()));
                    } else {
                        if r.is_ok() {
                            fails.push(json!({"kind": "an RPC to a peer that is not listed succeeded", "history": hist.clone(), "from": a, "to": b}));
                        }
                        counts.push(("quiescent-rpc".into(), "unlisted-refused".into()));
                    }
                }
            }
            // one running handler task per listed peer, none for anybody else (C09_entry_iff_handler)
            tokio::time::sleep(Duration::from_millis(100)).await;
            for (k, x) in nodes.iter().enumerate() {
                let n = x.node.as_ref().unwrap();
                let handlers = n.svc.live_clones.load(std::sync::atomic::Ordering::SeqCst) - x.base_clones;
                let listed = n.net.peers().len() as i64;
                if handlers != listed {
                    fails.push(json!({"kind": "the number of running connection handlers differs from the number of listed peers at a quiescent point", "history": hist.clone(), "node": k, "handlers": handlers, "listed": listed}));
                }
            }
            counts.push(("network-op".into(), kind.to_string()));
        }
        // event logs: per incarnation strictly alternating and ending in the listing
        for (k, x) in nodes.iter().enumerate() {
            let evs: Vec<PeerEvent> = x.log.lock().unwrap().iter().map(|(_, e)| e.clone()).collect();
            match crate::peers::replay_strict(&[], &evs) {
                Some(set) => {
                    let cur: std::collections::BTreeSet<PeerId> = x.node.as_ref().unwrap().net.peers().into_iter().collect();
                    if set != cur {
                        fails.push(json!({"kind": "event log does not replay to the listing", "history": hist.clone(), "node": k}));
                    }
                }
                None => fails.push(json!({"kind": "event log does not alternate (NewPeer of a listed peer or LostPeer of an unlisted one)", "history": hist.clone(), "node": k,
                    "events": evs.iter().map(ev_str).collect::<Vec<_>>()})),
            }
        }
        Ok((lines, fails, counts))
    });
    drop(rt);
    let (lines, fails, counts) = res?;
    for f in fails {
        run.oracle_fail(f);
    }
    for (a, b) in counts {
        run.count(&a, &b);
    }
    run.count("network-keepalive", if ka.is_some() { "on" } else { "off" });
    let mut ctx = case;
    for (op, imp) in lines {
        run.op_in(&mut ctx, op, imp);
    }
    Ok(())
}

pub fn run_c09(run: &mut Run) -> anyhow::Result<()> {
    crate::streams::install_panic_counter();
    let mut rng = Rng::new(run.seed);
    let q = run.quick();
    for i in 0..(if q { 120 } else { 5000 }) {
        link_trace(run, &mut rng, i)?;
    }
    for i in 0..(if q { 40 } else { 1500 }) {
        network_history(run, &mut rng, 10_000 + i)?;
    }
    crate::peers::blocked_handler(run, if q { 1 } else { 4 }, "listing")?;
    crate::peers::contention_rounds(run, if q { 100 } else { 1000 }, "local")?;
    let p = crate::streams::PANICS.load(std::sync::atomic::Ordering::SeqCst);
    if p > 0 {
        run.oracle_fail(json!({"kind": "panic during view histories", "count": p}));
    }
    handler_panics(run, if q { 3 } else { 60 })?;
    redial_keeps_views(run, if q { 8 } else { 200 })?;
    Ok(())
}

/// A peer that is already connected is dialled AGAIN (which replaces the live connection on both sides;
/// with `both` the other side re-dials as well).  No fault occurs, so after the dust has settled the views
/// must be mutual, both must list each other, and RPCs must work in both directions.
fn redial_keeps_views(run: &mut Run, cases: u64) -> anyhow::Result<()> {
    for case in 0..cases {
        let seed = run.seed ^ 0x4ed1 ^ (case << 16);
        run.mark(&format!("scenario redial_keeps_views case {case} seed {} (re-run with ./check C09 --seed <seed>)", run.seed));
        let rt = paused_rt();
        let o: anyhow::Result<serde_json::Value> = rt.block_on(async move {
            let fabric = Fabric::new(seed);
            let a = start_node(&fabric, seed, 1, config_idle(30_000))?;
            let b = start_node(&fabric, seed, 2, config_idle(30_000))?;
            a.net.connect(b.addr).await?;
            let first = tokio::time::timeout(Duration::from_secs(10), a.net.rpc(b.id, Request::new(Bytes::from_static(b"1")).with_header("x-id", "first"))).await.map(|r| r.is_ok()).unwrap_or(false);
            for _ in 0..(1 + case % 3) {
                a.net.connect(b.addr).await?;
                if case % 2 == 1 {
                    b.net.connect(a.addr).await?;
                }
                tokio::time::sleep(Duration::from_millis(50 * (case % 4))).await;
            }
            tokio::time::sleep(Duration::from_millis(1_500)).await;
            let ab = a.net.peers().contains(&b.id);
            let ba = b.net.peers().contains(&a.id);
            let rab = tokio::time::timeout(Duration::from_secs(10), a.net.rpc(b.id, Request::new(Bytes::from_static(b"2")).with_header("x-id", "ab"))).await.map(|r| r.is_ok()).unwrap_or(false);
            let rba = tokio::time::timeout(Duration::from_secs(10), b.net.rpc(a.id, Request::new(Bytes::from_static(b"3")).with_header("x-id", "ba"))).await.map(|r| r.is_ok()).unwrap_or(false);
            Ok(json!({"first_rpc": first, "a_lists_b": ab, "b_lists_a": ba, "rpc_ab": rab, "rpc_ba": rba}))
        });
        drop(rt);
        let o = o?;
        run.eval(&format!("redial {case}"), true);
        let good = ["first_rpc", "a_lists_b", "b_lists_a", "rpc_ab", "rpc_ba"].iter().all(|k| o[*k] == json!(true));
        run.count("redial", if good { "views-kept" } else { "lost" });
        if !good {
            run.oracle_fail(json!({"kind": "after re-dialling an already connected peer (no fault) a side no longer lists the other / cannot reach it", "observed": o.clone(), "seed": run.seed, "case": case}));
        }
    }
    Ok(())
}

/// An application handler panics while serving a request.  Whatever the library makes of that (it
/// propagates the panic and the node's network goes down), the views must stay mutual: nobody may keep
/// listing a peer that no longer lists it, and whoever is listed must be reachable.
fn handler_panics(run: &mut Run, cases: u64) -> anyhow::Result<()> {
    for case in 0..cases {
        let seed = run.seed ^ 0x9a1c ^ (case << 16);
        run.mark(&format!("scenario handler_panics case {case} seed {} (re-run with ./check C09 --seed <seed>)", run.seed));
        let idle = 2_000 + 500 * (case % 3);
        let rt = paused_rt();
        let o: anyhow::Result<serde_json::Value> = rt.block_on(async move {
            let fabric = Fabric::new(seed);
            let a = start_node(&fabric, seed, 1, config_idle(idle))?;
            let b = start_node(&fabric, seed, 2, config_idle(idle))?;
            let c = start_node(&fabric, seed, 3, config_idle(idle))?;
            if case % 2 == 0 {
                a.net.connect(b.addr).await?;
            } else {
                b.net.connect(a.addr).await?;
            }
            c.net.connect(a.addr).await?;
            tokio::time::sleep(Duration::from_millis(300)).await;
            let _ = tokio::time::timeout(Duration::from_secs(10), b.net.rpc(a.id, Request::new(Bytes::from_static(b"p")).with_header("x-id", "boom").with_header("x-panic", "1"))).await;
            tokio::time::sleep(Duration::from_millis(idle + 2_000)).await;
            let lists = |x: &Node, y: &Node| x.net.peers().contains(&y.id);
            let mut pairs = vec![];
            for (nx, x) in [("A", &a), ("B", &b), ("C", &c)] {
                for (ny, y) in [("A", &a), ("B", &b), ("C", &c)] {
                    if nx != ny && lists(x, y) {
                        let back = lists(y, x);
                        let rpc = tokio::time::timeout(Duration::from_secs(10), x.net.rpc(y.id, Request::new(Bytes::from_static(b"q")).with_header("x-id", format!("{nx}{ny}")))).await.map(|r| r.is_ok()).unwrap_or(false);
                        pairs.push(json!({"who": nx, "lists": ny, "listed_back": back, "rpc_ok": rpc}));
                    }
                }
            }
            Ok(json!({"pairs": pairs, "a_closed": a.net.is_closed()}))
        });
        drop(rt);
        let o = o?;
        run.eval(&format!("handler-panics {case}"), true);
        let bad: Vec<&serde_json::Value> = o["pairs"].as_array().unwrap().iter().filter(|p| p["listed_back"] != json!(true) || p["rpc_ok"] != json!(true)).collect();
        run.count("handler-panics", if bad.is_empty() { "views-mutual" } else { "one-sided" });
        if !bad.is_empty() {
            run.oracle_fail(json!({"kind": "after an application handler panicked a node keeps listing a peer that does not list it back / cannot be reached", "one_sided": bad, "observed": o.clone(), "seed": run.seed, "case": case}));
        }
    }
    Ok(())
}
