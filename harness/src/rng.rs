//! One PRNG state per run: every random choice of the harness derives from `VERIF_SEED`.
#[derive(Clone)]
pub struct Rng(u64);

impl Rng {
    pub fn new(seed: u64) -> Self {
        let mut r = Rng(seed ^ 0x9E37_79B9_7F4A_7C15);
        r.next();
        r
    }
    /// derive an independent stream (for sub-scenarios) without disturbing this one much
    pub fn fork(&mut self, tag: u64) -> Rng {
        Rng::new(self.next() ^ tag.wrapping_mul(0xD6E8_FEB8_6659_FD93))
    }
    pub fn next(&mut self) -> u64 {
        // splitmix64
        self.0 = self.0.wrapping_add(0x9E37_79B9_7F4A_7C15);
        let mut z = self.0;
        z = (z ^ (z >> 30)).wrapping_mul(0xBF58_476D_1CE4_E5B9);
        z = (z ^ (z >> 27)).wrapping_mul(0x94D0_49BB_1331_11EB);
        z ^ (z >> 31)
    }
    pub fn below(&mut self, n: u64) -> u64 {
        if n == 0 {
            0
        } else {
            self.next() % n
        }
    }
    pub fn range(&mut self, lo: u64, hi_incl: u64) -> u64 {
        lo + self.below(hi_incl - lo + 1)
    }
    pub fn chance(&mut self, num: u64, den: u64) -> bool {
        self.below(den) < num
    }
    pub fn pick<'a, T>(&mut self, xs: &'a [T]) -> &'a T {
        &xs[self.below(xs.len() as u64) as usize]
    }
    pub fn bytes(&mut self, n: usize) -> Vec<u8> {
        let mut v = Vec::with_capacity(n);
        while v.len() < n {
            let x = self.next().to_le_bytes();
            let k = (n - v.len()).min(8);
            v.extend_from_slice(&x[..k]);
        }
        v
    }
    pub fn f64(&mut self) -> f64 {
        (self.next() >> 11) as f64 / (1u64 << 53) as f64
    }
}

impl Rng {
    /// random bytes of random length in `0..max_len`
    pub fn rbytes(&mut self, max_len: u64) -> Vec<u8> {
        let n = self.below(max_len) as usize;
        self.bytes(n)
    }
}
