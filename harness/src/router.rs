//! C16: router build programs (route / add_rpc_service / route_layer / merge) on the real Router
//! with tagging services and tagging layers, compared with the model; hostile route strings.
use crate::out::{hexs, Run};
use crate::rng::Rng;
use anemo::rpc::RpcService;
use anemo::types::response::StatusCode;
use anemo::{Request, Response, Router};
use bytes::Bytes;
use serde_json::json;
use std::convert::Infallible;
use std::future::Future;
use std::panic::{catch_unwind, AssertUnwindSafe};
use std::pin::Pin;
use std::sync::atomic::{AtomicU64, Ordering};
use std::sync::Arc;
use std::task::{Context, Poll};
use tower::{Layer, Service, ServiceExt};

pub static INVOCATIONS: AtomicU64 = AtomicU64::new(0);

/// answers "svc=<tag> trail=<layers seen, outermost first>"
#[derive(Clone)]
pub struct TagSvc(pub u64);

impl Service<Request<Bytes>> for TagSvc {
    type Response = Response<Bytes>;
    type Error = Infallible;
    type Future = Pin<Box<dyn Future<Output = Result<Response<Bytes>, Infallible>> + Send>>;
    fn poll_ready(&mut self, _: &mut Context<'_>) -> Poll<Result<(), Infallible>> {
        Poll::Ready(Ok(()))
    }
    fn call(&mut self, req: Request<Bytes>) -> Self::Future {
        INVOCATIONS.fetch_add(1, Ordering::SeqCst);
        let trail = req.headers().get("trail").cloned().unwrap_or_else(|| "-".into());
        let tag = self.0;
        Box::pin(async move { Ok(Response::new(Bytes::from(format!("svc={tag} trail={trail}")))) })
    }
}

/// an RPC service with a run-time name: `add_rpc_service` needs a `const SERVICE_NAME`, so a fixed
/// family of names is provided
macro_rules! rpc_svc {
    ($t:ident, $name:expr) => {
        #[derive(Clone)]
        pub struct $t(pub u64);
        impl RpcService for $t {
            const SERVICE_NAME: &'static str = $name;
        }
        impl Service<Request<Bytes>> for $t {
            type Response = Response<Bytes>;
            type Error = Infallible;
            type Future = Pin<Box<dyn Future<Output = Result<Response<Bytes>, Infallible>> + Send>>;
            fn poll_ready(&mut self, _: &mut Context<'_>) -> Poll<Result<(), Infallible>> {
                Poll::Ready(Ok(()))
            }
            fn call(&mut self, req: Request<Bytes>) -> Self::Future {
                TagSvc(self.0).call(req)
            }
        }
    };
}
rpc_svc!(Rpc0, "Greeter");
rpc_svc!(Rpc1, "example.helloworld.Greeter");
rpc_svc!(Rpc2, "a.b");
rpc_svc!(Rpc3, "Gree");
rpc_svc!(Rpc4, "x");
pub const RPC_NAMES: [&str; 5] = ["Greeter", "example.helloworld.Greeter", "a.b", "Gree", "x"];

#[derive(Clone)]
pub struct TagLayer(pub u64);
/// A layer that insists on the tower contract, as `ConcurrencyLimit`, `Buffer` and `RateLimit` do:
/// `call` only after THIS instance reported ready; a clone starts un-ready.
pub struct TagLayerSvc<S> {
    inner: S,
    tag: u64,
    ready: bool,
}
impl<S: Clone> Clone for TagLayerSvc<S> {
    fn clone(&self) -> Self {
        TagLayerSvc { inner: self.inner.clone(), tag: self.tag, ready: false }
    }
}
impl<S> Layer<S> for TagLayer {
    type Service = TagLayerSvc<S>;
    fn layer(&self, inner: S) -> Self::Service {
        TagLayerSvc { inner, tag: self.0, ready: false }
    }
}
impl<S> Service<Request<Bytes>> for TagLayerSvc<S>
where
    S: Service<Request<Bytes>, Response = Response<Bytes>, Error = Infallible>,
    S::Future: Send + 'static,
{
    type Response = Response<Bytes>;
    type Error = Infallible;
    type Future = Pin<Box<dyn Future<Output = Result<Response<Bytes>, Infallible>> + Send>>;
    fn poll_ready(&mut self, cx: &mut Context<'_>) -> Poll<Result<(), Infallible>> {
        let r = self.inner.poll_ready(cx);
        if r.is_ready() {
            self.ready = true;
        }
        r
    }
    fn call(&mut self, mut req: Request<Bytes>) -> Self::Future {
        if !std::mem::replace(&mut self.ready, false) {
            let tag = self.tag;
            return Box::pin(async move {
                let mut resp = Response::new(Bytes::new()).with_status(StatusCode::InternalServerError);
                resp.headers_mut().insert("unready-call".into(), tag.to_string());
                Ok(resp)
            });
        }
        let t = match req.headers().get("trail") {
            Some(t) => format!("{t}.{}", self.tag),
            None => self.tag.to_string(),
        };
        req.headers_mut().insert("trail".into(), t);
        let fut = self.inner.call(req);
        let tag = self.tag;
        // the layer also stamps the response, so that a layer wrapped around something that is not
        // a route (the NotFound fallback) is visible
        Box::pin(async move {
            let mut resp = fut.await?;
            let seen = match resp.headers().get("stamped-by") {
                Some(s) => format!("{s}.{tag}"),
                None => tag.to_string(),
            };
            resp.headers_mut().insert("stamped-by".into(), seen);
            Ok(resp)
        })
    }
}

fn quiet<T>(f: impl FnOnce() -> T) -> Result<T, String> {
    catch_unwind(AssertUnwindSafe(f)).map_err(|p| p.downcast_ref::<String>().cloned().or_else(|| p.downcast_ref::<&str>().map(|s| s.to_string())).unwrap_or_default())
}

/// the request as the serving side receives it: written by the real encoder, read by the real decoder
fn over_the_wire(path: &str) -> Result<Request<Bytes>, String> {
    use anemo::verif::wire as hook;
    use tokio_util::codec::{FramedRead, FramedWrite};
    let cfg = anemo::Config::default();
    let req = Request::new(Bytes::new()).with_route(path);
    let mut w = FramedWrite::new(Vec::<u8>::new(), hook::codec(&cfg));
    futures::executor::block_on(hook::write_request(&mut w, req)).map_err(|e| format!("write:{e}"))?;
    let bytes = w.get_ref().clone();
    let mut rd = FramedRead::new(&bytes[..], hook::codec(&cfg));
    futures::executor::block_on(hook::read_request(&mut rd)).map_err(|e| format!("read:{e}"))
}

fn call(rt: &tokio::runtime::Runtime, r: &Router, path: &str) -> String {
    let before = INVOCATIONS.load(Ordering::SeqCst);
    let req = match quiet(|| over_the_wire(path)) {
        Ok(Ok(r)) => r,
        Ok(Err(e)) => return format!("wire-error:{}", e.replace(' ', "_")),
        Err(p) => return format!("panic:{}", p.replace(' ', "_")),
    };
    let res = quiet(|| rt.block_on(r.clone().oneshot(req)));
    let n = INVOCATIONS.load(Ordering::SeqCst) - before;
    match res {
        Err(p) => format!("panic:{}", p.replace(' ', "_")),
        Ok(Err(_)) => "infallible?".into(),
        Ok(Ok(resp)) => {
            if let Some(t) = resp.headers().get("unready-call") {
                format!("call-without-poll_ready:layer-{t}")
            } else if resp.status() == StatusCode::NotFound {
                if let Some(st) = resp.headers().get("stamped-by") {
                    format!("404-through-layer:{st}")
                } else if n != 0 {
                    "404-but-a-service-ran".into()
                } else {
                    "404".into()
                }
            } else if n != 1 {
                format!("{}-services-ran", n)
            } else {
                String::from_utf8_lossy(resp.body()).to_string()
            }
        }
    }
}

fn gen_segment(rng: &mut Rng) -> String {
    let pool = ["a", "b", "ab", "echo", "Greeter", "example.helloworld.Greeter", "x", "Gree", "a.b", "é", "0", "say_hello", "A"];
    (*rng.pick(&pool)).to_string()
}

fn gen_pattern(rng: &mut Rng) -> String {
    match rng.below(12) {
        0 => "/".into(),
        1 => String::new(),
        2 => gen_segment(rng), // no leading slash
        3..=5 => format!("/{}", gen_segment(rng)),
        6 | 7 => format!("/{}/{}", gen_segment(rng), gen_segment(rng)),
        8 => format!("/{}/", gen_segment(rng)),
        9 | 10 => format!("/{}/*rest", gen_segment(rng)),
        _ => format!("/{}/{}/*r", gen_segment(rng), gen_segment(rng)),
    }
}

fn gen_paths(rng: &mut Rng, patterns: &[String]) -> Vec<String> {
    let mut v: Vec<String> = vec!["".into(), "/".into(), "//".into(), "a".into(), "/a".into(), "/a/".into(), "/a/b".into()];
    for p in patterns {
        let base = p.split('*').next().unwrap_or("").to_string();
        v.push(base.clone());
        v.push(format!("{base}x"));
        v.push(format!("{base}x/y"));
        v.push(base.trim_end_matches('/').to_string());
        v.push(format!("{}/", base.trim_end_matches('/')));
        if base.chars().count() > 1 {
            let mut c: Vec<char> = base.chars().collect();
            c.pop();
            v.push(c.into_iter().collect());
        }
        v.push(p.clone());
    }
    for _ in 0..4 {
        v.push(crate::wire::gen_route(rng));
    }
    v.push("/\0".into());
    v.push("/:a".into());
    v.push("/*a".into());
    v.push(format!("/{}", "z".repeat(rng.below(70000) as usize)));
    v.sort();
    v.dedup();
    v
}

pub fn run_c16(run: &mut Run, replay: Option<&std::path::Path>) -> anyhow::Result<()> {
    if std::env::var("VERIF_SHOW_PANICS").is_err() {
        std::panic::set_hook(Box::new(|_| {}));
    }
    let rt = tokio::runtime::Builder::new_current_thread().build()?;
    if let Some(p) = replay {
        return replay_ops(run, &rt, p);
    }
    generated_services(run, &rt);
    let mut rng = Rng::new(run.seed);
    let nprog = if run.quick() { 700 } else { 12_000 };
    for _ in 0..nprog {
        // a build program over a stack of routers
        let mut stack: Vec<Router> = vec![];
        let mut ops: Vec<String> = vec!["router.reset".into()];
        run.op("router.reset".into(), "ok".into(), false);
        let mut ctx = 0u64;
        let mut patterns: Vec<String> = vec![];
        let mut next_svc = 1u64;
        let steps = 3 + rng.below(14);
        let mut emit = |run: &mut Run, ops: &mut Vec<String>, ctx: &mut u64, op: String, out: String| {
            ops.push(op.clone());
            run.op_in(ctx, op, out);
        };
        // independent bookkeeping for the oracle below: per router on the stack, the static (capture-free)
        // patterns it accepted and the service registered under each
        let mut statics: Vec<Vec<(String, u64)>> = vec![vec![]];
        stack.push(Router::new());
        emit(run, &mut ops, &mut ctx, "router.new".into(), "ok".into());
        for _ in 0..steps {
            match rng.below(10) {
                0 | 1 => {
                    stack.push(Router::new());
                    statics.push(vec![]);
                    emit(run, &mut ops, &mut ctx, "router.new".into(), "ok".into());
                }
                2..=5 => {
                    let path = gen_pattern(&mut rng);
                    let svc = next_svc;
                    next_svc += 1;
                    let top = stack.pop().unwrap();
                    let keep = top.clone();
                    let p2 = path.clone();
                    // a Router is Send: applications assemble route tables across threads
                    let res = if rng.chance(1, 4) {
                        std::thread::spawn(move || quiet(move || top.route(&p2, TagSvc(svc)))).join().unwrap_or_else(|_| Err("thread".into()))
                    } else {
                        quiet(move || top.route(&p2, TagSvc(svc)))
                    };
                    match res {
                        Ok(r) => {
                            stack.push(r);
                            if path.starts_with('/') && !path.contains('*') && !path.contains(':') {
                                statics.last_mut().unwrap().push((path.clone(), svc));
                            }
                            patterns.push(path.clone());
                            run.count("route", "ok");
                            emit(run, &mut ops, &mut ctx, format!("router.route path={} svc={svc}", hexs(path.as_bytes())), "ok".into());
                        }
                        Err(_) => {
                            stack.push(keep);
                            run.count("route", "reject");
                            emit(run, &mut ops, &mut ctx, format!("router.route path={} svc={svc}", hexs(path.as_bytes())), "reject".into());
                        }
                    }
                }
                6 => {
                    let k = rng.below(RPC_NAMES.len() as u64) as usize;
                    let svc = next_svc;
                    next_svc += 1;
                    let top = stack.pop().unwrap();
                    let keep = top.clone();
                    let res = quiet(move || match k {
                        0 => top.add_rpc_service(Rpc0(svc)),
                        1 => top.add_rpc_service(Rpc1(svc)),
                        2 => top.add_rpc_service(Rpc2(svc)),
                        3 => top.add_rpc_service(Rpc3(svc)),
                        _ => top.add_rpc_service(Rpc4(svc)),
                    });
                    let ok = res.is_ok();
                    stack.push(res.unwrap_or(keep));
                    if ok {
                        patterns.push(format!("/{}/*rest", RPC_NAMES[k]));
                        patterns.push(format!("/{}/Method", RPC_NAMES[k]));
                    }
                    run.count("rpc", if ok { "ok" } else { "reject" });
                    emit(run, &mut ops, &mut ctx, format!("router.rpc name={} svc={svc}", hexs(RPC_NAMES[k].as_bytes())), if ok { "ok".into() } else { "reject".into() });
                }
                7 => {
                    let tag = 100 + rng.below(50);
                    let top = stack.pop().unwrap();
                    stack.push(top.route_layer(TagLayer(tag)));
                    run.count("layer", "ok");
                    emit(run, &mut ops, &mut ctx, format!("router.layer tag={tag}"), "ok".into());
                }
                _ => {
                    if stack.len() >= 2 {
                        let b = stack.pop().unwrap();
                        let a = stack.pop().unwrap();
                        let (ka, kb) = (a.clone(), b.clone());
                        match quiet(move || a.merge(b)) {
                            Ok(m) => {
                                stack.push(m);
                                let tb = statics.pop().unwrap();
                                statics.last_mut().unwrap().extend(tb);
                                run.count("merge", "ok");
                                emit(run, &mut ops, &mut ctx, "router.merge".into(), "ok".into());
                            }
                            Err(_) => {
                                stack.push(ka);
                                stack.push(kb);
                                run.count("merge", "reject");
                                emit(run, &mut ops, &mut ctx, "router.merge".into(), "reject".into());
                            }
                        }
                    }
                }
            }
        }
        // calls against the top router
        let top = stack.last().unwrap().clone();
        for path in gen_paths(&mut rng, &patterns) {
            let out = call(&rt, &top, &path);
            run.count("call", if out == "404" { "404" } else if out.starts_with("svc=") { "hit" } else { "other" });
            let op = format!("router.call path={}", hexs(path.as_bytes()));
            if !(out == "404" || out.starts_with("svc=")) {
                let mut o = ops.clone();
                o.push(op.clone());
                run.oracle_fail(json!({"kind": format!("router: {}", out.split(':').next().unwrap_or("?")), "ops": o, "impl": out.clone(), "path": path.chars().take(80).collect::<String>()}));
            }
            // property oracle without the model: a request for exactly a registered capture-free path is
            // answered by the service registered for it (whatever merges and layers came in between)
            if let Some((_, svc)) = statics.last().unwrap().iter().find(|(p, _)| *p == path) {
                if !out.starts_with(&format!("svc={svc} ")) {
                    let mut o = ops.clone();
                    o.push(op.clone());
                    run.oracle_fail(json!({"kind": "router: a request for a registered path was not answered by the service registered for that path", "ops": o, "impl": out.clone(), "expected_service": svc}));
                }
            }
            // property oracle without the model: a route that is served matches one of the patterns somebody
            // tried to register (a superset of the registered ones): it IS a capture-free pattern, or it lies
            // under the fixed part of a wildcard pattern - nothing is served by a "near" pattern
            if out.starts_with("svc=") {
                let explained = patterns.iter().any(|p| match p.split_once('*') {
                    Some((base, _)) => path.starts_with(base),
                    None => *p == path,
                });
                if !explained {
                    let mut o = ops.clone();
                    o.push(op.clone());
                    run.oracle_fail(json!({"kind": "router: a route that matches no registered pattern was served instead of NotFound", "ops": o, "impl": out.clone(), "path": path.chars().take(80).collect::<String>()}));
                }
            }
            // property oracle without the model: empty / slash-less routes are never served
            if (path.is_empty() || !path.starts_with('/')) && out != "404" {
                let mut o = ops.clone();
                o.push(op.clone());
                run.oracle_fail(json!({"kind": "router: a route string without leading slash was served", "ops": o, "impl": out.clone()}));
            }
            emit(run, &mut ops, &mut ctx, op, out);
        }
    }
    Ok(())
}

/// the generated servers of the harness family (build.rs: Alpha without package, pkg.sub.Beta, solo.Gamma)
/// registered with `add_rpc_service`: every method route of the definition must be served, by that
/// service, and a sibling name must not be
fn generated_services(run: &mut Run, rt: &tokio::runtime::Runtime) {
    use crate::codegen::{alpha, beta, gamma, Instr, Msg, H};
    let h = H::default();
    let router = Router::new()
        .add_rpc_service(alpha::alpha_server::AlphaServer::new(h.clone()))
        .route("/other", TagSvc(1))
        .add_rpc_service(beta::beta_server::BetaServer::new(h.clone()))
        .add_rpc_service(gamma::gamma_server::GammaServer::new(h.clone()))
        .route_layer(TagLayer(7))
        .route_layer(TagLayer(8));
    let msg = Msg { id: 1, via: String::new(), instr: Instr::Reply };
    let bin = Bytes::from(bincode::serialize(&msg).unwrap());
    let js = Bytes::from(serde_json::to_vec(&msg).unwrap());
    let cases: [(&str, &Bytes, Option<&str>); 10] = [
        ("/Alpha/Ping", &bin, Some("Alpha.ping")),
        ("/Alpha/RawEcho", &js, Some("Alpha.raw_echo")),
        ("/pkg.sub.Beta/One", &js, Some("Beta.m_one")),
        ("/pkg.sub.Beta/Two", &js, Some("Beta.m_two")),
        ("/pkg.sub.Beta/Three", &bin, Some("Beta.m_three")),
        ("/solo.Gamma/only", &bin, Some("Gamma.only")),
        ("/.Alpha/Ping", &bin, None),
        ("/Beta/One", &js, None),
        ("/pkg.sub.Beta", &js, None),
        ("/Gamma/only", &bin, None),
    ];
    for (path, body, want) in cases {
        let before = h.0.lock().unwrap().len();
        let req = Request::new((*body).clone()).with_route(path);
        let res = quiet(|| rt.block_on(router.clone().oneshot(req)));
        let reached: Vec<String> = h.0.lock().unwrap()[before..].iter().map(|x| x.0.clone()).collect();
        let status = match &res {
            Ok(Ok(r)) => format!("{:?}", r.status()),
            _ => "panic".into(),
        };
        let ok = match want {
            Some(m) => reached == vec![m.to_string()] && status == "Success",
            None => reached.is_empty() && status == "NotFound",
        };
        run.eval(&format!("generated-service {path}"), true);
        run.count("generated-service", if ok { "as-expected" } else { "wrong" });
        if !ok {
            run.oracle_fail(json!({"kind": "router: a generated RPC service registered with add_rpc_service is not reached by (exactly) its own method routes", "path": path, "status": status, "handlers_reached": reached, "expected_handler": want}));
        }
    }
}

fn replay_ops(run: &mut Run, rt: &tokio::runtime::Runtime, path: &std::path::Path) -> anyhow::Result<()> {
    let mut stack: Vec<Router> = vec![];
    for line in std::fs::read_to_string(path)?.lines() {
        let (cmd, a) = crate::out::args(line);
        let s = |k: &str| a.get(k).and_then(|h| crate::out::unhex(h)).map(|b| String::from_utf8_lossy(&b).to_string()).unwrap_or_default();
        let n = |k: &str| a.get(k).and_then(|x| x.parse::<u64>().ok()).unwrap_or(0);
        let out = match cmd.as_str() {
            "router.reset" => {
                stack.clear();
                "ok".to_string()
            }
            "router.new" => {
                stack.push(Router::new());
                "ok".into()
            }
            "router.route" => {
                let top = stack.pop().unwrap_or_else(Router::new);
                let keep = top.clone();
                let (p, v) = (s("path"), n("svc"));
                match quiet(move || top.route(&p, TagSvc(v))) {
                    Ok(r) => {
                        stack.push(r);
                        "ok".into()
                    }
                    Err(_) => {
                        stack.push(keep);
                        "reject".into()
                    }
                }
            }
            "router.rpc" => {
                let top = stack.pop().unwrap_or_else(Router::new);
                let keep = top.clone();
                let k = RPC_NAMES.iter().position(|x| *x == s("name")).unwrap_or(0);
                let v = n("svc");
                let res = quiet(move || match k {
                    0 => top.add_rpc_service(Rpc0(v)),
                    1 => top.add_rpc_service(Rpc1(v)),
                    2 => top.add_rpc_service(Rpc2(v)),
                    3 => top.add_rpc_service(Rpc3(v)),
                    _ => top.add_rpc_service(Rpc4(v)),
                });
                let ok = res.is_ok();
                stack.push(res.unwrap_or(keep));
                if ok { "ok".into() } else { "reject".into() }
            }
            "router.layer" => {
                let top = stack.pop().unwrap_or_else(Router::new);
                stack.push(top.route_layer(TagLayer(n("tag"))));
                "ok".into()
            }
            "router.merge" => {
                if stack.len() < 2 {
                    continue;
                }
                let b = stack.pop().unwrap();
                let a2 = stack.pop().unwrap();
                let (ka, kb) = (a2.clone(), b.clone());
                match quiet(move || a2.merge(b)) {
                    Ok(m) => {
                        stack.push(m);
                        "ok".into()
                    }
                    Err(_) => {
                        stack.push(ka);
                        stack.push(kb);
                        "reject".into()
                    }
                }
            }
            "router.call" => match stack.last() {
                Some(t) => call(rt, t, &s("path")),
                None => continue,
            },
            _ => continue,
        };
        run.op(line.to_string(), out, true);
    }
    Ok(())
}

pub fn _unused(_: Arc<()>) {}
