use crate::fabric::{paused_rt, Fabric};
use crate::net::*;
use anemo::Request;
use bytes::Bytes;

pub fn run() -> anyhow::Result<()> {
    let rt = paused_rt();
    let t0 = std::time::Instant::now();
    rt.block_on(async {
        let fabric = Fabric::new(1);
        let a = start_node(&fabric, 1, 1, Default::default())?;
        let b = start_node(&fabric, 1, 2, Default::default())?;
        let p = a.net.connect(b.addr).await?;
        assert_eq!(p, b.id);
        let resp = a.net.rpc(p, Request::new(Bytes::from_static(b"hello")).with_header("x-id", "r1")).await?;
        println!("status {:?} body {:?} peer {:?}", resp.status(), resp.body(), resp.peer_id().map(pid_hex));
        let big = vec![7u8; 3 << 20];
        let resp = a.net.rpc(p, Request::new(Bytes::from(big)).with_header("x-id", "r2")).await?;
        println!("big resp len {}", resp.body().len());
        tokio::time::sleep(std::time::Duration::from_secs(20)).await;
        println!("peers a={} b={} virtual now={:?} stats={:?}", a.net.peers().len(), b.net.peers().len(), fabric.now(), fabric.stats());
        a.net.shutdown().await?;
        println!("after shutdown virtual now={:?}; b peers={}", fabric.now(), b.net.peers().len());
        tokio::time::sleep(std::time::Duration::from_secs(1)).await;
        println!("b peers={} live clones a={}", b.net.peers().len(), a.svc.live_clones.load(std::sync::atomic::Ordering::SeqCst));
        anyhow::Ok(())
    })?;
    println!("wall {:?}", t0.elapsed());
    Ok(())
}
