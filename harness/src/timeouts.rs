//! C11: request deadlines.  Layer level through the hook constructors under paused time; header
//! parsing/formatting through the public Request API; whole RPCs on the fabric for every
//! present/absent combination of the configured defaults on both ends.
use crate::fabric::{paused_rt, Fabric};
use crate::net::*;
use crate::out::{hexs, Run};
use crate::rng::Rng;
use anemo::types::response::StatusCode;
use anemo::{Config, Request, Response};
use bytes::Bytes;
use serde_json::json;
use std::convert::Infallible;
use std::time::Duration;
use tower::{service_fn, ServiceExt};

const MS: u64 = 1_000_000;

fn header_pool(rng: &mut Rng) -> Option<String> {
    let fixed = ["0", "1", "+5", "-1", " 5", "5 ", "1e3", "", "+", "++1", "18446744073709551615", "18446744073709551616", "0000000000000000000000000000000000000042",
        "٣", "１２", "0x10", "1_000", "99999999999999999999999999", "nan", "300000000", "+300000000", "250000000.0"];
    match rng.below(10) {
        0 | 1 => None,
        2 | 3 => Some((*rng.pick(&fixed)).to_string()),
        4 => Some(crate::wire::gen_string(rng, 12)),
        _ => Some((rng.range(1, 2000) * MS).to_string()),
    }
}

fn parse_model(s: &str) -> Option<u64> {
    // only used to steer the generator away from d == deadline; the oracle is the Lean model
    s.parse::<u64>().ok()
}

fn opt_s(v: Option<u64>) -> String {
    v.map(|x| x.to_string()).unwrap_or_else(|| "none".into())
}

pub fn run_c11(run: &mut Run) -> anyhow::Result<()> {
    let mut rng = Rng::new(run.seed);
    // ---- (a) header parsing and formatting through the public Request API
    let n_parse = if run.quick() { 3000 } else { 200_000 };
    for _ in 0..n_parse {
        let s = match rng.below(4) {
            0 => header_pool(&mut rng).unwrap_or_default(),
            1 => rng.next().to_string(),
            2 => format!("{}{}", if rng.chance(1, 3) { "+" } else { "" }, (rng.next() as u128 * (1 + rng.below(3)) as u128)),
            _ => {
                let mut t = rng.below(1 << 20).to_string();
                if rng.chance(1, 3) {
                    let i = rng.below(t.len() as u64 + 1) as usize;
                    t.insert(i, *rng.pick(&[' ', '-', '+', 'a', '.', '_', '\u{0663}']));
                }
                t
            }
        };
        let got = Request::new(()).with_header("timeout", s.clone()).timeout();
        run.count("parse", if got.is_some() { "some" } else { "none" });
        run.op(format!("timeout.parse header={}", hexs(s.as_bytes())), got.map(|d| format!("some {}", d.as_nanos())).unwrap_or_else(|| "none".into()), true);
    }
    for _ in 0..(n_parse / 10) {
        let d = match rng.below(4) {
            0 => Duration::from_nanos(rng.next()),
            1 => Duration::from_secs(rng.below(1 << 40)),
            2 => Duration::MAX,
            _ => Duration::from_millis(rng.below(100000)),
        };
        let mut r = Request::new(());
        r.set_timeout(d);
        let h = r.headers().get("timeout").cloned().unwrap_or_default();
        // round-trip oracle on the implementation
        let back = r.timeout();
        let want = Duration::from_nanos(d.as_nanos().min(u64::MAX as u128) as u64);
        if back != Some(want) {
            run.oracle_fail(json!({"kind": "set_timeout / timeout() do not round trip", "duration_ns": d.as_nanos().to_string(), "header": h.clone()}));
        }
        run.op(format!("timeout.fmt nanos={}", d.as_nanos()), hexs(h.as_bytes()), true);
    }

    // ---- (b) the two layers under paused time
    let n_layer = if run.quick() { 2500 } else { 150_000 };
    let rt = paused_rt();
    for _ in 0..n_layer {
        let inbound = rng.chance(1, 2);
        let default: Option<u64> = if rng.chance(1, 3) { None } else { Some(rng.range(1, 2000) * MS) };
        let hdr = header_pool(&mut rng);
        let eff = match (default, hdr.as_deref().and_then(parse_model)) {
            (None, None) => None,
            (Some(a), None) => Some(a),
            (None, Some(b)) => Some(b),
            (Some(a), Some(b)) => Some(a.min(b)),
        };
        // handler duration: around the deadline but never equal to it
        let d = match eff {
            Some(e) if rng.chance(2, 3) && e > 2 * MS && e < 100_000 * MS => {
                if rng.chance(1, 2) { e - rng.range(1, e.min(50 * MS) - 1) } else { e + rng.range(1, 50 * MS) }
            }
            _ => {
                let mut x = rng.range(0, 3000) * MS + 7;
                if Some(x) == eff {
                    x += 1;
                }
                x
            }
        };
        // tokio's timer wheel has millisecond granularity: a handler that needs longer than the deadline but
        // finishes within the same millisecond tick is a tie (which the inner call wins); keep clear of it
        let ceil_ms = |x: u64| x.div_ceil(MS);
        let d = match eff {
            Some(e) if d > e && ceil_ms(d) == ceil_ms(e) => d + MS,
            _ => d,
        };
        let hdr2 = hdr.clone();
        let (class, elapsed): (String, u64) = rt.block_on(async move {
            let inner = service_fn(move |_req: Request<Bytes>| async move {
                tokio::time::sleep(Duration::from_nanos(d)).await;
                Ok::<_, Infallible>(Response::new(Bytes::from_static(b"done")))
            });
            let mut req = Request::new(Bytes::new());
            if let Some(h) = hdr2 {
                req = req.with_header("timeout", h);
            }
            let t0 = tokio::time::Instant::now();
            let class = if inbound {
                let svc = anemo::verif::middleware::inbound_timeout(inner, default.map(Duration::from_nanos));
                match svc.oneshot(req).await {
                    Ok(r) if r.status() == StatusCode::RequestTimeout && r.body().is_empty() => "cutoff",
                    Ok(r) if r.status() == StatusCode::Success && r.body().as_ref() == b"done" => "answered",
                    _ => "other",
                }
            } else {
                let svc = anemo::verif::middleware::outbound_timeout(inner, default.map(Duration::from_nanos));
                match svc.oneshot(req).await {
                    Ok(r) if r.body().as_ref() == b"done" => "answered",
                    Err(e) if e.to_string().contains("Timeout expired") => "cutoff",
                    _ => "other",
                }
            };
            (class.to_string(), (tokio::time::Instant::now() - t0).as_nanos() as u64)
        });
        // tokio's timer wheel has millisecond granularity: round the model's instant up to the ms
        let op = format!("timeout.layer default={} header={} d={d}", opt_s(default), hdr.as_ref().map(|h| hexs(h.as_bytes())).unwrap_or_else(|| "none".into()));
        let want_at = match eff {
            Some(e) => d.min(e),
            None => d,
        };
        let at_ok = elapsed >= want_at && elapsed <= want_at + 2 * MS;
        run.count(if inbound { "inbound" } else { "outbound" }, &class);
        if !at_ok {
            run.oracle_fail(json!({"kind": "timeout layer finished at the wrong instant", "ops": [op.clone()], "elapsed_ns": elapsed, "expected_ns": want_at, "direction": if inbound { "inbound" } else { "outbound" }}));
        }
        run.op(op, format!("{class} at={want_at}"), true);
    }
    drop(rt);

    // ---- (c) whole RPCs through two networks: all 16 present/absent combinations of the four defaults
    let n_net = if run.quick() { 220 } else { 8000 };
    for case in 0..n_net {
        let mask = case % 16;
        let pick = |rng: &mut Rng, on: bool| if on { Some(*rng.pick(&[0u64, 200, 300, 500, 800, 1200, 0])) } else { None };
        let out_a = pick(&mut rng, mask & 1 != 0);
        let in_a = pick(&mut rng, mask & 2 != 0);
        let out_b = pick(&mut rng, mask & 4 != 0);
        let in_b = pick(&mut rng, mask & 8 != 0);
        let custom_layer: u8 = match rng.below(6) {
            0 => 1,
            1 | 2 => 2,
            _ => 0,
        };
        let hdr: Option<String> = match rng.below(5) {
            0 | 1 => None,
            2 => Some((*rng.pick(&["", "abc", "-1", "18446744073709551616", " 400000000"])).to_string()),
            _ => Some((*rng.pick(&[250u64, 400, 650, 1000]) * MS).to_string()),
        };
        // handler duration with >= 60 ms distance from every candidate deadline
        let cands: Vec<u64> = [out_a, in_b, hdr.as_deref().and_then(parse_model).map(|n| n / MS)].iter().flatten().copied().collect();
        let mut d_ms = rng.range(50, 1500);
        while cands.iter().any(|c| (*c as i64 - d_ms as i64).abs() < 60) {
            d_ms = rng.range(50, 1500);
        }
        let seed = run.seed;
        let hdr2 = hdr.clone();
        let rtm = paused_rt();
        let res: anyhow::Result<(String, u64, (u64, u64, u64))> = rtm.block_on(async move {
            let fabric = Fabric::new(seed ^ case as u64);
            let mk = |o: Option<u64>, i: Option<u64>| {
                let mut c: Config = config_idle(60_000);
                c.outbound_request_timeout_ms = o;
                c.inbound_request_timeout_ms = i;
                c
            };
            let a = start_node_opts(&fabric, 1, key_of(seed, 1), "verif", None, mk(out_a, in_a), custom_layer)?;
            let b = start_node_opts(&fabric, 2, key_of(seed, 2), "verif", None, mk(out_b, in_b), 0)?;
            let p = a.net.connect(b.addr).await?;
            let mut req = Request::new(Bytes::from_static(b"t")).with_header("x-id", "t1").with_header("x-sleep-ms", d_ms.to_string());
            if let Some(h) = hdr2 {
                req = req.with_header("timeout", h);
            }
            let t0 = tokio::time::Instant::now();
            let r = tokio::time::timeout(Duration::from_secs(30), a.net.rpc(p, req)).await;
            let el = (tokio::time::Instant::now() - t0).as_millis() as u64;
            let class = match r {
                Err(_) => "hang".to_string(),
                Ok(Ok(resp)) if resp.status() == StatusCode::Success => "answered".into(),
                Ok(Ok(resp)) if resp.status() == StatusCode::RequestTimeout => "callee-cutoff".into(),
                Ok(Ok(resp)) => format!("status-{}", resp.status().to_u16()),
                Ok(Err(e)) if format!("{e:#}").contains("Timeout expired") => "caller-timeout".into(),
                Ok(Err(e)) => format!("error:{}", format!("{e:#}").replace(' ', "_")),
            };
            tokio::time::sleep(Duration::from_millis(300)).await;
            let lc = b.svc.log.lock().unwrap().lifecycle.get("t1").copied().unwrap_or((0, 0, 0));
            Ok((class, el, lc))
        });
        drop(rtm);
        let (class, el, lc) = res?;
        let op = format!(
            "timeout.e2e out={} in={} header={} d={}",
            opt_s(out_a.map(|x| x * MS)),
            opt_s(in_b.map(|x| x * MS)),
            hdr.as_ref().map(|h| hexs(h.as_bytes())).unwrap_or_else(|| "none".into()),
            d_ms * MS
        );
        run.count("e2e", &class);
        run.count("e2e-config", &format!("mask{mask:02}{}", ["", "+layer", "+layer-before-config"][custom_layer as usize]));
        // implementation-only oracle: handler dropped (not run to completion) whenever it was cut off
        let mut bad = None;
        if class == "callee-cutoff" && !(lc.0 == 1 && lc.2 == 1 && lc.1 == 0) {
            bad = Some(format!("callee replied RequestTimeout but the handler was not dropped (started,finished,dropped)={lc:?}"));
        }
        if class == "answered" && (el < d_ms || el > d_ms + 40) {
            bad = Some(format!("answered after {el} ms by a handler needing {d_ms} ms"));
        }
        if class.starts_with("hang") || class.starts_with("error") || class.starts_with("status-") {
            bad = Some(format!("unexpected RPC result {class}"));
        }
        if let Some(b) = bad {
            run.oracle_fail(json!({"kind": b, "ops": [op.clone()], "configured": {"caller_out_ms": out_a, "caller_in_ms": in_a, "callee_out_ms": out_b, "callee_in_ms": in_b, "custom_outbound_layer": custom_layer}}));
        }
        // the property's own oracle, independent of the model
        let h = hdr.as_deref().and_then(parse_model).map(|n| n / MS);
        let min2 = |a: Option<u64>, b: Option<u64>| match (a, b) {
            (None, x) | (x, None) => x,
            (Some(x), Some(y)) => Some(x.min(y)),
        };
        let (e_out, e_in) = (min2(out_a, h), min2(in_b, h));
        let want = match (e_out, e_in) {
            _ if e_out.map(|o| d_ms < o).unwrap_or(true) && e_in.map(|i| d_ms < i).unwrap_or(true) => "answered",
            (Some(o), Some(i)) if i < o => "callee-cutoff",
            (None, Some(_)) => "callee-cutoff",
            (Some(o), Some(i)) if o < i => "caller-timeout",
            (Some(_), None) => "caller-timeout",
            (Some(o), Some(i)) if o == i => "either",
            _ => "?",
        };
        if want != "either" && want != class {
            run.oracle_fail(json!({"kind": "request deadline is not min(local default, header)", "expected": want, "observed": class.clone(), "ops": [op.clone()],
                "configured": {"caller_out_ms": out_a, "caller_in_ms": in_a, "callee_out_ms": out_b, "callee_in_ms": in_b, "custom_outbound_layer": custom_layer}, "handler_ms": d_ms, "header": hdr.clone()}));
        }
        if want != "either" {
            run.op(op, class, true);
        }
    }

    // ---- (d) the deadline runs from the moment the call is made, also while it waits for QUIC stream
    // credit: the callee allows few concurrent streams, all taken by slow requests without a deadline
    let n_credit = if run.quick() { 8 } else { 300 };
    for case in 0..n_credit {
        let streams = 1 + rng.below(2);
        // (the deadline comes from the header: a caller-side default would cut the slow requests as well and free their streams)
        let via_header = true;
        let deadline_ms = *rng.pick(&[200u64, 300, 500]);
        let slow_ms = 2000 + rng.below(1500);
        let seed = run.seed ^ 0xc11d ^ ((case as u64) << 12);
        let rtm = paused_rt();
        let res: anyhow::Result<(String, u64)> = rtm.block_on(async move {
            let fabric = Fabric::new(seed);
            let mut ca: Config = config_idle(60_000);
            if !via_header {
                ca.outbound_request_timeout_ms = Some(deadline_ms);
            }
            let mut cb: Config = config_idle(60_000);
            let mut q = anemo::QuicConfig::default();
            q.max_idle_timeout_ms = Some(60_000);
            q.max_concurrent_bidi_streams = Some(streams);
            cb.quic = Some(q);
            let a = start_node(&fabric, seed, 1, ca)?;
            let b = start_node(&fabric, seed, 2, cb)?;
            let p = a.net.connect(b.addr).await?;
            for i in 0..streams {
                let net = a.net.clone();
                // slow requests carry their own generous header so that the caller's default does not cut them
                tokio::spawn(async move { net.rpc(p, Request::new(Bytes::from_static(b"s")).with_header("x-id", format!("slow{i}")).with_header("x-sleep-ms", slow_ms.to_string()).with_timeout(Duration::from_secs(3600))).await });
            }
            tokio::time::sleep(Duration::from_millis(100)).await;
            let mut req = Request::new(Bytes::from_static(b"t")).with_header("x-id", "late");
            if via_header {
                req = req.with_header("timeout", (deadline_ms * MS).to_string());
            }
            let t0 = tokio::time::Instant::now();
            let r = tokio::time::timeout(Duration::from_secs(60), a.net.rpc(p, req)).await;
            let el = (tokio::time::Instant::now() - t0).as_millis() as u64;
            let class = match r {
                Err(_) => "hang".to_string(),
                Ok(Ok(resp)) => format!("answered-{}", resp.status().to_u16()),
                Ok(Err(e)) if format!("{e:#}").contains("Timeout expired") => "caller-timeout".into(),
                Ok(Err(e)) => format!("error:{}", format!("{e:#}").replace(' ', "_")),
            };
            Ok((class, el))
        });
        drop(rtm);
        let (class, el) = res?;
        run.eval(&format!("credit case {case}"), true);
        run.count("no-stream-credit", &class);
        // with `with_timeout` on the slow requests a caller default larger than... the slow ones hold their
        // streams for slow_ms >= 2 s; the late call must fail at its own deadline, not when credit returns
        if class != "caller-timeout" || el < deadline_ms || el > deadline_ms + 60 {
            run.oracle_fail(json!({"kind": "a call waiting for stream credit is not cut off at its deadline", "observed": class, "elapsed_ms": el, "deadline_ms": deadline_ms, "deadline_from": if via_header { "timeout header" } else { "outbound default" },
                "callee_max_concurrent_bidi_streams": streams, "slow_requests_ms": slow_ms}));
        }
    }

    // ---- (e) handlers of GENERATED servers are dropped at the deadline too (typed handlers run behind
    // rpc::server::Rpc::unary)
    {
        use crate::codegen::{beta, Instr, Msg, H};
        let rt = paused_rt();
        for case in 0..(if run.quick() { 6 } else { 200 }) {
            let deadline_ms = *rng.pick(&[100u64, 300, 700]);
            let need_ms = deadline_ms + 200 + rng.below(1500);
            let via_header = rng.chance(1, 2);
            let h = H::default();
            let h2 = h.clone();
            let (status, el, dropped_after, finished): (u16, u64, bool, bool) = rt.block_on(async move {
                let server = beta::beta_server::BetaServer::new(h2.clone());
                let svc = anemo::verif::middleware::inbound_timeout(server, if via_header { None } else { Some(Duration::from_millis(deadline_ms)) });
                let (route, body) = if case % 2 == 0 {
                    ("/pkg.sub.Beta/One", Bytes::from(serde_json::to_vec(&Msg { id: 7, via: String::new(), instr: Instr::Sleep { ms: need_ms } }).unwrap()))
                } else {
                    ("/pkg.sub.Beta/Three", Bytes::from(bincode::serialize(&Msg { id: 7, via: String::new(), instr: Instr::Sleep { ms: need_ms } }).unwrap()))
                };
                let mut req = Request::new(body).with_route(route);
                if via_header {
                    req = req.with_header("timeout", (deadline_ms * MS).to_string());
                }
                let t0 = tokio::time::Instant::now();
                let resp = svc.oneshot(req).await.unwrap();
                let el = (tokio::time::Instant::now() - t0).as_millis() as u64;
                tokio::time::sleep(Duration::from_millis(20)).await;
                let d = h2.1.lock().unwrap().clone();
                tokio::time::sleep(Duration::from_millis(need_ms + 100)).await;
                let fin = h2.1.lock().unwrap().iter().any(|x| x.1);
                (resp.status().to_u16(), el, d.iter().any(|x| x.0 == 7 && !x.1), fin)
            });
            run.eval(&format!("generated-handler-drop case {case}"), true);
            run.count("generated-handler-at-deadline", if dropped_after { "dropped" } else { "alive" });
            if status != 408 || el < deadline_ms || el > deadline_ms + 5 || !dropped_after || finished {
                run.oracle_fail(json!({"kind": "a typed handler of a generated server is not dropped at the deadline", "status": status, "elapsed_ms": el, "deadline_ms": deadline_ms, "handler_needs_ms": need_ms,
                    "handler_future_dropped_at_deadline": dropped_after, "handler_ran_to_completion_later": finished}));
            }
        }
    }
    // ---- (f) the timeout header set on a typed Request travels with a GENERATED client's call
    {
        use crate::codegen::{beta, Instr, Msg, H};
        let rt = paused_rt();
        for case in 0..(if run.quick() { 4 } else { 80 }) {
            let deadline_ms = *rng.pick(&[150u64, 400, 900]);
            let need_ms = deadline_ms + 300 + rng.below(1000);
            let h = H::default();
            let h2 = h.clone();
            let (outcome, el): (String, u64) = rt.block_on(async move {
                let server = beta::beta_server::BetaServer::new(h2.clone());
                let svc = anemo::verif::middleware::inbound_timeout(server, None);
                let mut client = beta::beta_client::BetaClient::new(svc);
                let req = Request::new(Msg { id: 9, via: String::new(), instr: Instr::Sleep { ms: need_ms } }).with_timeout(Duration::from_millis(deadline_ms));
                let t0 = tokio::time::Instant::now();
                let r = if case % 2 == 0 { client.m_one(req).await } else { client.m_three(req).await };
                let el = (tokio::time::Instant::now() - t0).as_millis() as u64;
                (match r {
                    Ok(_) => "answered".to_string(),
                    Err(s) => format!("status-{}", s.status().to_u16()),
                }, el)
            });
            run.eval(&format!("typed-client-header case {case}"), true);
            run.count("typed-client-header", &outcome);
            if outcome != "status-408" || el < deadline_ms || el > deadline_ms + 5 {
                run.oracle_fail(json!({"kind": "the timeout header of a typed Request did not bound a generated client's call", "observed": outcome, "elapsed_ms": el, "header_deadline_ms": deadline_ms, "handler_needs_ms": need_ms}));
            }
        }
    }
    Ok(())
}
