//! C13: background dialing.  (A) the backoff arithmetic through the hook against the model;
//! (B) a dialer network on the fabric over long virtual time spans with a known-peer table that
//! mixes live, dead and foreign addresses, a reachability schedule (targets die and come back) and
//! explicit dials that occupy connecting slots; every connectivity check is observed at its trace
//! point and accepted tick by tick by the Lean `tick` model.
use crate::fabric::{paused_rt, Fabric};
use crate::net::*;
use crate::out::Run;
use crate::rng::Rng;
use anemo::types::{PeerAffinity, PeerInfo};
use anemo::verif::VerifBackoff;
use anemo::{Config, Network, PeerId};
use serde_json::json;
use std::collections::{BTreeMap, HashMap};
use std::net::SocketAddr;
use std::sync::{Arc, Mutex};
use std::time::Duration;

#[derive(Default)]
struct Trace {
    /// (virtual ms, connected set at the tick)
    ticks: Vec<(u64, Vec<PeerId>)>,
    /// (virtual ms, peer, address) of every dial the manager started
    dials: Vec<(u64, Option<PeerId>, String)>,
}

pub fn run_c13(run: &mut Run) -> anyhow::Result<()> {
    let mut rng = Rng::new(run.seed);
    // ---- (A) backoff arithmetic
    let n_arith = if run.quick() { 400 } else { 20_000 };
    for _ in 0..n_arith {
        let step = *rng.pick(&[0u64, 1, 7, 1000, 10_000, 33_333]) + rng.below(3);
        let max = *rng.pick(&[0u64, 1, 5_000, 60_000, 120_000, 10_000_000]);
        let k = 1 + rng.below(30);
        let now = std::time::Instant::now();
        let mut b = VerifBackoff::new(now, Duration::from_millis(step), Duration::from_millis(max));
        for _ in 1..k {
            b.update(now, Duration::from_millis(step), Duration::from_millis(max));
        }
        let delta = (b.backoff() - now).as_millis();
        run.op(format!("tick.backoff step={step} max={max} k={k}"), format!("delta={delta} attempts={}", b.attempts()), true);
        if delta as u64 != max.min(step * k) {
            run.oracle_fail(json!({"kind": "backoff after k consecutive failures is not min(max, k*step)", "step_ms": step, "max_ms": max, "k": k, "delta_ms": delta.to_string()}));
        }
    }
    // ---- (B) fabric scenarios
    let nscen = std::env::var("VERIF_C13_SCEN").ok().and_then(|s| s.parse().ok()).unwrap_or(if run.quick() { 40 } else { 1500 });
    for sc in 0..nscen {
        run.mark(&format!("scenario dialing {sc} seed {} (re-run with ./check C13 --seed <seed>)", run.seed));
        scenario(run, &mut rng, sc as u64)?;
    }
    crate::peers::blocked_handler(run, if run.quick() { 1 } else { 4 }, "redial")?;
    for case in 0..(if run.quick() { 3 } else { 60 }) {
        reinsert_while_dialing(run, case)?;
    }
    for case in 0..(if run.quick() { 3 } else { 40 }) {
        dial_at_connection_limit(run, case)?;
    }
    for case in 0..(if run.quick() { 3 } else { 30 }) {
        ipv6_known_peer(run, case)?;
    }
    Ok(())
}

/// "A usable address" includes IPv6 ones, in each of the three forms an `Address` can take: a High-affinity
/// peer known only by an IPv6 address must be connected within a few checks (both ends on IPv6 endpoints
/// of the fabric).
fn ipv6_known_peer(run: &mut Run, case: u64) -> anyhow::Result<()> {
    let seed = run.seed ^ 0x13_a6 ^ (case << 12);
    run.mark(&format!("scenario ipv6_known_peer case {case} seed {} (re-run with ./check C13 --seed <seed>)", run.seed));
    let rt = paused_rt();
    let res: anyhow::Result<(bool, String)> = rt.block_on(async move {
        let fabric = Fabric::new(seed);
        let a6 = |n: u16| SocketAddr::from((std::net::Ipv6Addr::new(0xfd00, 0, 0, 0, 0, 0, 0, n), 4000 + n));
        let mut cfg: Config = config_idle(60_000);
        cfg.connectivity_check_interval_ms = Some(1_000);
        let d = start_node_at(&fabric, a6(1), key_of(seed, 1), cfg)?;
        let t = start_node_at(&fabric, a6(2), key_of(seed, 2), config_idle(60_000))?;
        let address: anemo::types::Address = match case % 3 {
            0 => t.addr.into(),
            1 => anemo::types::Address::HostAndPort { host: "fd00::2".into(), port: t.addr.port() },
            _ => anemo::types::Address::AddressString(t.addr.to_string().into()),
        };
        let shown = format!("{address}");
        d.net.known_peers().insert(PeerInfo { peer_id: t.id, affinity: PeerAffinity::High, address: vec![address] });
        tokio::time::sleep(Duration::from_millis(4_500)).await;
        Ok((d.net.peers().contains(&t.id), shown))
    });
    drop(rt);
    let (ok, shown) = res?;
    run.eval(&format!("ipv6-known-peer {case}"), true);
    run.count("ipv6-known-peer", if ok { "connected" } else { "not-connected" });
    if !ok {
        run.oracle_fail(json!({"kind": "a reachable High-affinity peer known by an IPv6 address was not connected by background dialing", "address": shown, "seed": run.seed, "case": case}));
    }
    Ok(())
}

/// Background dials to High-affinity peers are not subject to the connection limit: the dialer's limit is
/// reached (an unknown inbound peer, or other High-affinity peers, hold the slots) and a reachable High
/// peer must still be connected within a few checks.
fn dial_at_connection_limit(run: &mut Run, case: u64) -> anyhow::Result<()> {
    let seed = run.seed ^ 0x13_c1 ^ (case << 12);
    run.mark(&format!("scenario dial_at_connection_limit case {case} seed {} (re-run with ./check C13 --seed <seed>)", run.seed));
    let rt = paused_rt();
    let res: anyhow::Result<(usize, usize)> = rt.block_on(async move {
        let fabric = Fabric::new(seed);
        let mut cfg: Config = config_idle(60_000);
        cfg.connectivity_check_interval_ms = Some(1_000);
        cfg.max_concurrent_connections = Some(1);
        let d = start_node(&fabric, seed, 1, cfg)?;
        let ntargets = 1 + (case % 3) as u16;
        let mut targets = vec![];
        for i in 0..ntargets {
            targets.push(start_node(&fabric, seed, 10 + i, config_idle(60_000))?);
        }
        if case % 2 == 0 {
            // an unknown peer takes the only slot first
            let u = start_node(&fabric, seed, 5, config_idle(60_000))?;
            u.net.connect(d.addr).await?;
            std::mem::forget(u);
        }
        for t in &targets {
            d.net.known_peers().insert(PeerInfo { peer_id: t.id, affinity: PeerAffinity::High, address: vec![t.addr.into()] });
        }
        tokio::time::sleep(Duration::from_millis(6_500)).await;
        let n = targets.iter().filter(|t| d.net.peers().contains(&t.id)).count();
        Ok((n, targets.len()))
    });
    drop(rt);
    let (n, want) = res?;
    run.eval(&format!("dial-at-connection-limit {case}"), true);
    run.count("dial-at-connection-limit", if n == want { "all-connected" } else { "starved" });
    if n != want {
        run.oracle_fail(json!({"kind": "a reachable High-affinity peer was not connected by background dialing while the connection limit was reached", "connected": n, "high_affinity_peers": want, "limit": 1, "seed": run.seed, "case": case}));
    }
    Ok(())
}

/// "Never dials peers already being dialed", across edits of the known-peer table: a High-affinity peer
/// whose only address is a black hole is being dialled (the dial stays in flight for the connect timeout);
/// the application removes the entry and inserts it again; no second dial may start while the first is in
/// flight, and the next one must respect the backoff of the first failure.
fn reinsert_while_dialing(run: &mut Run, case: u64) -> anyhow::Result<()> {
    let seed = run.seed ^ 0x13_2e ^ (case << 12);
    run.mark(&format!("scenario reinsert_while_dialing case {case} seed {} (re-run with ./check C13 --seed <seed>)", run.seed));
    let interval = 1_000u64;
    let connect_timeout = 6_000 + 1_000 * (case % 3);
    let step = 3_000u64;
    let rt = paused_rt();
    let dials: Arc<Mutex<Vec<u64>>> = Arc::new(Mutex::new(vec![]));
    let d2 = dials.clone();
    let res: anyhow::Result<()> = rt.block_on(async move {
        anemo::verif::set_tick_jitter_ms(Some(0));
        let fabric = Fabric::new(seed);
        let mut cfg: Config = config_idle(60_000);
        cfg.connectivity_check_interval_ms = Some(interval);
        cfg.connect_timeout_ms = Some(connect_timeout);
        cfg.connection_backoff_ms = Some(step);
        cfg.max_connection_backoff_ms = Some(60_000);
        let start = tokio::time::Instant::now();
        let d = start_node(&fabric, seed, 1, cfg)?;
        let own = d.id;
        let target = PeerId(key_of(seed, 77));
        anemo::verif::set_point_callback(Some(Arc::new(move |pi: &anemo::verif::PointInfo| {
            if pi.own == Some(own) && pi.name == "cm.dial" && pi.peer == Some(target) {
                d2.lock().unwrap().push((tokio::time::Instant::now() - start).as_millis() as u64);
            }
        })));
        let info = || PeerInfo { peer_id: target, affinity: PeerAffinity::High, address: vec![Fabric::addr(240).into()] };
        d.net.known_peers().insert(info());
        // wait for the first dial, then edit the table between checks
        tokio::time::sleep(Duration::from_millis(interval + 400)).await;
        d.net.known_peers().remove(&target);
        tokio::time::sleep(Duration::from_millis(interval * (1 + case % 2))).await;
        d.net.known_peers().insert(info());
        tokio::time::sleep(Duration::from_millis(connect_timeout + step + 3 * interval)).await;
        anemo::verif::set_point_callback(None);
        anemo::verif::set_tick_jitter_ms(None);
        drop(d);
        Ok(())
    });
    drop(rt);
    res?;
    let v = dials.lock().unwrap().clone();
    run.eval(&format!("reinsert-while-dialing {case}"), true);
    run.count("reinsert-while-dialing", &format!("dials={}", v.len().min(4)));
    if v.is_empty() {
        run.oracle_fail(json!({"kind": "a High-affinity known peer with an address was never dialled", "case": case}));
    } else {
        let first_end = v[0] + connect_timeout;
        if let Some(second) = v.get(1) {
            if *second < first_end {
                run.oracle_fail(json!({"kind": "a peer that is already being dialled was dialled again (after its known-peer entry was removed and re-inserted)", "dial_instants_ms": v.clone(), "first_dial_in_flight_until_ms": first_end, "seed": run.seed, "case": case}));
            } else if *second <= first_end + step.min(60_000) - interval {
                run.oracle_fail(json!({"kind": "the dial after a failed one came sooner than the backoff step after the failure was noticed", "dial_instants_ms": v.clone(), "first_dial_failed_at_ms": first_end, "step_ms": step, "seed": run.seed, "case": case}));
            }
        }
    }
    Ok(())
}

struct Target {
    idx: u16,
    key: [u8; 32],
    id: PeerId,
    addr: SocketAddr,
    node: Option<Node>,
}

fn scenario(run: &mut Run, rng: &mut Rng, sc: u64) -> anyhow::Result<()> {
    let seed = run.seed ^ (sc << 16) ^ 0xC13;
    let interval = *rng.pick(&[2_000u64, 3_000, 5_000]);
    let connect_timeout = *rng.pick(&[700u64, 1_300, interval + 1_300, 2 * interval + 700]);
    // an unanswered dial ends at the connect timeout or at QUIC's idle timeout (4 s here), whichever is first
    let idle_ms = 4_300u64; // never a multiple of the tick interval: a dial must not end exactly at a tick
    let fail_after = connect_timeout.min(idle_ms);
    let step = *rng.pick(&[1_000u64, 2_500, 4_000, 10_000]);
    let max = *rng.pick(&[3_000u64, 9_000, 60_000]);
    let cap = *rng.pick(&[0usize, 1, 2, 3, 100, 100]);
    let ntargets = 2 + rng.below(4) as u16;
    let duration_ms = if run.quick() { 90_000 } else { 600_000 };
    let trace: Arc<Mutex<Trace>> = Arc::new(Mutex::new(Trace::default()));
    if std::env::var("VERIF_DEBUG").is_ok() {
        eprintln!("scenario {sc}: interval={interval} connect_timeout={connect_timeout} step={step} max={max} cap={cap} targets={ntargets}");
        let t3 = trace.clone();
        std::thread::spawn(move || loop {
            std::thread::sleep(Duration::from_secs(2));
            let g = t3.lock().unwrap();
            eprintln!("trace: ticks={} dials={} last_dials={:?}", g.ticks.len(), g.dials.len(), g.dials.iter().rev().take(3).map(|d| (d.0, d.2.clone())).collect::<Vec<_>>());
        });
    }
    let rt = paused_rt();
    let quick = run.quick();
    let mut lrng = rng.fork(sc);
    let tr2 = trace.clone();
    let trace_rt = trace.clone();
    struct Out {
        lines: Vec<(String, String)>,
        problems: Vec<serde_json::Value>,
        stats: BTreeMap<String, u64>,
    }
    let out: anyhow::Result<Out> = rt.block_on(async move {
        let _ = quick;
        let trace = trace_rt;
        let fabric = Fabric::new(seed);
        if std::env::var("VERIF_DEBUG").is_ok() {
            let f2 = fabric.clone();
            f2.enable_log(true);
            std::thread::spawn(move || loop {
                std::thread::sleep(Duration::from_secs(2));
                let log = f2.take_log();
                let mut m: std::collections::BTreeMap<String, usize> = Default::default();
                for l in log.iter() {
                    *m.entry(format!("{}->{} len{} first{:02x} drop{}", l.src, l.dst, l.len, l.first, l.dropped)).or_default() += 1;
                }
                let mut v: Vec<_> = m.into_iter().collect();
                v.sort_by_key(|x| std::cmp::Reverse(x.1));
                eprintln!("fabric stats {:?} last_at={:?} top={:?}", f2.stats(), log.last().map(|l| l.at), &v[..v.len().min(2)]);
            });
        }
        anemo::verif::set_tick_jitter_ms(Some(0));
        // targets
        let mut targets: Vec<Target> = vec![];
        for i in 0..ntargets {
            let idx = 10 + i;
            let key = key_of(seed, idx);
            let mut c = config_idle(idle_ms);
            c.connectivity_check_interval_ms = Some(3_600_000);
            let node = start_node_with(&fabric, idx, key, "verif", None, c)?;
            targets.push(Target { idx, key, id: node.id, addr: node.addr, node: Some(node) });
        }
        // the dialer
        let mut cfg: Config = config_idle(idle_ms);
        cfg.connectivity_check_interval_ms = Some(interval);
        cfg.connect_timeout_ms = Some(connect_timeout);
        cfg.connection_backoff_ms = Some(step);
        cfg.max_connection_backoff_ms = Some(max);
        cfg.max_concurrent_outstanding_connecting_connections = Some(cap);
        let start = tokio::time::Instant::now();
        let d = start_node(&fabric, seed, 1, cfg)?;
        let own = d.id;
        let weak = d.net.downgrade();
        // trace points of the dialer's manager
        anemo::verif::set_point_callback(Some(Arc::new(move |pi: &anemo::verif::PointInfo| {
            if pi.own != Some(own) {
                return;
            }
            let now = (tokio::time::Instant::now() - start).as_millis() as u64;
            match pi.name {
                "cm.tick" => {
                    let conn = weak.upgrade().map(|n: Network| n.peers()).unwrap_or_default();
                    tr2.lock().unwrap().ticks.push((now, conn));
                }
                "cm.dial" => tr2.lock().unwrap().dials.push((now, pi.peer, pi.detail.unwrap_or("").to_string())),
                _ => {}
            }
        })));
        // known-peer table: every target with an address list mixing its live address, dead
        // addresses and (sometimes) another target's address; plus odd entries
        let dead = |k: u16| Fabric::addr(200 + k);
        let mut known: HashMap<PeerId, (String, Vec<SocketAddr>)> = HashMap::new();
        let mut model_lines: Vec<(String, String)> = vec![];
        let num = |p: &PeerId, targets: &Vec<Target>| -> u64 { targets.iter().find(|t| t.id == *p).map(|t| t.idx as u64).unwrap_or(if *p == own { 1 } else { 99 }) };
        model_lines.push((format!("tick.reset own=1 cap={cap} step={step} max={max}"), "ok".into()));
        for (ti, t) in targets.iter().enumerate() {
            let aff = *lrng.pick(&["high", "high", "high", "allowed", "never"]);
            let mut addrs = vec![];
            let na = lrng.below(4) as usize;
            for j in 0..na {
                let a = match lrng.below(4) {
                    0 | 1 => t.addr,
                    2 => dead((ti * 4 + j) as u16),
                    _ => targets[(ti + 1) % targets.len()].addr, // somebody else answers there
                };
                if !addrs.contains(&a) {
                    addrs.push(a);
                }
            }
            let affinity = match aff {
                "high" => PeerAffinity::High,
                "allowed" => PeerAffinity::Allowed,
                _ => PeerAffinity::Never,
            };
            d.net.known_peers().insert(PeerInfo { peer_id: t.id, affinity, address: addrs.iter().map(|a| (*a).into()).collect() });
            model_lines.push((format!("tick.known peer={} aff={aff} naddr={}", t.idx, addrs.len()), "ok".into()));
            known.insert(t.id, (aff.to_string(), addrs));
        }
        // ourselves as a High peer with an address: must never be dialled
        d.net.known_peers().insert(PeerInfo { peer_id: own, affinity: PeerAffinity::High, address: vec![d.addr.into()] });
        model_lines.push(("tick.known peer=1 aff=high naddr=1".into(), "ok".into()));
        known.insert(own, ("high".into(), vec![d.addr]));

        // run, with a reachability schedule and explicit dials that occupy connecting slots
        let mut explicit: Vec<(u64, u64)> = vec![]; // (start ms, end ms) of explicit dials to black holes
        // reachability schedule per target: (time, up?)
        let mut updown: HashMap<PeerId, Vec<(u64, bool)>> = targets.iter().map(|t| (t.id, vec![(0u64, true)])).collect();
        let mut t_ms = 0u64;
        let mut stats: BTreeMap<String, u64> = BTreeMap::new();
        while t_ms < duration_ms {
            let dt = 500 + lrng.below(2_500);
            tokio::time::sleep(Duration::from_millis(dt)).await;
            t_ms = (tokio::time::Instant::now() - start).as_millis() as u64;
            if std::env::var("VERIF_DEBUG").is_ok() {
                eprintln!("t={t_ms} stats={:?} fabric={:?}", stats, fabric.stats());
            }
            // keep clear of tick instants (+-250 ms) for any state change
            let phase = t_ms % interval;
            if phase < 250 || phase > interval - 250 {
                continue;
            }
            match lrng.below(12) {
                0 | 1 => {
                    // a target dies
                    let ti = lrng.below(targets.len() as u64) as usize;
                    if let Some(n) = targets[ti].node.take() {
                        fabric.remove(targets[ti].addr);
                        updown.get_mut(&targets[ti].id).unwrap().push((t_ms, false));
                        let _ = n.net.shutdown().await;
                        *stats.entry("target-down".into()).or_default() += 1;
                    }
                }
                2 | 3 => {
                    // a dead target comes back at the same address with the same identity
                    let ti = lrng.below(targets.len() as u64) as usize;
                    // not while a dial to its address is still in flight (the retransmitted Initial
                    // would reach the revived node and the dial's outcome would depend on the race)
                    let a = targets[ti].addr.to_string();
                    let in_flight = trace.lock().unwrap().dials.iter().any(|d| d.2 == a && d.0 + fail_after + 100 >= t_ms);
                    if targets[ti].node.is_none() && !in_flight {
                        let mut c = config_idle(idle_ms);
                        c.connectivity_check_interval_ms = Some(3_600_000);
                        targets[ti].node = Some(start_node_with(&fabric, targets[ti].idx, targets[ti].key, "verif", None, c)?);
                        updown.get_mut(&targets[ti].id).unwrap().push((t_ms, true));
                        *stats.entry("target-up".into()).or_default() += 1;
                    }
                }
                4 => {
                    // the application dials a black hole: occupies a connecting slot for connect_timeout
                    let net = d.net.clone();
                    let a = dead(150 + lrng.below(20) as u16);
                    let now = (tokio::time::Instant::now() - start).as_millis() as u64;
                    // stay clear of ticks at the end as well
                    if (now + fail_after) % interval > 250 && (now + fail_after) % interval < interval - 250 {
                        explicit.push((now, now + fail_after));
                        tokio::spawn(async move {
                            let _ = net.connect(a).await;
                        });
                        *stats.entry("explicit-dial".into()).or_default() += 1;
                    }
                }
                _ => {}
            }
        }
        // ---- final phase (liveness): every target comes back and stays; after at most
        // (number of addresses) x (max backoff + two intervals) every High peer whose list holds its own
        // live address must be connected
        for ti in 0..targets.len() {
            while targets[ti].node.is_none() {
                let now = (tokio::time::Instant::now() - start).as_millis() as u64;
                let a = targets[ti].addr.to_string();
                let in_flight = trace.lock().unwrap().dials.iter().any(|d| d.2 == a && d.0 + fail_after + 100 >= now);
                let phase = now % interval;
                if in_flight || phase < 250 || phase > interval - 250 {
                    tokio::time::sleep(Duration::from_millis(137)).await;
                    continue;
                }
                let mut c = config_idle(idle_ms);
                c.connectivity_check_interval_ms = Some(3_600_000);
                targets[ti].node = Some(start_node_with(&fabric, targets[ti].idx, targets[ti].key, "verif", None, c)?);
                updown.get_mut(&targets[ti].id).unwrap().push((now, true));
            }
        }
        let settle = 4 * (max.min(step * 40) + 2 * interval + fail_after) + 5_000;
        let final_start = (tokio::time::Instant::now() - start).as_millis() as u64;
        let mut dlog = crate::peers::NodeLog::new(&d.net);
        tokio::time::sleep(Duration::from_millis(settle)).await;
        dlog.pump();
        let mut connected_at_end = d.net.peers();
        connected_at_end.extend(dlog.snapshot.iter().copied());
        connected_at_end.extend(dlog.events.iter().filter_map(|e| match e {
            anemo::types::PeerEvent::NewPeer(p) => Some(*p),
            _ => None,
        }));
        anemo::verif::set_point_callback(None);
        anemo::verif::set_tick_jitter_ms(None);

        // ---- turn the trace into one model op per tick
        let tr = std::mem::take(&mut *trace.lock().unwrap());
        let mut problems = vec![];
        // liveness is claimed for peers that are not crowded out by the cap (a check dials the first
        // `cap - being_established` eligible peers in table order, so with a small cap others can starve)
        let contenders = targets.iter().filter(|t| known.get(&t.id).map(|(a, l)| a == "high" && !l.is_empty()).unwrap_or(false)).count();
        if cap >= contenders + 1 {
            for t in targets.iter() {
                let (aff, addrs) = known.get(&t.id).unwrap();
                // connections idle out after 4.3 s here (no keep-alive), so "connected" is judged over the whole final phase
                let seen = connected_at_end.contains(&t.id) || tr.ticks.iter().any(|(at, c)| *at >= final_start && c.contains(&t.id));
                if aff == "high" && addrs.contains(&t.addr) && !seen {
                    problems.push(json!({"kind": "a reachable High-affinity peer was not connected by background dialing", "peer": t.idx, "waited_ms": settle,
                        "addresses": addrs.iter().map(|a| a.to_string()).collect::<Vec<_>>()}));
                }
            }
        }
        // dial bookkeeping: (peer, start, end, ok)
        struct D {
            peer: PeerId,
            start: u64,
            end: u64,
            ok: bool,
            reported: bool,
            counted: std::cell::Cell<bool>,
        }
        let mut bg: Vec<D> = vec![];
        // peer -> (consecutive noticed failures, earliest permitted next attempt)
        let mut fails: HashMap<PeerId, (u64, u64)> = HashMap::new();
        // liveness/up-down bookkeeping is kept simple: outcome of a dial is decided by the address
        // dialled: the peer's own live address while the peer is up => ok (fast); a dead address =>
        // fail at connect_timeout; someone else's address => fail fast (identity mismatch)
        let up_at = |_peer: &PeerId, _t: u64| true; // refined below through the connected sets
        let _ = up_at;
        let mut addr_use: HashMap<PeerId, Vec<usize>> = HashMap::new();
        for (ti, (now, conn)) in tr.ticks.iter().enumerate() {
            let next = tr.ticks.get(ti + 1).map(|t| t.0).unwrap_or(u64::MAX);
            let here: Vec<&(u64, Option<PeerId>, String)> = tr.dials.iter().filter(|d| d.0 >= *now && d.0 < next && d.1.is_some() && known.contains_key(&d.1.unwrap())).collect();
            // explicit dials (no expected peer) are not background dials
            let bg_here: Vec<&(u64, Option<PeerId>, String)> = here.into_iter().filter(|d| d.0 == *now).collect();
            // completions noticed at this tick: background dials that ended before now
            let mut done = vec![];
            for b in bg.iter_mut() {
                if !b.reported && b.end < *now {
                    b.reported = true;
                    done.push(format!("{}:{}", num(&b.peer, &targets), if b.ok { "ok" } else { "fail" }));
                }
            }
            let pending = bg.iter().filter(|b| b.start < *now && b.end > *now).count() + explicit.iter().filter(|e| e.0 < *now && e.1 > *now).count();
            // independent timing oracle: consecutive failures k, noticed now => next attempt strictly after
            // now + min(max, k*step), and (when the cap cannot bind) at the first check after that
            for b in bg.iter() {
                if b.reported && b.end < *now && !b.counted.get() {
                    b.counted.set(true);
                    let e = fails.entry(b.peer).or_insert((0u64, 0u64));
                    if b.ok {
                        *e = (0, 0);
                    } else {
                        e.0 += 1;
                        e.1 = *now + max.min(step * e.0);
                    }
                }
            }
            let mut observed = vec![];
            for (t, p, a) in bg_here.iter().map(|d| (d.0, d.1.unwrap(), d.2.clone())) {
                let (_aff, addrs) = known.get(&p).unwrap();
                let idx = addrs.iter().position(|x| x.to_string() == a).unwrap_or(99);
                // several equal addresses in a list: take the position the rotation predicts if it matches textually
                let cand: Vec<usize> = addrs.iter().enumerate().filter(|(_, x)| x.to_string() == a).map(|(i, _)| i).collect();
                let prev = addr_use.entry(p).or_default();
                let idx = if cand.len() > 1 { *cand.iter().find(|c| prev.last().map(|l| (**c) == (l + 1) % addrs.len()).unwrap_or(**c == 0)).unwrap_or(&idx) } else { idx };
                prev.push(idx);
                observed.push(format!("{}:{}", num(&p, &targets), idx));
                // outcome of this dial, from the reachability schedule: the owner of the dialled address
                // must be up (state changes keep 250 ms clear of ticks, a handshake takes < 60 ms)
                let is_up = |q: &PeerId, at: u64| updown.get(q).map(|v| v.iter().filter(|e| e.0 <= at).last().map(|e| e.1).unwrap_or(true)).unwrap_or(false);
                let owner = targets.iter().find(|x| x.addr.to_string() == a).map(|x| x.id);
                let (ok, end) = match owner {
                    Some(o) if o == p && is_up(&o, t) => (true, t + 60),
                    Some(o) if is_up(&o, t) => (false, t + 60), // somebody else answers: identity mismatch, fast
                    _ => (false, t + fail_after),             // nobody there: times out
                };
                if std::env::var("VERIF_DEBUG").is_ok() {
                    eprintln!("dial t={t} peer={} addr={a} owner={:?} ok={ok} end={end} updown={:?}", num(&p, &targets), owner.map(|o| num(&o, &targets)), owner.and_then(|o| updown.get(&o)));
                }
                if let Some((k, not_before)) = fails.get(&p).copied() {
                    if k > 0 {
                        if t <= not_before {
                            problems.push(json!({"kind": "background dial came sooner than min(max-backoff, k x backoff-step) after the k-th consecutive failure was noticed", "peer": num(&p, &targets), "k": k, "at_ms": t, "not_before_ms": not_before}));
                        } else if cap >= 100 && t > not_before + interval + 50 {
                            problems.push(json!({"kind": "background dial came later than min(max-backoff, k x backoff-step) plus one interval after the k-th consecutive failure was noticed (k counts failures since the last success)", "peer": num(&p, &targets), "k": k, "at_ms": t, "not_before_ms": not_before, "interval_ms": interval}));
                        }
                    }
                }
                bg.push(D { peer: p, start: t, end, ok, reported: false, counted: std::cell::Cell::new(false) });
                // property oracles straight from the trace
                let (aff, _) = known.get(&p).unwrap();
                if p == own || aff != "high" || addrs.is_empty() || conn.contains(&p) {
                    problems.push(json!({"kind": "background dial to a peer that must not be dialled (self / not High / no address / already connected)", "peer": num(&p, &targets), "at_ms": t}));
                }
            }
            observed.sort();
            if cap.saturating_sub(pending) < observed.len() {
                problems.push(json!({"kind": "background dials started although the number of connections being established is at the configured maximum", "cap": cap, "being_established": pending, "started": observed.len(), "at_ms": now}));
            }
            let mut c: Vec<u64> = conn.iter().map(|p| num(p, &targets)).collect();
            c.sort();
            let f = |v: &Vec<String>| if v.is_empty() { "-".to_string() } else { v.join(",") };
            model_lines.push((
                format!("tick.run now={now} connected={} pending={pending} done={} observed={}", if c.is_empty() { "-".into() } else { c.iter().map(|x| x.to_string()).collect::<Vec<_>>().join(",") }, f(&done), f(&observed)),
                "ok".into(),
            ));
        }
        *stats.entry("ticks".into()).or_default() += tr.ticks.len() as u64;
        *stats.entry("background-dials".into()).or_default() += bg.len() as u64;
        *stats.entry("dial-ok".into()).or_default() += bg.iter().filter(|b| b.ok).count() as u64;
        // liveness: at the end every High target with its live address first in rotation reach, that has been up
        // for longer than max backoff + 2 intervals + connect time, must be connected
        drop(d);
        Ok(Out { lines: model_lines, problems, stats })
    });
    drop(rt);
    let out = out?;
    let ops: Vec<String> = out.lines.iter().map(|l| l.0.clone()).collect();
    for p in out.problems {
        let mut p = p;
        p["ops"] = json!(ops);
        p["scenario"] = json!({"interval_ms": interval, "connect_timeout_ms": connect_timeout, "step_ms": step, "max_ms": max, "cap": cap});
        run.oracle_fail(p);
    }
    let mut ctx = sc;
    for (op, imp) in out.lines {
        run.op_in(&mut ctx, op, imp);
    }
    for (k, v) in out.stats {
        *run.dist.entry("scenario".into()).or_default().entry(k).or_default() += v;
    }
    run.count("config", &format!("cap={cap}"));
    Ok(())
}
