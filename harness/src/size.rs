//! C15: message size limits.  (i) boundary sizes through the real writer/reader in memory,
//! (ii) whole RPCs on the fabric with the limit placed on the caller, the callee, both or neither.
use crate::fabric::{paused_rt, Fabric};
use crate::net::*;
use crate::out::Run;
use crate::rng::Rng;
use crate::wire::{classify, config_with_max, rt};
use anemo::verif::wire as hook;
use anemo::{Config, Request};
use bytes::Bytes;
use serde_json::json;
use std::time::Duration;
use tokio_util::codec::{FramedRead, FramedWrite};

const MIB8: usize = 8 * 1024 * 1024;

fn fmt_max(max: Option<usize>) -> String {
    max.map(|m| m.to_string()).unwrap_or_else(|| "none".into())
}

/// write a request whose header frame is `rh` bytes (route of rh-16 bytes, no headers) and body `rb`
fn size_enc(max: Option<usize>, rh: usize, rb: usize) -> (String, String) {
    assert!(rh >= 16);
    let op = format!("size.enc max={} rh={} rb={}", fmt_max(max), rh, rb);
    let req = Request::new(Bytes::from(vec![0u8; rb])).with_route("r".repeat(rh - 16));
    let cfg = config_with_max(max);
    let mut w = FramedWrite::new(Vec::<u8>::new(), hook::codec(&cfg));
    let res = futures::executor::block_on(hook::write_request(&mut w, req));
    let written = w.get_ref().len();
    let out = match res {
        Ok(()) => format!("ok written={written}"),
        Err(e) => format!("err {} written={written}", classify(&e)),
    };
    (op, out)
}

/// read a well-formed request stream with header frame `rh` and body `rb` under receiver limit `max`
fn size_dec(max: Option<usize>, rh: usize, rb: usize) -> (String, String) {
    assert!(rh >= 16);
    let op = format!("size.dec max={} rh={} rb={}", fmt_max(max), rh, rb);
    let mut s = b"anemo\x00\x01\x00".to_vec();
    s.extend_from_slice(&(rh as u32).to_be_bytes());
    s.extend_from_slice(&((rh - 16) as u64).to_le_bytes());
    s.extend(std::iter::repeat(b'r').take(rh - 16));
    s.extend_from_slice(&0u64.to_le_bytes());
    s.extend_from_slice(&(rb as u32).to_be_bytes());
    s.extend(std::iter::repeat(0u8).take(rb));
    let cfg = config_with_max(max);
    let mut rd = FramedRead::new(&s[..], hook::codec(&cfg));
    let out = match futures::executor::block_on(hook::read_request(&mut rd)) {
        Ok(r) => {
            if r.body().len() == rb && r.route().len() == rh - 16 {
                "ok".to_string()
            } else {
                "ok-but-truncated".to_string()
            }
        }
        Err(e) => format!("err {}", classify(&e)),
    };
    (op, out)
}

fn cfg_limit(max: Option<usize>) -> Config {
    let mut c = config_idle(30_000);
    c.max_frame_size = max;
    c
}

struct RpcCase {
    cm: Option<usize>,
    sm: Option<usize>,
    rh: usize,
    rb: usize,
    sh: usize,
    sb: usize,
}

fn eff(m: Option<usize>) -> usize {
    m.unwrap_or(MIB8).min(u32::MAX as usize)
}

/// Build a request whose header frame is exactly `rh` bytes and which makes the service answer
/// with a header frame of exactly `sh` bytes and a body of `sb` bytes.
fn build_request(id: &str, rh: usize, rb: usize, sh: usize, sb: usize) -> Option<Request<Bytes>> {
    // response header: 2 + 8 + entry("pad", n) + entry("x-id", id) ; entry = 8+|k|+8+|v|
    let fixed_resp = 2 + 8 + (16 + 3) + (16 + 4 + id.len());
    if sh < fixed_resp {
        return None;
    }
    let pad_n = sh - fixed_resp;
    let mut req = Request::new(Bytes::from(vec![0x11u8; rb]))
        .with_route("/")
        .with_header("x-id", id)
        .with_header("x-resp-len", sb.to_string())
        .with_header("x-resp-hdr-len", pad_n.to_string());
    // request header: 8+1 + 8 + entries
    let cur: usize = 8 + 1 + 8 + req.headers().iter().map(|(k, v)| 16 + k.len() + v.len()).sum::<usize>();
    let need = cur + 16 + 5; // entry "x-pad" with empty value
    if rh < need {
        return None;
    }
    req.headers_mut().insert("x-pad".into(), "q".repeat(rh - need));
    Some(req)
}

pub fn run_c15(run: &mut Run) -> anyhow::Result<()> {
    let mut rng = Rng::new(run.seed);
    // ---- (i) in-memory boundaries
    let limits: Vec<Option<usize>> = vec![Some(16), Some(17), Some(100), Some(1024), Some(1 << 20), Some(MIB8), Some(MIB8 + 5), None];
    for &max in &limits {
        let m = eff(max);
        let mut sizes: Vec<usize> = vec![m.saturating_sub(2), m.saturating_sub(1), m, m + 1, m + 2];
        sizes.push(rng.below(m as u64 + 1) as usize);
        sizes.push(m + 1 + rng.below(1000) as usize);
        for &n in &sizes {
            // body at the boundary, small header
            let (op, out) = size_enc(max, 16, n);
            run.count("mem", if out.starts_with("ok") { "enc-ok" } else { "enc-refused" });
            check_unset_known(run, max, n, &out, "sender");
            run.op(op, out, true);
            let (op, out) = size_dec(max, 16, n);
            run.count("mem", if out.starts_with("ok") { "dec-ok" } else { "dec-refused" });
            check_unset_known(run, max, n, &out, "receiver");
            run.op(op, out, true);
            // header at the boundary, small body
            if n >= 16 {
                let (op, out) = size_enc(max, n, 3);
                check_unset_known(run, max, n, &out, "sender");
                run.op(op, out, true);
                let (op, out) = size_dec(max, n, 3);
                check_unset_known(run, max, n, &out, "receiver");
                run.op(op, out, true);
            }
        }
    }

    // ---- (ii) whole RPCs on the fabric
    let n_cases = if run.quick() { 260 } else { 2500 };
    let place: Vec<(Option<usize>, Option<usize>)> = {
        let ls = [300usize, 1000, 4096, 70_000];
        let mut v = vec![];
        for &l in &ls {
            v.push((Some(l), None));
            v.push((None, Some(l)));
            v.push((Some(l), Some(l)));
            v.push((Some(l), Some(l * 2)));
            v.push((Some(l * 2), Some(l)));
        }
        v.push((None, None));
        v
    };
    for i in 0..n_cases {
        let (cm, sm) = *rng.pick(&place);
        let lim = eff(cm).min(eff(sm));
        let big = cm.is_none() && sm.is_none();
        // pick which of the four frames sits at the boundary
        let which = rng.below(5);
        let around = |rng: &mut Rng| -> usize {
            let base = if big { MIB8 } else { lim };
            (base as i64 + rng.range(0, 4) as i64 - 2).max(0) as usize
        };
        let small = |rng: &mut Rng| 120 + rng.below(60) as usize;
        let mut c = RpcCase { cm, sm, rh: small(&mut rng), rb: rng.below(64) as usize, sh: small(&mut rng), sb: rng.below(64) as usize };
        match which {
            0 => c.rh = around(&mut rng).max(130),
            1 => c.rb = around(&mut rng),
            2 => c.sh = around(&mut rng).max(130),
            3 => c.sb = around(&mut rng),
            _ => {
                // the frame sits at the boundary of the *larger* limit (only the stricter side refuses)
                let hi = eff(cm).max(eff(sm));
                if hi < MIB8 {
                    c.rb = hi - 1 + rng.below(3) as usize
                }
            }
        }
        if big && i % 6 != 0 && run.quick() {
            // keep the number of 8 MiB transfers small in the quick tier
            c.rh = small(&mut rng);
            c.sh = small(&mut rng);
            c.rb = rng.below(5000) as usize;
            c.sb = rng.below(5000) as usize;
        }
        run_rpc_case(run, &c, i as u64)?;
    }
    Ok(())
}

/// the "no limit when unset" clause: with `max` unset a frame above 8 MiB must still pass.  On the
/// current tree it does not (tokio-util's default) -- reported through the oracle so that the
/// known-findings file decides whether it is new.
fn check_unset_known(run: &mut Run, max: Option<usize>, n: usize, out: &str, side: &str) {
    if max.is_none() && n > MIB8 && n < u32::MAX as usize && !out.starts_with("ok") {
        run.oracle_fail(json!({"kind": "unset-limit-refuses-frame", "limit": "unset", "over_8MiB": true, "error": out.split_whitespace().nth(1).unwrap_or("?"),
            "side": side, "size": n, "what": "max_frame_size unset but a frame larger than 8 MiB is refused"}));
    }
}

fn run_rpc_case(run: &mut Run, c: &RpcCase, idx: u64) -> anyhow::Result<()> {
    let id = format!("c{idx}");
    let req = match build_request(&id, c.rh, c.rb, c.sh, c.sb) {
        Some(r) => r,
        None => return Ok(()),
    };
    let op = format!("size.rpc cm={} sm={} rh={} rb={} sh={} sb={}", fmt_max(c.cm), fmt_max(c.sm), c.rh, c.rb, c.sh, c.sb);
    let seed = run.seed;
    let (cm, sm, sb, rb) = (c.cm, c.sm, c.sb, c.rb);
    let rtm = paused_rt();
    let res: anyhow::Result<(String, Option<String>)> = rtm.block_on(async move {
        let fabric = Fabric::new(seed ^ idx);
        let a = start_node(&fabric, seed, 1, cfg_limit(cm))?;
        let b = start_node(&fabric, seed, 2, cfg_limit(sm))?;
        let p = a.net.connect(b.addr).await?;
        let r = tokio::time::timeout(Duration::from_secs(120), a.net.rpc(p, req)).await;
        let mut problem = None;
        let out = match r {
            Err(_) => {
                problem = Some("rpc hung (no answer within 120 virtual seconds)".to_string());
                "hang".to_string()
            }
            Ok(Ok(resp)) => {
                if resp.body().len() != sb || resp.body().iter().any(|&x| x != 0xab) {
                    problem = Some("response body truncated or altered".into());
                }
                let inv = b.svc.log.lock().unwrap().invocations.iter().find(|i| i.id == id).cloned();
                match inv {
                    Some(i) if i.body_len == rb => {}
                    _ => problem = Some("request body truncated or handler not invoked".into()),
                }
                "ok".to_string()
            }
            Ok(Err(e)) => {
                let m = format!("{e:#}");
                if m.contains("frame size too big") {
                    "err local".to_string()
                } else {
                    "err remote".to_string()
                }
            }
        };
        // confinement: the connection survives and a small follow-up RPC succeeds
        if problem.is_none() {
            let f = tokio::time::timeout(Duration::from_secs(20), a.net.rpc(p, Request::new(Bytes::from_static(b"ping")).with_header("x-id", "follow"))).await;
            match f {
                Ok(Ok(r)) if r.body().as_ref() == &expected_response_body("follow", b"ping")[..] => {}
                Ok(Ok(_)) => problem = Some("follow-up RPC returned a wrong body".into()),
                Ok(Err(e)) => problem = Some(format!("follow-up RPC on the same connection failed: {e:#}")),
                Err(_) => problem = Some("follow-up RPC hung".into()),
            }
            if !a.net.peers().contains(&p) || !b.net.peers().contains(&a.id) {
                problem = Some("connection torn down by a size error".into());
            }
        }
        Ok((out, problem))
    });
    drop(rtm);
    let (out, problem) = res?;
    // the property's own oracle (independent of the model): success iff every frame fits both
    // *configured* limits; unset means no limit
    let fits = |n: usize| c.cm.map(|m| n <= m).unwrap_or(true) && c.sm.map(|m| n <= m).unwrap_or(true);
    let should_ok = fits(c.rh) && fits(c.rb) && fits(c.sh) && fits(c.sb);
    run.count("rpc", &format!("{}{}", if should_ok { "fits:" } else { "oversize:" }, out));
    run.count("placement", match (c.cm, c.sm) {
        (None, None) => "neither",
        (Some(_), None) => "caller-only",
        (None, Some(_)) => "callee-only",
        _ => "both",
    });
    if let Some(p) = problem {
        run.oracle_fail(json!({"kind": p, "ops": [op.clone()], "impl": out.clone()}));
    } else if should_ok && out != "ok" {
        let over = [c.rh, c.rb, c.sh, c.sb].iter().any(|&n| n > MIB8);
        if over {
            run.oracle_fail(json!({"kind": "unset-limit-refuses-frame", "limit": "unset", "over_8MiB": true, "error": "frame-too-big", "side": "rpc", "ops": [op.clone()],
                "what": "max_frame_size unset on the refusing side but a frame larger than 8 MiB is refused"}));
        } else {
            run.oracle_fail(json!({"kind": "RPC within the limits failed", "ops": [op.clone()], "impl": out.clone()}));
        }
    } else if !should_ok && out == "ok" {
        run.oracle_fail(json!({"kind": "oversized frame was delivered", "ops": [op.clone()], "impl": out.clone()}));
    }
    run.op(op, out, true);
    Ok(())
}

/// replay: op lines `size.*`
pub fn replay(run: &mut Run, path: &std::path::Path) -> anyhow::Result<()> {
    for (i, line) in std::fs::read_to_string(path)?.lines().enumerate() {
        let (cmd, a) = crate::out::args(line);
        let opt = |k: &str| -> Option<usize> { a.get(k).and_then(|s| if s == "none" { None } else { s.parse().ok() }) };
        let num = |k: &str| -> usize { a.get(k).and_then(|s| s.parse().ok()).unwrap_or(0) };
        match cmd.as_str() {
            "size.enc" => {
                let (op, out) = size_enc(opt("max"), num("rh"), num("rb"));
                run.op(op, out, true);
            }
            "size.dec" => {
                let (op, out) = size_dec(opt("max"), num("rh"), num("rb"));
                run.op(op, out, true);
            }
            "size.rpc" => {
                let c = RpcCase { cm: opt("cm"), sm: opt("sm"), rh: num("rh"), rb: num("rb"), sh: num("sh"), sb: num("sb") };
                run_rpc_case(run, &c, 9000 + i as u64)?;
            }
            _ => {}
        }
    }
    Ok(())
}
