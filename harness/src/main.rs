//! Correspondence harness (DESIGN §2.3): drives the real anemo code in-process (hooks on) and emits
//! the op lines for the Lean model together with the implementation's canonical answers.
mod admission;
mod codegen;
mod dialing;
mod fabric;
mod net;
mod out;
mod peers;
mod raw;
mod rng;
mod router;
mod shutdown;
mod size;
mod smoke;
mod streams;
mod teardown;
mod timeouts;
mod tls;
mod tower;
mod views;
mod wire;

use out::{Run, Tier};
use std::path::PathBuf;

fn main() -> anyhow::Result<()> {
    // anyhow captures a backtrace into every error when RUST_BACKTRACE is set; anemo's pin-mismatch
    // error then makes the QUIC close reason so long that quinn-proto 0.11.18 cannot fit the
    // Handshake-space close packet behind the Initial one and re-sends the close datagram in a busy
    // loop until its drain timer fires -- which never happens under a paused clock (see DESIGN §9).
    std::env::set_var("RUST_BACKTRACE", "0");
    std::env::set_var("RUST_LIB_BACKTRACE", "0");
    let a: Vec<String> = std::env::args().collect();
    if a.len() < 2 {
        eprintln!("usage: verif-harness <property> [--seed N] [--tier quick|thorough] [--work DIR] [--replay FILE]");
        std::process::exit(2);
    }
    let prop = a[1].clone();
    if std::env::var("RUST_LOG").is_ok() {
        tracing_subscriber::fmt().with_env_filter(tracing_subscriber::EnvFilter::from_default_env()).with_writer(std::io::stderr).init();
    }
    if prop == "C08-child" {
        teardown::child(&a);
    }
    if prop == "smoke" {
        return smoke::run();
    }
    let get = |k: &str| a.iter().position(|x| x == k).and_then(|i| a.get(i + 1)).cloned();
    let seed: u64 = get("--seed").and_then(|s| s.parse().ok()).unwrap_or(1);
    let tier = match get("--tier").as_deref() {
        Some("thorough") => Tier::Thorough,
        _ => Tier::Quick,
    };
    let work = PathBuf::from(get("--work").unwrap_or_else(|| format!("/verif/.build/work/{prop}")));
    let replay = get("--replay").map(PathBuf::from);
    let corpus = PathBuf::from(get("--corpus").unwrap_or_else(|| format!("/verif/corpus/{prop}")));
    let mut run = Run::new(&prop, seed, tier, work);
    match prop.as_str() {
        "C07" => wire::run_c07(&mut run, replay.as_deref(), &corpus)?,
        "C02" => streams::run_c02(&mut run)?,
        "C06" => streams::run_c06(&mut run)?,
        "C12" => streams::run_c12(&mut run)?,
        "C04" => peers::run_c04(&mut run, replay.as_deref())?,
        "C05" => peers::run_c05(&mut run, replay.as_deref())?,
        "C10" => admission::run_c10(&mut run, replay.as_deref())?,
        "C11" => timeouts::run_c11(&mut run)?,
        "C16" => router::run_c16(&mut run, replay.as_deref())?,
        "C17" => codegen::run_c17(&mut run)?,
        "C18" => tower::run_c18(&mut run, replay.as_deref())?,
        "C19" => tower::run_c19(&mut run)?,
        "C20" => tower::run_c20(&mut run)?,
        "C13" => dialing::run_c13(&mut run)?,
        "C08" => shutdown::run_c08(&mut run)?,
        "C09" => views::run_c09(&mut run)?,
        "C01" => tls::run_c01(&mut run)?,
        "C03" => tls::run_c03(&mut run)?,
        "C14" => tls::run_c14(&mut run)?,
        "C15" => match replay.as_deref() {
            Some(r) => size::replay(&mut run, r)?,
            None => size::run_c15(&mut run)?,
        },
        _ => anyhow::bail!("unknown property {prop}"),
    }
    run.finish()
}
