//! C17: the real generators on generated service definitions (routes and SERVICE_NAME pulled out of
//! the token streams), and a compiled family of generated multi-method services driven end to end:
//! typed client -> Router::add_rpc_service -> generated server -> handler.
use crate::out::{hexs, Run};
use crate::rng::Rng;
use anemo::rpc::Status;
use anemo::types::response::StatusCode;
use anemo::{Request, Response, Router};
use bytes::Bytes;
use serde::{Deserialize, Serialize};
use serde_json::json;
use std::collections::BTreeMap;
use std::convert::Infallible;
use std::sync::{Arc, Mutex};
use tower::Service;

#[derive(Debug, Clone, Serialize, Deserialize, PartialEq)]
pub enum Instr {
    Reply,
    Fail { code: u16, message: Option<String>, headers: Vec<(String, String)> },
    /// the handler needs this long (a guard records when its future is dropped)
    Sleep { ms: u64 },
}

#[derive(Debug, Clone, Serialize, Deserialize, PartialEq)]
pub struct Msg {
    pub id: u64,
    pub via: String,
    pub instr: Instr,
}

pub mod alpha {
    include!(concat!(env!("OUT_DIR"), "/Alpha.rs"));
}
pub mod beta {
    include!(concat!(env!("OUT_DIR"), "/pkg.sub.Beta.rs"));
}
pub mod gamma {
    include!(concat!(env!("OUT_DIR"), "/solo.Gamma.rs"));
}

/// .0 = log of (handler, request id) invocations; .1 = ids of `Sleep` handlers whose future has been dropped
/// (finished or cancelled), with whether it had finished
#[derive(Clone, Default)]
pub struct H(pub Arc<Mutex<Vec<(String, u64)>>>, pub Arc<Mutex<Vec<(u64, bool)>>>);

struct SleepGuard(Arc<Mutex<Vec<(u64, bool)>>>, u64, bool);
impl Drop for SleepGuard {
    fn drop(&mut self) {
        self.0.lock().unwrap().push((self.1, self.2));
    }
}

impl H {
    async fn handle(&self, which: &str, req: Request<Msg>) -> Result<Response<Msg>, Status> {
        let m = req.into_body();
        self.0.lock().unwrap().push((which.to_string(), m.id));
        match m.instr.clone() {
            Instr::Sleep { ms } => {
                let mut g = SleepGuard(self.1.clone(), m.id, false);
                tokio::time::sleep(std::time::Duration::from_millis(ms)).await;
                g.2 = true;
                Ok(Response::new(Msg { id: m.id, via: which.to_string(), instr: Instr::Reply }))
            }
            Instr::Reply => Ok(Response::new(Msg { id: m.id, via: which.to_string(), instr: Instr::Reply })),
            Instr::Fail { code, message, headers } => {
                let c = StatusCode::new(code).unwrap_or(StatusCode::Unknown);
                let mut s = match message {
                    Some(msg) => Status::new_with_message(c, msg),
                    None => Status::new(c),
                };
                for (k, v) in headers {
                    s = s.with_header(k, v);
                }
                Err(s)
            }
        }
    }
}

#[anemo::async_trait]
impl alpha::alpha_server::Alpha for H {
    async fn ping(&self, request: Request<Msg>) -> Result<Response<Msg>, Status> {
        self.handle("Alpha.ping", request).await
    }
    async fn raw_echo(&self, request: Request<Msg>) -> Result<Response<Bytes>, Status> {
        let r = self.handle("Alpha.raw_echo", request).await?;
        Ok(r.map(|m| Bytes::from(serde_json::to_vec(&m).unwrap())))
    }
}
#[anemo::async_trait]
impl beta::beta_server::Beta for H {
    async fn m_one(&self, request: Request<Msg>) -> Result<Response<Msg>, Status> {
        self.handle("Beta.m_one", request).await
    }
    async fn m_two(&self, request: Request<Msg>) -> Result<Response<Msg>, Status> {
        self.handle("Beta.m_two", request).await
    }
    async fn m_three(&self, request: Request<Msg>) -> Result<Response<Msg>, Status> {
        self.handle("Beta.m_three", request).await
    }
}
#[anemo::async_trait]
impl gamma::gamma_server::Gamma for H {
    async fn only(&self, request: Request<Msg>) -> Result<Response<Msg>, Status> {
        self.handle("Gamma.only", request).await
    }
}

fn lits(src: &str, re_prefix: &str) -> Vec<String> {
    // crude literal extraction from a token-stream string: <prefix> "literal"
    let mut out = vec![];
    let mut rest = src;
    while let Some(i) = rest.find(re_prefix) {
        let after = &rest[i + re_prefix.len()..];
        let after_trim = after.trim_start();
        if let Some(stripped) = after_trim.strip_prefix('"') {
            if let Some(j) = stripped.find('"') {
                out.push(stripped[..j].to_string());
            }
        }
        rest = after;
    }
    out
}

fn ident(rng: &mut Rng, first_upper: bool) -> String {
    let n = 1 + rng.below(10) as usize;
    let mut s = String::new();
    for i in 0..n {
        let c = match rng.below(12) {
            0 if i > 0 => '_',
            1 if i > 0 => (b'0' + rng.below(10) as u8) as char,
            2 | 3 => (b'A' + rng.below(26) as u8) as char,
            _ => (b'a' + rng.below(26) as u8) as char,
        };
        s.push(c);
    }
    if first_upper {
        let mut c: Vec<char> = s.chars().collect();
        c[0] = c[0].to_ascii_uppercase();
        s = c.into_iter().collect();
    }
    s
}

fn status_debug_message(s: &Status) -> Option<String> {
    let d = format!("{s:?}");
    let i = d.find("message: ")?;
    let rest = &d[i + 9..];
    if rest.starts_with("None") {
        return None;
    }
    let rest = rest.strip_prefix("Some(\"")?;
    let mut out = String::new();
    let mut chars = rest.chars();
    while let Some(c) = chars.next() {
        match c {
            '\\' => {
                if let Some(n) = chars.next() {
                    out.push(n)
                }
            }
            '"' => break,
            c => out.push(c),
        }
    }
    Some(out)
}

fn fmt_headers(h: &BTreeMap<String, String>) -> String {
    if h.is_empty() {
        return "-".into();
    }
    h.iter().map(|(k, v)| format!("{}:{}", hexs(k.as_bytes()), hexs(v.as_bytes()))).collect::<Vec<_>>().join(",")
}

/// a transport that answers every request with a fixed response (for client-side outcome cases)
#[derive(Clone)]
struct Fixed(u16, Bytes);
impl Service<Request<Bytes>> for Fixed {
    type Response = Response<Bytes>;
    type Error = Infallible;
    type Future = std::future::Ready<Result<Response<Bytes>, Infallible>>;
    fn poll_ready(&mut self, _: &mut std::task::Context<'_>) -> std::task::Poll<Result<(), Infallible>> {
        std::task::Poll::Ready(Ok(()))
    }
    fn call(&mut self, _: Request<Bytes>) -> Self::Future {
        std::future::ready(Ok(Response::new(self.1.clone()).with_status(StatusCode::new(self.0).unwrap())))
    }
}

pub fn run_c17(run: &mut Run) -> anyhow::Result<()> {
    let mut rng = Rng::new(run.seed);
    // ---- (1) the generators on generated definitions
    let ndefs = if run.quick() { 400 } else { 20_000 };
    for _ in 0..ndefs {
        let pkg = match rng.below(5) {
            0 | 1 => String::new(),
            2 => ident(&mut rng, false),
            _ => (0..(2 + rng.below(3))).map(|_| ident(&mut rng, false)).collect::<Vec<_>>().join("."),
        };
        let svc = ident(&mut rng, true);
        let nm = rng.below(7) as usize;
        let mut names: Vec<(String, String)> = vec![];
        for i in 0..nm {
            let name = format!("{}_{i}", ident(&mut rng, false));
            let route = if rng.chance(1, 2) { ident(&mut rng, true) + &i.to_string() } else { name.clone() };
            names.push((name, route));
        }
        let mut b = anemo_build::manual::Service::builder().name(&svc);
        if !pkg.is_empty() || rng.chance(1, 2) {
            b = b.package(&pkg);
        }
        for (name, route) in &names {
            let codec = if rng.chance(1, 2) { "anemo::rpc::codec::BincodeCodec" } else { "anemo::rpc::codec::JsonCodec" };
            b = b.method(
                anemo_build::manual::Method::builder()
                    .name(name)
                    .route_name(route)
                    .request_type("crate::Req")
                    .response_type("crate::Resp")
                    .codec_path(codec)
                    .server_handler_return_raw_bytes(rng.chance(1, 4))
                    .build(),
            );
        }
        let def = b.build();
        let client = anemo_build::client::generate(&def).to_string();
        let server = anemo_build::server::generate(&def).to_string();
        let client_paths = lits(&client, "route_mut () =");
        let mut server_paths: Vec<String> = vec![];
        // match arms: "literal" => {
        {
            let mut rest = server.as_str();
            while let Some(i) = rest.find("\" => {") {
                let before = &rest[..i];
                if let Some(j) = before.rfind('"') {
                    server_paths.push(before[j + 1..].to_string());
                }
                rest = &rest[i + 6..];
            }
        }
        let name = lits(&server, "SERVICE_NAME : & 'static str =").into_iter().next().unwrap_or_else(|| "?".into());
        let op = format!(
            "codegen.paths pkg={} svc={} methods={}",
            hexs(pkg.as_bytes()),
            hexs(svc.as_bytes()),
            if names.is_empty() { "-".into() } else { names.iter().map(|n| hexs(n.1.as_bytes())).collect::<Vec<_>>().join(",") }
        );
        let pattern = format!("/{}/*rest", name); // what Router::add_rpc_service registers (format string checked by the translator)
        let fmt = |v: &Vec<String>| if v.is_empty() { "-".to_string() } else { v.iter().map(|p| hexs(p.as_bytes())).collect::<Vec<_>>().join(",") };
        let out = format!("name={} pattern={} client={} server={}", hexs(name.as_bytes()), hexs(pattern.as_bytes()), fmt(&client_paths), fmt(&server_paths));
        run.count("def", &format!("pkg-{}", if pkg.is_empty() { "empty" } else if pkg.contains('.') { "dotted" } else { "single" }));
        run.count("methods", &nm.to_string());
        // property oracle on the generators alone
        let mut bad = None;
        if client_paths != server_paths {
            bad = Some("generated client and server disagree on a method route");
        } else if client_paths.len() != nm {
            bad = Some("number of generated routes differs from the number of methods");
        } else if client_paths.iter().any(|p| !p.starts_with(&format!("/{name}/"))) {
            bad = Some("a generated route does not lie under the prefix the router registers for the service");
        }
        if let Some(b) = bad {
            run.oracle_fail(json!({"kind": b, "ops": [op.clone()], "service_name": name, "client": client_paths, "server": server_paths}));
        }
        run.op(op, out, true);
    }

    // ---- (2) the compiled family, end to end through a Router
    let h = H::default();
    let router = Router::new()
        .add_rpc_service(alpha::alpha_server::AlphaServer::new(h.clone()))
        .add_rpc_service(beta::beta_server::BetaServer::new(h.clone()))
        .add_rpc_service(gamma::gamma_server::GammaServer::new(h.clone()));
    let rt = tokio::runtime::Builder::new_current_thread().enable_all().build()?;
    let ncalls = if run.quick() { 1500 } else { 80_000 };
    let codes = [400u16, 404, 408, 429, 500, 505, 520];
    let words = ["quota exceeded", "no", "", "déjà vu €", "x y_z-9", "Internal"];
    for i in 0..ncalls {
        let id = i as u64 + 1;
        let instr = if rng.chance(1, 2) {
            Instr::Reply
        } else {
            let nh = rng.below(4) as usize;
            let mut headers = vec![];
            for k in 0..nh {
                headers.push((format!("{}{k}", ident(&mut rng, false)), (*rng.pick(&words)).to_string()));
            }
            Instr::Fail { code: *rng.pick(&codes), message: if rng.chance(2, 3) { Some((*rng.pick(&words)).to_string()) } else { None }, headers }
        };
        let msg = Msg { id, via: String::new(), instr: instr.clone() };
        // what the application hands to the typed method: a bare message (as a fresh Request) or a Request
        // that already carries a route -- forwarded from elsewhere, built for another method, or garbage
        let msg = match rng.below(5) {
            0 => Request::new(msg).with_route(*rng.pick(&["/stale/route", "/pkg.sub.Beta/Two", "/Alpha/Ping", "", "/solo.Gamma/only", "/pkg.sub.Beta/One"])),
            _ => Request::new(msg),
        };
        run.count("typed-call-request", if msg.route() == "/" { "fresh" } else { "pre-routed" });
        let which = rng.below(6);
        let want = ["Alpha.ping", "Alpha.raw_echo", "Beta.m_one", "Beta.m_two", "Beta.m_three", "Gamma.only"][which as usize];
        let before = h.0.lock().unwrap().len();
        let res: Result<Response<Msg>, Status> = rt.block_on(async {
            match which {
                0 => alpha::alpha_client::AlphaClient::new(router.clone()).ping(msg).await,
                1 => alpha::alpha_client::AlphaClient::new(router.clone()).raw_echo(msg).await,
                2 => beta::beta_client::BetaClient::new(router.clone()).m_one(msg).await,
                3 => beta::beta_client::BetaClient::new(router.clone()).m_two(msg).await,
                4 => beta::beta_client::BetaClient::new(router.clone()).m_three(msg).await,
                _ => gamma::gamma_client::GammaClient::new(router.clone()).only(msg).await,
            }
        });
        let log = h.0.lock().unwrap()[before..].to_vec();
        run.count("typed-call", want);
        run.eval(&format!("call{id}"), true);
        if log != vec![(want.to_string(), id)] {
            run.oracle_fail(json!({"kind": "typed call did not reach exactly the handler method of the same name", "called": want, "handler_log": format!("{log:?}")}));
        }
        match (&instr, res) {
            (Instr::Reply, Ok(r)) => {
                if r.body().id != id || r.body().via != want {
                    run.oracle_fail(json!({"kind": "typed call returned a different message than the handler produced", "called": want}));
                }
            }
            (Instr::Reply, Err(s)) => run.oracle_fail(json!({"kind": "typed call failed although the handler replied", "called": want, "status": format!("{s:?}")})),
            (Instr::Fail { .. }, Ok(_)) => run.oracle_fail(json!({"kind": "handler error status surfaced as a success", "called": want})),
            (Instr::Fail { code, message, headers }, Err(s)) => {
                let got_h: BTreeMap<String, String> = s.headers().iter().map(|(k, v)| (k.clone(), v.clone())).collect();
                let got_m = status_debug_message(&s);
                let op = format!(
                    "codegen.status code={code} msg={} headers={}",
                    message.as_ref().map(|m| hexs(m.as_bytes())).unwrap_or_else(|| "none".into()),
                    if headers.is_empty() { "-".to_string() } else { headers.iter().map(|(k, v)| format!("{}:{}", hexs(k.as_bytes()), hexs(v.as_bytes()))).collect::<Vec<_>>().join(",") }
                );
                let out = format!("code={} msg={} headers={}", s.status().to_u16(), got_m.as_ref().map(|m| hexs(m.as_bytes())).unwrap_or_else(|| "none".into()), fmt_headers(&got_h));
                // oracle: code, message and every header intact
                let intact = s.status().to_u16() == *code && got_m == *message && headers.iter().all(|(k, v)| got_h.get(k) == Some(v));
                let extra: Vec<&String> = got_h.keys().filter(|k| *k != "status-message" && !headers.iter().any(|(hk, _)| hk == *k)).collect();
                if !intact || !extra.is_empty() {
                    run.oracle_fail(json!({"kind": "handler's error status did not arrive intact (code, message, headers)", "ops": [op.clone()], "impl": out.clone()}));
                }
                run.count("status", &format!("msg={} headers={}", message.is_some(), headers.len()));
                run.op(op, out, true);
            }
            (Instr::Sleep { .. }, _) => {}
        }
    }
    // ---- (3) outcome tables: client on fixed transport answers, server on corrupted payloads
    for st in [200u16, 400, 404, 408, 429, 500, 505, 520] {
        for decodable in [true, false] {
            let body = if decodable { Bytes::from(bincode::serialize(&Msg { id: 7, via: "x".into(), instr: Instr::Reply })?) } else { Bytes::from_static(b"\xff\xff\xff\xff\xff\xff\xff\xffgarbage") };
            let res = rt.block_on(alpha::alpha_client::AlphaClient::new(Fixed(st, body)).ping(Msg { id: 1, via: String::new(), instr: Instr::Reply }));
            let out = match &res {
                Ok(_) => "ok".to_string(),
                Err(s) => format!("err:{}", s.status().to_u16()),
            };
            if res.is_ok() && !(st == 200 && decodable) {
                run.oracle_fail(json!({"kind": "wrong-typed success: client returned Ok for a non-success status or an undecodable body", "status": st, "decodable": decodable}));
            }
            run.op(format!("codegen.client status={st} decodable={}", decodable as u8), out, true);
        }
    }
    for decodable in [true, false] {
        for handler in ["ok", "err:404", "err:500", "err:429"] {
            let instr = if handler == "ok" { Instr::Reply } else { Instr::Fail { code: handler[4..].parse().unwrap(), message: None, headers: vec![] } };
            let body = if decodable { Bytes::from(bincode::serialize(&Msg { id: 9, via: String::new(), instr })?) } else { Bytes::from_static(b"\x01") };
            let before = h.0.lock().unwrap().len();
            let resp = rt.block_on(async {
                let mut r = router.clone();
                r.call(Request::new(body).with_route("/Alpha/Ping")).await.unwrap()
            });
            let invoked = h.0.lock().unwrap().len() - before;
            if !decodable && (invoked != 0 || resp.status().is_success()) {
                run.oracle_fail(json!({"kind": "undecodable request reached the handler or was answered with success", "invoked": invoked, "status": resp.status().to_u16()}));
            }
            run.op(format!("codegen.server decodable={} handler={handler}", decodable as u8), format!("status={} invoked={invoked}", resp.status().to_u16()), true);
        }
    }
    // the same for the JSON codec, with every way a JSON payload can fail to be exactly one message
    {
        let valid = serde_json::to_vec(&Msg { id: 11, via: "j".into(), instr: Instr::Reply })?;
        let mut classes: Vec<(&str, Vec<u8>, bool)> = vec![("valid", valid.clone(), true)];
        classes.push(("trailing-whitespace", [valid.clone(), b" \n".to_vec()].concat(), true));
        classes.push(("garbage", b"\xff\xfegarbage".to_vec(), false));
        classes.push(("empty", vec![], false));
        classes.push(("truncated", valid[..valid.len() - 1].to_vec(), false));
        classes.push(("trailing-junk", [valid.clone(), b"junk".to_vec()].concat(), false));
        classes.push(("two-values", [valid.clone(), valid.clone()].concat(), false));
        classes.push(("wrong-type", b"[1,2,3]".to_vec(), false));
        for (name, bytes, decodable) in classes {
            for st in [200u16, 404, 500] {
                let res = rt.block_on(beta::beta_client::BetaClient::new(Fixed(st, Bytes::from(bytes.clone()))).m_one(Msg { id: 1, via: String::new(), instr: Instr::Reply }));
                let out = match &res {
                    Ok(_) => "ok".to_string(),
                    Err(s) => format!("err:{}", s.status().to_u16()),
                };
                if res.is_ok() && !(st == 200 && decodable) {
                    run.oracle_fail(json!({"kind": "wrong-typed success: client returned Ok for a non-success status or an undecodable body", "codec": "json", "payload": name, "status": st}));
                }
                run.count("json-payload-client", name);
                run.op(format!("codegen.client status={st} decodable={}", decodable as u8), out, true);
            }
            let before = h.0.lock().unwrap().len();
            let resp = rt.block_on(async {
                let mut r = router.clone();
                r.call(Request::new(Bytes::from(bytes.clone())).with_route("/pkg.sub.Beta/One")).await.unwrap()
            });
            let invoked = h.0.lock().unwrap().len() - before;
            if !decodable && (invoked != 0 || resp.status().is_success()) {
                run.oracle_fail(json!({"kind": "undecodable request reached the handler or was answered with success", "codec": "json", "payload": name, "invoked": invoked, "status": resp.status().to_u16()}));
            }
            if decodable && (invoked != 1 || !resp.status().is_success()) {
                run.oracle_fail(json!({"kind": "a decodable request did not reach the handler exactly once", "codec": "json", "payload": name, "invoked": invoked, "status": resp.status().to_u16()}));
            }
            run.op(format!("codegen.server decodable={} handler=ok", decodable as u8), format!("status={} invoked={invoked}", resp.status().to_u16()), true);
        }
    }
    // recorded, not claimed: Err(Status) with a success code
    {
        let msg = Msg { id: 424242, via: String::new(), instr: Instr::Fail { code: 200, message: Some("odd".into()), headers: vec![] } };
        let res = rt.block_on(gamma::gamma_client::GammaClient::new(router.clone()).only(msg));
        run.notes.push(format!("handler returning Err(Status) with a SUCCESS code (outside the claim): client sees {}", match res {
            Ok(_) => "Ok".to_string(),
            Err(s) => format!("Err(status {})", s.status().to_u16()),
        }));
    }
    Ok(())
}
