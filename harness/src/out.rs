//! Collects what a run did: the op lines for the Lean model, the implementation's canonical answer
//! per line, the input distribution, oracle failures (implementation vs the property's own oracle)
//! and samples.  Written to `<work>/{ops.txt,impl.out,report.json}`; `/verif/check` runs the model on
//! ops.txt and diffs.
use serde_json::{json, Value};
use std::collections::{BTreeMap, HashSet};
use std::hash::{Hash, Hasher};
use std::path::PathBuf;

#[derive(Clone, Copy, PartialEq, Eq, Debug)]
pub enum Tier {
    Quick,
    Thorough,
}

pub struct Run {
    pub prop: String,
    pub seed: u64,
    pub tier: Tier,
    pub work: PathBuf,
    ops: Vec<String>,
    imp: Vec<String>,
    pub dist: BTreeMap<String, BTreeMap<String, u64>>,
    pub oracle_failures: Vec<Value>,
    pub known_findings: Vec<Value>,
    pub samples: Vec<Value>,
    pub evaluations: u64,
    nontrivial: HashSet<u64>,
    pub notes: Vec<String>,
    pub extra: BTreeMap<String, Value>,
}

impl Run {
    pub fn new(prop: &str, seed: u64, tier: Tier, work: PathBuf) -> Self {
        Run {
            prop: prop.to_string(),
            seed,
            tier,
            work,
            ops: vec![],
            imp: vec![],
            dist: BTreeMap::new(),
            oracle_failures: vec![],
            known_findings: vec![],
            samples: vec![],
            evaluations: 0,
            nontrivial: HashSet::new(),
            notes: vec![],
            extra: BTreeMap::new(),
        }
    }
    pub fn quick(&self) -> bool {
        self.tier == Tier::Quick
    }
    /// one model op + the implementation's answer
    pub fn op(&mut self, op: String, imp: String, nontrivial: bool) {
        debug_assert!(!op.contains('\n') && !imp.contains('\n'));
        self.evaluations += 1;
        if nontrivial {
            let mut h = std::collections::hash_map::DefaultHasher::new();
            op.hash(&mut h);
            self.nontrivial.insert(h.finish());
        }
        if self.samples.len() < 6 && (self.ops.len() % 97 == 0) {
            let cut = |s: &str| if s.len() > 300 { format!("{}…({} chars)", &s[..300], s.len()) } else { s.to_string() };
            self.samples.push(json!({"op": cut(&op), "impl": cut(&imp)}));
        }
        self.ops.push(op);
        self.imp.push(imp);
    }
    /// like `op`, but distinctness is judged on the whole history so far (`ctx` = hash of the prefix)
    pub fn op_in(&mut self, ctx: &mut u64, op: String, imp: String) {
        let mut h = std::collections::hash_map::DefaultHasher::new();
        ctx.hash(&mut h);
        op.hash(&mut h);
        *ctx = h.finish();
        self.nontrivial.insert(*ctx);
        self.op(op, imp, false);
    }
    /// note the op that is about to run: if the process dies (allocation failure, abort) the check
    /// reads this file and reports that op as the failing input
    pub fn mark(&self, op: &str) {
        let _ = std::fs::create_dir_all(&self.work);
        let _ = std::fs::write(self.work.join("current_op.txt"), op);
    }
    /// an evaluation that has no model line (pure implementation-vs-oracle case)
    pub fn eval(&mut self, key: &str, nontrivial: bool) {
        self.evaluations += 1;
        if nontrivial {
            let mut h = std::collections::hash_map::DefaultHasher::new();
            key.hash(&mut h);
            self.nontrivial.insert(h.finish());
        }
    }
    pub fn count(&mut self, cat: &str, key: &str) {
        *self.dist.entry(cat.to_string()).or_default().entry(key.to_string()).or_default() += 1;
    }
    pub fn oracle_fail(&mut self, v: Value) {
        if self.oracle_failures.len() < 50 {
            self.oracle_failures.push(v);
        }
    }
    pub fn finish(self) -> anyhow::Result<()> {
        std::fs::create_dir_all(&self.work)?;
        std::fs::write(self.work.join("ops.txt"), self.ops.join("\n") + if self.ops.is_empty() { "" } else { "\n" })?;
        std::fs::write(self.work.join("impl.out"), self.imp.join("\n") + if self.imp.is_empty() { "" } else { "\n" })?;
        let report = json!({
            "property_id": self.prop, "seed": self.seed,
            "tier": if self.tier == Tier::Quick { "quick" } else { "thorough" },
            "evaluations": self.evaluations, "distinct_nontrivial": self.nontrivial.len(),
            "model_ops": self.ops.len(),
            "distribution": self.dist, "oracle_failures": self.oracle_failures,
            "known_findings": self.known_findings,
            "samples": self.samples, "notes": self.notes, "extra": self.extra,
        });
        std::fs::write(self.work.join("report.json"), serde_json::to_string_pretty(&report)?)?;
        Ok(())
    }
}

pub fn size_bucket(n: usize) -> &'static str {
    match n {
        0 => "0",
        1..=15 => "1-15",
        16..=255 => "16-255",
        256..=4095 => "256-4095",
        4096..=65535 => "4K-64K",
        65536..=1048575 => "64K-1M",
        _ => ">=1M",
    }
}

pub fn hexs(b: &[u8]) -> String {
    if b.is_empty() {
        "-".into()
    } else {
        hex::encode(b)
    }
}

pub fn unhex(s: &str) -> Option<Vec<u8>> {
    if s == "-" {
        Some(vec![])
    } else {
        hex::decode(s).ok()
    }
}

/// `k=v` arguments of an op line
pub fn args(line: &str) -> (String, BTreeMap<String, String>) {
    let mut it = line.split_whitespace();
    let cmd = it.next().unwrap_or("").to_string();
    let mut m = BTreeMap::new();
    for t in it {
        if let Some((k, v)) = t.split_once('=') {
            m.insert(k.to_string(), v.to_string());
        }
    }
    (cmd, m)
}
