// Compiles a fixed family of generated typed services (C17) with the repository's own generator.
use anemo_build::manual::{Builder, Method, Service};

fn m(name: &str, route: &str, codec: &str, raw: bool) -> Method {
    Method::builder()
        .name(name)
        .route_name(route)
        .request_type("crate::codegen::Msg")
        .response_type("crate::codegen::Msg")
        .codec_path(codec)
        .server_handler_return_raw_bytes(raw)
        .build()
}

fn main() {
    let bin = "anemo::rpc::codec::BincodeCodec";
    let json = "anemo::rpc::codec::JsonCodec";
    let alpha = Service::builder().name("Alpha").method(m("ping", "Ping", bin, false)).method(m("raw_echo", "RawEcho", json, true)).build();
    let beta = Service::builder()
        .name("Beta")
        .package("pkg.sub")
        .method(m("m_one", "One", json, false))
        .method(m("m_two", "Two", json, false))
        .method(m("m_three", "Three", bin, false))
        .build();
    let gamma = Service::builder().name("Gamma").package("solo").method(m("only", "only", bin, false)).build();
    Builder::new().compile(&[alpha, beta, gamma]);
    println!("cargo:rerun-if-changed=build.rs");
    println!("cargo:rerun-if-changed=/repo/crates/anemo-build/src");
}
