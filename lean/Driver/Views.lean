import AnemoModel.Views
import AnemoModel.Text
namespace Anemo.Driver
open Anemo Anemo.Views

structure ViewsState where
  net : Net := { n := 0, keepAlive := false, up := [] }

def parseWho : String → Option Who
  | "a" => some .a | "b" => some .b | _ => none

/-- the link with the instant at which each end was first seen dead -/
structure Traced where
  l : Link
  da : Option Nat := none
  db : Option Nat := none

def Traced.note (old : Link) (t : Traced) : Traced :=
  { t with
    da := if old.a.alive && !t.l.a.alive && t.da.isNone then some t.l.now else t.da,
    db := if old.b.alive && !t.l.b.alive && t.db.isNone then some t.l.now else t.db }

def Traced.ev (T : Nat) (t : Traced) (e : Ev) : Traced :=
  Traced.note t.l { t with l := t.l.step T e }

def Traced.advance (T : Nat) (t : Traced) : Nat → Traced
  | 0 => t
  | n + 1 => (t.ev T .tick).advance T n

/-- `rpc:<who>:<time>:<path open 0|1>` or `disc:<who>:<time>:<path open 0|1>` -/
def linkEvent (T : Nat) (t : Traced) (s : String) : Option Traced :=
  match s.splitOn ":" with
  | [kind, who, time, pathOpen] => do
    let w ← parseWho who
    let at_ ← time.toNat?
    let o := pathOpen == "1"
    let t := t.advance T (at_ - t.l.now)
    match kind with
    | "rpc" =>
      if o && (t.l.side w).alive && (t.l.side w.other).alive then
        some ((t.ev T (.send w true true)).ev T (.send w.other true true))
      else some (t.ev T (.send w false false))
    | "disc" => some (t.ev T (.close w o))
    | _ => none
  | _ => none

def showDeath : Option Nat → String
  | none => "alive"
  | some t => toString t

def closeTo (tol : Nat) (pred : Option Nat) (obs : String) : Bool :=
  match pred, obs.toNat? with
  | none, none => obs == "alive"
  | some p, some o => decide (o ≤ p + tol) && decide (p ≤ o + tol)
  | _, _ => false

def showLists (s : Net) : String :=
  ";".intercalate ((List.range s.n).map fun i => s!"{i}:" ++ ",".intercalate ((s.lists i).map toString))

def viewsOp (st : ViewsState) (cmd : String) (args : List (String × String)) : ViewsState × String :=
  match cmd with
  | "views.reset" =>
    match argNat args "n", argNat args "ka" with
    | some n, some ka => ({ net := { n := n, keepAlive := ka != 0, up := [] } }, "ok")
    | _, _ => (st, "bad-op")
  | "views.op" =>
    let op? : Option NetOp :=
      match arg args "kind", argNat args "i", argNat args "j" with
      | some "dial", some i, some j => some (.dial i j)
      | some "disconnect", some i, some j => some (.disconnect i j)
      | some "restart", some i, _ => some (.restart i)
      | some "cut", some i, some j => some (.cut i j)
      | some "blip", some i, some j => some (.blip i j)
      | some "idle", _, _ => some .idle
      | _, _, _ => none
    match op? with
    | some op =>
      let n' := st.net.step op
      let n' := if argNat args "long" == some 1 then n'.step .idle else n'
      ({ net := n' }, showLists n')
    | none => (st, "bad-op")
  | "link.check" =>
    match argNat args "T", argNat args "t0", arg args "evs", argNat args "end", arg args "a", arg args "b", argNat args "tol" with
    | some T, some t0, some evs, some end_, some oa, some ob, some tol =>
      let evl := if evs == "-" then [] else evs.splitOn ","
      let r := evl.foldl (fun (acc : Option Traced) e => acc.bind fun t => linkEvent T t e) (some { l := Link.fresh t0 T })
      match r with
      | none => (st, "bad-op")
      | some t =>
        let t := t.advance T (end_ - t.l.now)
        if closeTo tol t.da oa && closeTo tol t.db ob then (st, "ok")
        else (st, s!"mismatch predicted a={showDeath t.da} b={showDeath t.db}")
    | _, _, _, _, _, _, _ => (st, "bad-op")
  | _ => (st, "bad-op")

end Anemo.Driver
