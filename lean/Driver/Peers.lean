import AnemoModel.Duo
import AnemoModel.Text
namespace Anemo.Driver
open Anemo

structure PeersState where
  own : Nat := 0
  act : Active := {}
  duo : Duo := { aId := 0, bId := 0 }

def idHex (n : Nat) : String := toHex (beN 32 n)
def argId (args : List (String × String)) (k : String) : Option Nat := (argHex args k).map bytesToNat

def reasonName : Reason → String
  | .requested => "requested" | .versionMismatch => "version-mismatch" | .transportError => "transport-error"
  | .connectionClosed => "connection-closed" | .applicationClosed => "application-closed" | .reset => "reset"
  | .timedOut => "timed-out" | .locallyClosed => "locally-closed"

def parseReason : String → Option Reason
  | "requested" => some .requested | "version-mismatch" => some .versionMismatch | "transport-error" => some .transportError
  | "connection-closed" => some .connectionClosed | "application-closed" => some .applicationClosed | "reset" => some .reset
  | "timed-out" => some .timedOut | "locally-closed" => some .locallyClosed | _ => none

def showEvents (es : List Event) : String :=
  if es.isEmpty then "-" else ",".intercalate (es.map fun
    | .newPeer p => s!"new:{idHex p}"
    | .lostPeer p r => s!"lost:{idHex p}:{reasonName r}")

def showNats (l : List Nat) : String := if l.isEmpty then "-" else ",".intercalate (l.map toString)
def showPeers (l : List Nat) : String :=
  if l.isEmpty then "-" else ",".intercalate ((sortBy (fun a b => decide (a < b)) l).map idHex)

def delta (s s' : Active) : String :=
  s!"events={showEvents (s'.log.drop s.log.length)} closed={showNats (s'.closed.drop s.closed.length)} peers={showPeers s'.peers}"

def parseOrigin : String → Option Origin
  | "in" => some .inbound | "out" => some .outbound | _ => none
def parseSide : String → Option Side
  | "A" => some .A | "B" => some .B | _ => none
def parseCName : String → Option CName
  | "c1" => some .c1 | "c2" => some .c2 | _ => none

def peersOp (st : PeersState) (cmd : String) (args : List (String × String)) : PeersState × String :=
  match cmd with
  | "peers.reset" =>
    match argId args "own" with
    | some o => ({ st with own := o, act := {} }, "ok")
    | none => (st, "bad-op")
  | "peers.add" =>
    match argNat args "conn", argId args "peer", (arg args "origin").bind parseOrigin with
    | some n, some p, some o =>
      let r := st.act.add st.own ⟨n, p, o⟩
      ({ st with act := r.1 }, (if r.2 then "kept " else "dropped ") ++ delta st.act r.1)
    | _, _, _ => (st, "bad-op")
  | "peers.remove" =>
    match argId args "peer", (arg args "reason").bind parseReason with
    | some p, some r => let s' := st.act.remove p r; ({ st with act := s' }, delta st.act s')
    | _, _ => (st, "bad-op")
  | "peers.remove-stable" =>
    match argId args "peer", argNat args "conn", (arg args "reason").bind parseReason with
    | some p, some n, some r => let s' := st.act.removeStable p n r; ({ st with act := s' }, delta st.act s')
    | _, _, _ => (st, "bad-op")
  | "peers.list" => (st, s!"peers={showPeers st.act.peers}")
  | "duo.reset" =>
    match argId args "a", argId args "b" with
    | some a, some b => ({ st with duo := { aId := a, bId := b } }, "ok")
    | _, _ => (st, "bad-op")
  | "duo.add" | "duo.exit" =>
    match (arg args "side").bind parseSide, (arg args "conn").bind parseCName with
    | some s, some c =>
      let act := if cmd == "duo.add" then DAct.add s c else DAct.exit s c
      if !st.duo.enabled act then (st, "not-enabled") else
      let d' := st.duo.stepR (((arg args "reason").bind parseReason).getD .applicationClosed) act
      let keptNow := decide ((s, c) ∈ d'.kept)
      ({ st with duo := d' },
        (if cmd == "duo.add" then (if keptNow then "kept " else "dropped ") else "") ++
        s!"a=[{delta st.duo.a d'.a}] b=[{delta st.duo.b d'.b}]")
    | _, _ => (st, "bad-op")
  | "peers.tiebreak" =>
    match argId args "own", argId args "remote", (arg args "existing").bind parseOrigin, (arg args "new").bind parseOrigin with
    | some o, some r, some e, some n => (st, s!"{tieBreak o r e n}")
    | _, _, _, _ => (st, "bad-op")
  | "peers.replay" =>
    -- snapshot=<id,id,..> events=<new:id,lost:id:reason,..>  (trace acceptance: strict replay)
    let ids := fun (s : String) => if s == "-" then some [] else (s.splitOn ",").mapM (fun h => (fromHex h).map bytesToNat)
    let evs := fun (s : String) => if s == "-" then some [] else (s.splitOn ",").mapM (fun e =>
      match e.splitOn ":" with
      | ["new", h] => (fromHex h).map (fun b => Event.newPeer (bytesToNat b))
      | ["lost", h, r] => do pure (Event.lostPeer (bytesToNat (← fromHex h)) (← parseReason r))
      | _ => none)
    match (arg args "snapshot").bind ids, (arg args "events").bind evs with
    | some sn, some es =>
      match replayStrict sn es with
      | some l => (st, s!"ok peers={showPeers l}")
      | none => (st, "illegal")
    | _, _ => (st, "bad-op")
  | "duo.state" => (st, s!"quiet={st.duo.quiet} converged={st.duo.converged} winner={cid st.duo.winner}")
  | _ => (st, "bad-op")

end Anemo.Driver
