import AnemoModel.Wire
import AnemoModel.Text
namespace Anemo.Driver
open Anemo Gen

def errName : WireErr → String
  | .earlyEof => "early-eof"
  | .badPreamble => "bad-preamble"
  | .badVersion v => s!"bad-version:{v}"
  | .unexpectedEof => "unexpected-eof"
  | .bytesRemaining => "bytes-remaining"
  | .frameTooBig => "frame-too-big"
  | .badHeader => "bad-header"
  | .badStatus c => s!"bad-status:{c}"

/-- headers argument: `k:v,k:v` in hex, `-` for none -/
def parseHeaders (s : String) : Option Headers :=
  if s == "-" then some [] else
  (s.splitOn ",").mapM fun kv =>
    match kv.splitOn ":" with
    | [k, v] => do pure ((← fromHex k), (← fromHex v))
    | _ => none

def showHeaders (h : Headers) : String :=
  if h.isEmpty then "-" else
  ",".intercalate ((sortBy (fun a b => bytesLt a.1 b.1) h).map fun (k, v) => s!"{toHex k}:{toHex v}")

def wireOp (cmd : String) (args : List (String × String)) : String :=
  match cmd with
  | "wire.enc-req" =>
    match argOptNat args "max", argHex args "route", (arg args "headers").bind parseHeaders, argHex args "body" with
    | some mx, some route, some h, some body =>
      match writeRequest (effMax mx) { route := route, headers := h, body := body } with
      | (bs, none) => s!"ok {toHex bs}"
      | (bs, some e) => s!"err {errName e} written={toHex bs}"
    | _, _, _, _ => "bad-op"
  | "wire.enc-resp" =>
    match argOptNat args "max", (argNat args "status").bind StatusCode.new, (arg args "headers").bind parseHeaders, argHex args "body" with
    | some mx, some st, some h, some body =>
      match writeResponse (effMax mx) { status := st, headers := h, body := body } with
      | (bs, none) => s!"ok {toHex bs}"
      | (bs, some e) => s!"err {errName e} written={toHex bs}"
    | _, _, _, _ => "bad-op"
  | "wire.dec-req" =>
    match argOptNat args "max", argHex args "bytes" with
    | some mx, some bs =>
      match decodeRequest (effMax mx) bs with
      | .ok (r, rest) => s!"ok route={toHex r.route} headers={showHeaders r.headers} body={toHex r.body} version={r.version.name} rest={rest.length}"
      | .error e => s!"err {errName e}"
    | _, _ => "bad-op"
  | "wire.dec-resp" =>
    match argOptNat args "max", argHex args "bytes" with
    | some mx, some bs =>
      match decodeResponse (effMax mx) bs with
      | .ok (r, rest) => s!"ok status={r.status.toU16} headers={showHeaders r.headers} body={toHex r.body} version={r.version.name} rest={rest.length}"
      | .error e => s!"err {errName e}"
    | _, _ => "bad-op"
  | "wire.dec-ver" =>
    match argHex args "bytes" with
    | some bs =>
      match decodeVersionFrame bs with
      | .ok (v, rest) => s!"ok {v.name} rest={rest.length}"
      | .error e => s!"err {errName e}"
    | _ => "bad-op"
  | "wire.enc-ver" =>
    match (argNat args "version").bind Version.new with
    | some v => s!"ok {toHex (preamble v)}"
    | none => "bad-op"
  | _ => "bad-op"

end Anemo.Driver
