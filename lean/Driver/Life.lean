import AnemoModel.Life
import AnemoModel.Text
namespace Anemo.Driver
open Anemo Anemo.Life

def showRes : Res → String
  | .ok => "ok" | .err => "err" | .num k => toString k | .flag b => toString b

/-- state of the manager for a teardown case of the harness -/
def lifeState (scenario trigger : String) : Option Mgr := do
  let base : Mgr ← match scenario with
    | "idle" => some {}
    | "connected" | "inflight" => some { hLive := 1, entries := 1 }
    | "dialing" => some { pLive := 1 }
    | "busy" => some { hLive := 1, entries := 1, pLive := 1 }
    | _ => none
  match trigger with
  | "none" => some base
  | "shutdown" => some { base with mailbox := [.shutdown] }
  | "drop" => some { base with handles := false }
  | "peer-leaves" | "disconnect" =>
    some { base with hJoin := List.replicate base.hLive .ok, hLive := 0, entries := 0 }
  | "peer-dials" => some { base with incoming := 1 }
  | _ => none

def lifeTarget : String → Option Phase
  | "cm.loop_exit" => some .closeEndpoint
  | "cm.shutdown.closed" => some .abortPending
  | "cm.shutdown.pending_done" => some .joinHandlers
  | "cm.shutdown.handlers_done" => some .checkEmpty
  | "cm.shutdown.idle_done" => some .rebind
  | "cm.shutdown_done" => some .notify
  | _ => none

def roundRobin (n : Nat) : List Arm :=
  (List.range n).map fun i => match i % 5 with
    | 0 => .mailbox | 1 => .accept | 2 => .pending | 3 => .handler | _ => .tick

/-- run (on a live runtime) until the phase is reached -/
def advanceTo (f : Flags) (target : Phase) : Mgr → List Arm → Option Mgr
  | m, [] => if m.phase = target then some m else none
  | m, a :: rest =>
    if m.phase = target then some m else
    match m.step f a with
    | .next m' => advanceTo f target m' rest
    | .notReady => advanceTo f target m rest
    | _ => none

def lifeOp (cmd : String) (args : List (String × String)) : String :=
  match cmd with
  | "life.api" =>
    match argNat args "peers", arg args "calls" with
    | some k, some calls =>
      -- calls=shutdown*N,peers,is_closed,upgrade,subscribe,disconnect,connect,rpc,shutdown
      let n := match (calls.splitOn ",").head? with
        | some h => ((h.splitOn "*").getD 1 "1").toNat?.getD 1
        | none => 1
      let s0 : Api := { closed := false, peers := k }
      let (s1, rs) := s0.run (List.replicate n .shutdown)
      let (_, r2) := s1.run [.peers, .isClosed, .upgrade, .subscribe, .disconnect, .connect, .rpc, .shutdown]
      let sh := if rs.contains .ok then "ok" else "err"
      match r2 with
      | [p, c, u, sub, d, co, r, again] =>
        s!"shutdown={sh} peers={showRes p} is_closed={showRes c} upgrade={showRes u} subscribe={showRes sub} disconnect={showRes d} connect={showRes co} rpc={showRes r} shutdown_again={showRes again}"
      | _ => "bad-op"
    | _, _ => "bad-op"
  | "life.teardown" =>
    match arg args "scenario", arg args "trigger", arg args "point" with
    | some sc, some tr, some pt =>
      -- only at the manager's own points is the manager inside a poll when the runtime goes away;
      -- elsewhere it is dropped where it awaits
      let inAdd := (pt == "ap.write" || pt == "ap.send_event") && tr == "peer-dials"   -- add_peer runs in the manager
      if !pt.startsWith "cm." && !inAdd then "safe" else
      match (lifeState sc tr).map (fun m => if inAdd then { m with incoming := 0, pJoin := m.pJoin ++ [.ok] } else m) with
      | none => "bad-op"
      | some m0 =>
        let m? := match lifeTarget pt with
          | some ph => advanceTo genFlags ph m0 (roundRobin 200)
          | none => some m0
        match m? with
        | none => "safe"       -- the point is not reached in this scenario: plain teardown
        | some m =>
          let t := m.tearDown
          let (o, _) := Mgr.poll genFlags t (roundRobin (10 * (t.work + 2))) 0
          match o with
          | .panic _ => "panic"
          | .next _ => "stuck"
          | _ => "safe"
    | _, _, _ => "bad-op"
  | _ => "bad-op"

end Anemo.Driver
