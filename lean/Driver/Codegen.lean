import AnemoModel.Codegen
import AnemoModel.Text
import Driver.Wire
namespace Anemo.Driver
open Anemo Gen

def hexList (l : List Bytes) : String := if l.isEmpty then "-" else ",".intercalate (l.map toHex)

def codegenOp (cmd : String) (args : List (String × String)) : String :=
  match cmd with
  | "codegen.paths" =>
    let ms : Option (List Bytes) := match arg args "methods" with
      | some "-" => some []
      | some s => (s.splitOn ",").mapM fromHex
      | none => none
    match argHex args "pkg", argHex args "svc", ms with
    | some pkg, some svc, some methods =>
      let name := serviceNameGen pkg svc
      s!"name={toHex name} pattern={toHex (rpcRoutePatternGen name)} client={hexList (methods.map (clientPathGen pkg svc))} server={hexList (methods.map (serverPathGen pkg svc))}"
    | _, _, _ => "bad-op"
  | "codegen.status" =>
    let msg : Option (Option Bytes) := match arg args "msg" with
      | some "none" => some none
      | some h => (fromHex h).map some
      | none => none
    match (argNat args "code").bind StatusCode.new, msg, (arg args "headers").bind parseHeaders with
    | some code, some m, some hs =>
      let r := Status.fromResponse (Status.mk code m hs).intoResponse
      let ms := match r.message with | some x => toHex x | none => "none"
      s!"code={r.code.toU16} msg={ms} headers={showHeaders r.headers}"
    | _, _, _ => "bad-op"
  | "codegen.client" =>
    match (argNat args "status").bind StatusCode.new, argNat args "decodable" with
    | some st, some d =>
      match clientUnary (fun (_ : Bytes) => if d == 1 then some () else none) { status := st, headers := [], body := [] } with
      | .ok _ => "ok"
      | .err s => s!"err:{s.code.toU16}"
    | _, _ => "bad-op"
  | "codegen.server" =>
    match argNat args "decodable", arg args "handler" with
    | some d, some h =>
      let handler : Unit → Except Status (Headers × Unit) := fun _ =>
        if h == "ok" then .ok ([], ()) else
          match ((h.drop 4).toString.toNat?).bind StatusCode.new with
          | some c => .error ⟨c, none, []⟩
          | none => .error ⟨.Unknown, none, []⟩
      let r := serverUnary (fun (_ : Bytes) => if d == 1 then some () else none) (fun _ => some []) handler [] []
      s!"status={r.1.status.toU16} invoked={r.2}"
    | _, _ => "bad-op"
  | _ => "bad-op"

end Anemo.Driver
