import AnemoModel.Rpc
import AnemoModel.Text
namespace Anemo.Driver
open Anemo

def sizeOp (cmd : String) (args : List (String × String)) : String :=
  match cmd with
  | "size.enc" =>
    match argOptNat args "max", argNat args "rh", argNat args "rb" with
    | some mx, some rh, some rb =>
      match sizeWrite (effMax mx) rh rb with
      | (n, true) => s!"ok written={n}"
      | (n, false) => s!"err frame-too-big written={n}"
    | _, _, _ => "bad-op"
  | "size.dec" =>
    match argOptNat args "max", argNat args "rh", argNat args "rb" with
    | some mx, some rh, some rb => if sizeRead (effMax mx) rh rb then "ok" else "err frame-too-big"
    | _, _, _ => "bad-op"
  | "size.rpc" =>
    match argOptNat args "cm", argOptNat args "sm", argNat args "rh", argNat args "rb", argNat args "sh", argNat args "sb" with
    | some cm, some sm, some rh, some rb, some sh, some sb =>
      match rpcSizeOutcome (effMax cm) (effMax sm) rh rb sh sb with
      | .ok => "ok"
      | .callerSend | .callerRecv => "err local"
      | .calleeRecv | .calleeSend => "err remote"
    | _, _, _, _, _, _ => "bad-op"
  | _ => "bad-op"

end Anemo.Driver
