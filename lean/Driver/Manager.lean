import AnemoModel.Manager
import AnemoModel.Text
namespace Anemo.Driver
open Anemo Gen

structure ManagerState where
  listener : Listener := { limit := none }
  tcfg : TickCfg := { own := 0, cap := 0, step := 0, max := 0 }
  tknown : List KnownPeer := []
  tstate : TickState := {}

def parseAff : String → Option Affinity
  | "high" => some .high | "allowed" => some .allowed | "never" => some .never | _ => none

def managerOp (st : ManagerState) (cmd : String) (args : List (String × String)) : ManagerState × String :=
  match cmd with
  | "listener.reset" =>
    match argOptNat args "limit" with
    | some l => ({ st with listener := { limit := l } }, "ok")
    | none => (st, "bad-op")
  | "listener.known" =>
    match argNat args "peer", arg args "aff" with
    | some p, some "remove" => ({ st with listener := (st.listener.step (.removeKnown p)).1 }, "ok")
    | some p, some a =>
      match parseAff a with
      | some aff => ({ st with listener := (st.listener.step (.setKnown p aff)).1 }, "ok")
      | none => (st, "bad-op")
    | _, _ => (st, "bad-op")
  | "listener.arrive" =>
    match argNat args "peer" with
    | some p =>
      let r := st.listener.step (.arrive p)
      ({ st with listener := r.1 }, (if r.2 == some true then "admitted" else "rejected") ++ s!" count={r.1.connected.length}")
    | none => (st, "bad-op")
  | "listener.dial" | "listener.disconnect" =>
    match argNat args "peer" with
    | some p =>
      let r := st.listener.step (if cmd == "listener.dial" then .dialOut p else .disconnect p)
      ({ st with listener := r.1 }, s!"count={r.1.connected.length}")
    | none => (st, "bad-op")
  | "tick.reset" =>
    match argNat args "own", argNat args "cap", argNat args "step", argNat args "max" with
    | some o, some c, some s, some m => ({ st with tcfg := { own := o, cap := c, step := s, max := m }, tknown := [], tstate := {} }, "ok")
    | _, _, _, _ => (st, "bad-op")
  | "tick.known" =>
    match argNat args "peer", arg args "aff" with
    | some p, some "remove" => ({ st with tknown := st.tknown.filter (·.id ≠ p) }, "ok")
    | some p, some a =>
      match parseAff a, argNat args "naddr" with
      | some aff, some n => ({ st with tknown := st.tknown.filter (·.id ≠ p) ++ [⟨p, aff, n⟩] }, "ok")
      | _, _ => (st, "bad-op")
    | _, _ => (st, "bad-op")
  | "tick.backoff" =>
    match argNat args "step", argNat args "max", argNat args "k" with
    | some s, some m, some k =>
      let b := (List.range k).foldl (fun (acc : Option Backoff) _ => some (Backoff.update 0 s m acc)) none
      match b with
      | some bb => (st, s!"delta={bb.until_} attempts={bb.attempts}")
      | none => (st, "delta=0 attempts=0")
    | _, _, _ => (st, "bad-op")
  | "tick.run" =>
    -- trace acceptance of one connectivity check: `observed` are the dials the implementation started
    let nats := fun (s : String) => if s == "-" then some [] else (s.splitOn ",").mapM String.toNat?
    let pairs := fun (s : String) (f : String → Option Nat) => if s == "-" then some [] else (s.splitOn ",").mapM (fun e =>
      match e.splitOn ":" with
      | [a, b] => do pure ((← a.toNat?), (← f b))
      | _ => none)
    match argNat args "now", (arg args "connected").bind nats, argNat args "pending",
          (arg args "done").bind (pairs · (fun b => if b == "ok" then some 1 else if b == "fail" then some 0 else none)),
          (arg args "observed").bind (pairs · String.toNat?) with
    | some now, some conn, some pc, some done, some obs =>
      let st1 := drain st.tcfg now st.tstate (done.map fun (p, b) => (p, b == 1))
      let el := st.tknown.filter (eligible st.tcfg now conn st1)
      let n := min el.length (st.tcfg.cap - pc)
      let expected := el.map fun k => (k.id, addrIndex st1 k)
      let okSubset := obs.all (fun o => expected.contains o) && (obs.map (·.1)).eraseDups.length == obs.length
      let st2 : TickState := { st1 with pending := st1.pending ++ obs.map (·.1) }
      let showL := fun (l : List (Nat × Nat)) => if l.isEmpty then "-" else ",".intercalate (l.map fun (a, b) => s!"{a}:{b}")
      if okSubset && obs.length == n then ({ st with tstate := st2 }, "ok")
      else ({ st with tstate := st2 }, s!"mismatch expected-{n}-of={showL expected}")
    | _, _, _, _, _ => (st, "bad-op")
  | _ => (st, "bad-op")

end Anemo.Driver
