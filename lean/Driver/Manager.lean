import AnemoModel.Manager
import AnemoModel.Text
namespace Anemo.Driver
open Anemo Gen

structure ManagerState where
  listener : Listener := { limit := none }

def parseAff : String → Option Affinity
  | "high" => some .high | "allowed" => some .allowed | "never" => some .never | _ => none

def managerOp (st : ManagerState) (cmd : String) (args : List (String × String)) : ManagerState × String :=
  match cmd with
  | "listener.reset" =>
    match argOptNat args "limit" with
    | some l => ({ st with listener := { limit := l } }, "ok")
    | none => (st, "bad-op")
  | "listener.known" =>
    match argNat args "peer", arg args "aff" with
    | some p, some "remove" => ({ st with listener := (st.listener.step (.removeKnown p)).1 }, "ok")
    | some p, some a =>
      match parseAff a with
      | some aff => ({ st with listener := (st.listener.step (.setKnown p aff)).1 }, "ok")
      | none => (st, "bad-op")
    | _, _ => (st, "bad-op")
  | "listener.arrive" =>
    match argNat args "peer" with
    | some p =>
      let r := st.listener.step (.arrive p)
      ({ st with listener := r.1 }, (if r.2 == some true then "admitted" else "rejected") ++ s!" count={r.1.connected.length}")
    | none => (st, "bad-op")
  | "listener.dial" | "listener.disconnect" =>
    match argNat args "peer" with
    | some p =>
      let r := st.listener.step (if cmd == "listener.dial" then .dialOut p else .disconnect p)
      ({ st with listener := r.1 }, s!"count={r.1.connected.length}")
    | none => (st, "bad-op")
  | _ => (st, "bad-op")

end Anemo.Driver
