import Driver.Wire
import Driver.Size
import Driver.Peers
import Driver.Tower
import Driver.Router
import Driver.Codegen
import Driver.Timeout
import Driver.Manager
import Driver.Stream
import Driver.Tls
import Driver.Views
import Driver.Life
open Anemo Anemo.Driver

/-- state carried across lines by the stateful models -/
structure DState where
  peers : PeersState := {}
  tower : TowerState := {}
  router : RouterState := {}
  manager : ManagerState := {}
  views : ViewsState := {}

def step (st : DState) (line : String) : DState × String :=
  let toks := (line.trimAscii.toString.splitOn " ").filter (· ≠ "")
  match toks with
  | [] => (st, "bad-op")
  | cmd :: rest =>
    let args := parseArgs rest
    if cmd.startsWith "wire." then (st, wireOp cmd args)
    else if cmd.startsWith "size." then (st, sizeOp cmd args)
    else if cmd.startsWith "peers." || cmd.startsWith "duo." then
      let (ps, o) := peersOp st.peers cmd args
      ({ st with peers := ps }, o)
    else if cmd.startsWith "auth." || cmd.startsWith "inflight." || cmd.startsWith "gcra." then
      let (ts, o) := towerOp st.tower cmd args
      ({ st with tower := ts }, o)
    else if cmd.startsWith "listener." || cmd.startsWith "tick." then
      let (ms, o) := managerOp st.manager cmd args
      ({ st with manager := ms }, o)
    else if cmd.startsWith "tls." then (st, tlsOp cmd args)
    else if cmd.startsWith "life." then (st, lifeOp cmd args)
    else if cmd.startsWith "views." || cmd.startsWith "link." then
      let (vs, o) := viewsOp st.views cmd args
      ({ st with views := vs }, o)
    else if cmd.startsWith "stream." then (st, streamOp cmd args)
    else if cmd.startsWith "timeout." then (st, timeoutOp cmd args)
    else if cmd.startsWith "codegen." then (st, codegenOp cmd args)
    else if cmd.startsWith "router." then
      let (rs, o) := routerOp st.router cmd args
      ({ st with router := rs }, o)
    else (st, "bad-op")

partial def loop (h : IO.FS.Stream) (out : IO.FS.Stream) (st : DState) : IO Unit := do
  let line ← h.getLine
  if line.isEmpty then return ()
  let (st', o) := step st line
  out.putStrLn o
  loop h out st'

def main : IO Unit := do
  let out ← IO.getStdout
  loop (← IO.getStdin) out {}
  out.flush
