import AnemoModel.Tower
import AnemoModel.Text
namespace Anemo.Driver
open Anemo

structure TowerState where
  infl : Inflight := { limit := 0, block := false }
  gcra : Gcra := ⟨1, 1⟩
  exact : List (Nat × Nat) := []                 -- key ↦ tat (exact runs, fake clock)
  ivl : List (Nat × (Nat × Nat)) := []           -- key ↦ interval (real-time runs)

def lookupKV {β} (l : List (Nat × β)) (k : Nat) : Option β := (l.find? (·.1 == k)).map (·.2)
def setKV {β} (l : List (Nat × β)) (k : Nat) (v : β) : List (Nat × β) := (k, v) :: l.filter (·.1 != k)

def showNatList (l : List Nat) : String := if l.isEmpty then "-" else ",".intercalate (l.map toString)

def towerOp (st : TowerState) (cmd : String) (args : List (String × String)) : TowerState × String :=
  match cmd with
  | "auth.allow" =>
    let ids := fun (s : String) => if s == "-" then some [] else (s.splitOn ",").mapM (fun h => (fromHex h).map bytesToNat)
    let sender : Option (Option Nat) := match arg args "sender" with
      | some "none" => some none
      | some h => (fromHex h).map (fun b => some (bytesToNat b))
      | none => none
    match (arg args "list").bind ids, sender with
    | some l, some s =>
      let r := authCall (allowedPeers l) (fun _ => ⟨200, 1⟩) ⟨s, 0⟩
      (st, s!"status={r.1.status} invoked={r.2.length}")
    | _, _ => (st, "bad-op")
  | "auth.history" =>
    -- reqs=<sender>:<tag>;...  one layered service with a STATEFUL inner service (a log of tags), called in this order
    let ids := fun (s : String) => if s == "-" then some [] else (s.splitOn ",").mapM (fun h => (fromHex h).map bytesToNat)
    let parseReq := fun (s : String) => match s.splitOn ":" with
      | [snd, tg] =>
        (if snd == "none" then some none else (fromHex snd).map (fun b => some (bytesToNat b))).bind fun sd =>
          tg.toNat?.map fun t => (⟨sd, t⟩ : AReq)
      | _ => none
    match (arg args "list").bind ids, (arg args "reqs").bind (fun s => (s.splitOn ";").mapM parseReq) with
    | some l, some rs =>
      let (fin, resps, seen) := authRun (allowedPeers l) (fun (log : List Nat) r => (log ++ [r.tag], ⟨200, log.length⟩)) [] rs
      (st, s!"resp={",".intercalate (resps.map fun r => s!"{r.status}/{r.tag}")} seen={showNatList (seen.map (·.tag))} log={showNatList fin}")
    | _, _ => (st, "bad-op")
  | "auth.fn" =>
    match arg args "verdict", argNat args "inner-status" with
    | some v, some is =>
      let auth : AReq → Except AResp AReq := fun r =>
        if v == "ok" then .ok r else .error ⟨((v.drop 4).toString.toNat?).getD 0, 0⟩
      let r := authCall auth (fun _ => ⟨is, 1⟩) ⟨none, 0⟩
      (st, s!"status={r.1.status} invoked={r.2.length}")
    | _, _ => (st, "bad-op")
  | "inflight.reset" =>
    match argNat args "limit", arg args "mode" with
    | some l, some m => ({ st with infl := { limit := l, block := m == "block" } }, "ok")
    | _, _ => (st, "bad-op")
  | "inflight.arrive" =>
    let peer : Option (Option Nat) := match arg args "peer" with
      | some "none" => some none
      | some s => s.toNat?.map some
      | none => none
    match argNat args "r", peer with
    | some r, some p =>
      let (s', out, started) := st.infl.step (.arrive r p)
      let o := match out with
        | .started _ => "started" | .queued _ => "queued" | .refused _ => "refused" | .noPeer _ => "nopeer" | .none => "none"
      ({ st with infl := s' }, s!"outcome={o} started={showNatList started}")
    | _, _ => (st, "bad-op")
  | "inflight.finish" | "inflight.cancel" =>
    match argNat args "r", argNat args "peer" with
    | some r, some p =>
      let (s', _, started) := st.infl.step (if cmd == "inflight.finish" then .finish r p else .cancel r p)
      ({ st with infl := s' }, s!"started={showNatList started}")
    | _, _ => (st, "bad-op")
  | "inflight.state" =>
    match argNat args "peer" with
    | some p => (st, s!"running={(st.infl.peers p).running.length} waiting={(st.infl.peers p).waiting.length}")
    | none => (st, "bad-op")
  | "gcra.reset" =>
    match argNat args "t", argNat args "burst" with
    | some t, some b => ({ st with gcra := ⟨t, b⟩, exact := [], ivl := [] }, "ok")
    | _, _ => (st, "bad-op")
  | "gcra.exact" =>
    -- exact decision at a known instant (fake clock): admitted? and, if refused, the wait hint
    match argNat args "key", argNat args "now" with
    | some k, some now =>
      let cur := lookupKV st.exact k
      let r := st.gcra.check cur now
      let st' := match r.2 with
        | some tat => { st with exact := setKV st.exact k tat }
        | none => st
      (st', if r.1 then "allow" else s!"deny wait={st.gcra.hint cur now now}")
    | _, _ => (st, "bad-op")
  | "gcra.call" =>
    -- real-time observation: the call happened somewhere in [a, b]; was it admitted?
    match argNat args "key", argNat args "a", argNat args "b", argNat args "admitted" with
    | some k, some a, some b, some adm =>
      match st.gcra.accept (lookupKV st.ivl k) a b (adm == 1) with
      | some (some iv) => ({ st with ivl := setKV st.ivl k iv }, "consistent")
      | some none => (st, "consistent")
      | none => (st, "inconsistent")
    | _, _, _, _ => (st, "bad-op")
  | _ => (st, "bad-op")

end Anemo.Driver
