import AnemoModel.Timeout
import AnemoModel.Text
namespace Anemo.Driver
open Anemo

def argOptHex (args : List (String × String)) (k : String) : Option (Option Bytes) :=
  match arg args k with
  | some "none" => some none
  | some h => (fromHex h).map some
  | none => none

def timeoutOp (cmd : String) (args : List (String × String)) : String :=
  match cmd with
  | "timeout.parse" =>
    match argHex args "header" with
    | some h => match parseU64 h with
      | some n => s!"some {n}"
      | none => "none"
    | none => "bad-op"
  | "timeout.fmt" =>
    match argNat args "nanos" with
    | some n => toHex (durationToHeader n)
    | none => "bad-op"
  | "timeout.layer" =>
    match argOptNat args "default", argOptHex args "header", argNat args "d" with
    | some df, some hdr, some d =>
      let e := effective df (headerTimeout hdr)
      let r := match race e d with | .answered => "answered" | .cutOff => "cutoff"
      let at_ := match e with | some dl => min d dl | none => d
      s!"{r} at={at_}"
    | _, _, _ => "bad-op"
  | "timeout.e2e" =>
    match argOptNat args "out", argOptNat args "in", argOptHex args "header", argNat args "d" with
    | some o, some i, some hdr, some d =>
      match endToEnd o i hdr d with
      | .answered => "answered"
      | .calleeCutOff => "callee-cutoff"
      | .callerTimeout => "caller-timeout"
    | _, _, _, _ => "bad-op"
  | _ => "bad-op"

end Anemo.Driver
