import AnemoModel.Stream
import AnemoModel.Text
import Driver.Wire
namespace Anemo.Driver
open Anemo Gen

def strBytes (s : String) : Bytes := s.toUTF8.toList

def startsWithBytes (p l : Bytes) : Bool := p.isPrefixOf l

/-- the harness's user service (harness/src/net.rs `Svc`) as a function of the request -/
def svcRespond (req : Req) : Resp :=
  let look := fun (k : String) => hLookup req.headers (strBytes k)
  let natOf := fun (b : Bytes) => (String.fromUTF8? (ByteArray.mk b.toArray)).bind String.toNat?
  let id := (look "x-id").getD (strBytes "-")
  let status := match (look "x-status").bind natOf with
    | some c => (StatusCode.new c).getD .Unknown
    | none => .Success
  let body := match (look "x-resp-len").bind natOf with
    | some n => List.replicate n 0xab
    | none => id ++ [0x7c] ++ req.body.map (fun b => b ^^^ 0x5a)
  let echoed := req.headers.filterMap fun (k, v) =>
    if startsWithBytes (strBytes "x-") k || k == strBytes "timeout" then none else some (strBytes "echo-" ++ k, v)
  let pad := match (look "x-resp-hdr-len").bind natOf with
    | some n => [(strBytes "pad", List.replicate n 0x70)]
    | none => []
  { status := status, headers := echoed ++ pad ++ [(strBytes "x-id", id)], body := body }

structure ScriptState where
  phase : SrvPhase := .reading [] false
  t : Nat := 0
  due : Option Nat := none          -- when the handler will answer
  req : Option Req := none
  invoked : Nat := 0
  handler : String := "none"
  written : Option Bytes := none    -- response bytes on the wire
  serverReset : Bool := false
  clientGot : String := "unread"

def applyActions (max : Nat) (st : ScriptState) (acts : List SrvAction) (sleep : Nat) : ScriptState :=
  acts.foldl (fun st a =>
    match a with
    | .invoke r => { st with invoked := st.invoked + 1, req := some r, due := some (st.t + sleep), handler := "running" }
    | .dropHandler => { st with handler := "dropped", due := none }
    | .write bs => { st with written := some bs }
    | .resetSend => { st with serverReset := true }
    | _ => st) st

def feed (max : Nat) (sleep : Nat) (st : ScriptState) (e : SrvEvent) : ScriptState :=
  let r := Srv.step max true st.phase e
  applyActions max { st with phase := r.1 } r.2 sleep

/-- let the handler finish if its time has come -/
def settle (max : Nat) (sleep : Nat) (st : ScriptState) : ScriptState :=
  match st.due, st.req with
  | some d, some rq =>
    if d ≤ st.t && st.handler == "running" then
      let st' := feed max sleep { st with due := none, handler := "finished" } (.handlerDone (svcRespond rq))
      st'
    else st
  | _, _ => st

def runScript (max : Nat) (sleep : Nat) (ops : List String) : ScriptState :=
  -- the harness lets everything settle for a second before it drops the streams
  (fun st : ScriptState => settle max sleep { st with t := st.t + 1000 }) <| ops.foldl (fun st op =>
    let st := settle max sleep st
    let st := match op.splitOn ":" with
      | ["w", h] => match fromHex h with
        | some bs => feed max sleep st (.data bs)
        | none => st
      | ["fin"] => feed max sleep st .fin
      | ["reset"] => feed max sleep st .reset
      | ["stop"] => feed max sleep st .stopSending
      | ["wait", ms] => { st with t := st.t + ms.toNat?.getD 0 }
      | ["read"] =>
        let st := settle max sleep st
        match st.written with
        | some bs =>
          let got := match decodeResponse max bs with
            | .ok (r, _) => s!"ok status={r.status.toU16} headers={showHeaders r.headers} body={toHex r.body}"
            | .error e => s!"undecodable:{errName e}"
          feed max sleep { st with clientGot := got } .readAll
        | none => { st with clientGot := if st.serverReset then "reset" else "pending" }
      | _ => st
    settle max sleep { st with t := st.t + (if op.startsWith "wait" then 0 else 10) }) {}

def streamOp (cmd : String) (args : List (String × String)) : String :=
  match cmd with
  | "stream.script" =>
    match argOptNat args "max", argNat args "sleep", arg args "ops" with
    | some mx, some sleep, some ops =>
      let st := runScript (effMax mx) sleep (if ops == "-" then [] else ops.splitOn ",")
      s!"invoked={st.invoked} handler={st.handler} client={st.clientGot}"
    | _, _, _ => "bad-op"
  | "stream.respond" =>
    -- the service function alone (used by the honest concurrent scenarios of C02)
    match argHex args "route", (arg args "headers").bind parseHeaders, argHex args "body" with
    | some route, some h, some body =>
      let r := svcRespond { route := route, headers := normHeaders' h, body := body }
      s!"status={r.status.toU16} headers={showHeaders r.headers} body={toHex r.body}"
    | _, _, _ => "bad-op"
  | _ => "bad-op"
where
  normHeaders' (h : Headers) : Headers := h.foldl (fun a kv => hInsert a kv.1 kv.2) []

end Anemo.Driver
