import AnemoModel.Routing
import AnemoModel.Text
namespace Anemo.Driver
open Anemo

structure RouterState where
  stack : List Table := []

def showTrail (l : List Nat) : String := if l.isEmpty then "-" else ".".intercalate (l.map toString)

def routerOp (st : RouterState) (cmd : String) (args : List (String × String)) : RouterState × String :=
  match cmd, st.stack with
  | "router.reset", _ => ({ stack := [] }, "ok")
  | "router.new", s => ({ stack := [] :: s }, "ok")
  | "router.route", t :: s =>
    match argHex args "path", argNat args "svc" with
    | some p, some v =>
      match t.route p v with
      | some t' => ({ stack := t' :: s }, "ok")
      | none => (st, "reject")
    | _, _ => (st, "bad-op")
  | "router.rpc", t :: s =>
    match argHex args "name", argNat args "svc" with
    | some n, some v =>
      match t.addRpcService n v with
      | some t' => ({ stack := t' :: s }, "ok")
      | none => (st, "reject")
    | _, _ => (st, "bad-op")
  | "router.layer", t :: s =>
    match argNat args "tag" with
    | some l => ({ stack := t.routeLayer l :: s }, "ok")
    | none => (st, "bad-op")
  | "router.merge", b :: a :: s =>
    match a.merge b with
    | some t => ({ stack := t :: s }, "ok")
    | none => (st, "reject")
  | "router.call", t :: _ =>
    match argHex args "path" with
    | some p =>
      match t.dispatch p with
      | some e => (st, s!"svc={e.svc} trail={showTrail e.layers}")
      | none => (st, "404")
    | none => (st, "bad-op")
  | _, _ => (st, "bad-op")

end Anemo.Driver
