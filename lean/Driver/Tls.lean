import AnemoModel.Tls
import AnemoModel.Text
namespace Anemo.Driver
open Anemo

def parseAlg : String → Option Alg
  | "ed25519" => some .ed25519 | "other" => some .other | _ => none

def parseNames (s : String) : Option (List Name) :=
  if s == "-" then some [] else (s.splitOn "+").mapM fromHex

/-- cert=<spki>:<spkialg>:<signer>:<sigalg>:<valid 0|1>:<wf 0|1>:<names hex joined by +> | none -/
def parseCert (s : String) : Option (Option Cert) :=
  if s == "none" then some none else
  match s.splitOn ":" with
  | [spki, sa, signer, ga, v, w, names] => do
    pure (some { spki := (← spki.toNat?), spkiAlg := (← parseAlg sa), signer := (← signer.toNat?), sigAlg := (← parseAlg ga),
                 validNow := v == "1", wellFormed := w == "1", names := (← parseNames names) })
  | _ => none

def parseHs (s : String) : Option HsSig :=
  match s.splitOn ":" with
  | [k, a] => do pure { signer := (← k.toNat?), alg := (← parseAlg a) }
  | _ => none

def parseEndpoint (s : String) : Option EndpointNames :=
  match s.splitOn "/" with
  | [p] => (fromHex p).map fun x => { primary := x, alternate := none }
  | [p, a] => do pure { primary := (← fromHex p), alternate := some (← fromHex a) }
  | _ => none

def tlsOp (cmd : String) (args : List (String × String)) : String :=
  match cmd with
  | "tls.server" =>
    match (arg args "accepted").bind parseNames, argHex args "sni", (arg args "cert").bind parseCert, (arg args "hs").bind parseHs with
    | some acc, some sni, some c?, some hs =>
      match serverAccepts acc sni c? hs with
      | some k => s!"accept id={k}"
      | none => "reject"
    | _, _, _, _ => "bad-op"
  | "tls.client" =>
    match (arg args "own").bind parseNames, argOptNat args "pin", argHex args "dialed", (arg args "cert").bind parseCert, (arg args "hs").bind parseHs with
    | some own, some pin, some dialed, some (some c), some hs =>
      match clientAccepts own pin dialed c hs with
      | some k => s!"accept id={k}"
      | none => "reject"
    | _, _, _, _, _ => "bad-op"
  | "tls.connect" =>
    match (arg args "d").bind parseEndpoint, argNat args "kd", (arg args "l").bind parseEndpoint, argNat args "kl", argOptNat args "pin" with
    | some d, some kd, some l, some kl, some pin =>
      match honestConnect d kd l kl pin with
      | some (a, b) => s!"connect listener-sees={a} dialer-sees={b}"
      | none => "none"
    | _, _, _, _, _ => "bad-op"
  | _ => "bad-op"

end Anemo.Driver
