/-
Symbolic model of peer authentication (crates/anemo/src/crypto.rs, config.rs, connection.rs,
endpoint.rs, network/wire.rs handshake, connection_manager.rs).  Keys are atoms: a signature
verifies under public key `k` iff it was made with the private key of `k` (cryptography and the TLS
1.3 state machine of rustls/webpki are trusted).  A certificate is described by what the verifiers
look at.  Names are DNS names, compared ASCII-case-insensitively when matched against a certificate
(webpki) and exactly when the dialled name is looked up among the verifier's own names.
-/
import AnemoModel.Gen.Tables
namespace Anemo

abbrev Key := Nat
abbrev Name := Bytes

inductive Alg where
  | ed25519 | other
  deriving DecidableEq, Repr

structure Cert where
  spki : Key             -- subject public key (the PeerId that will be attributed)
  spkiAlg : Alg
  signer : Key           -- key that signed the certificate
  sigAlg : Alg
  names : List Name      -- subject alternative names
  validNow : Bool        -- inside its validity period
  wellFormed : Bool      -- parses (DER, extensions webpki understands, ...)
  deriving DecidableEq, Repr

/-- the CertificateVerify message: a signature over the handshake transcript -/
structure HsSig where
  signer : Key
  alg : Alg
  deriving DecidableEq, Repr

def lower (b : UInt8) : UInt8 := if 0x41 ≤ b && b ≤ 0x5a then b + 0x20 else b
def dnsEq (a b : Name) : Bool := a.map lower == b.map lower

/-- webpki: the certificate is its own trust anchor, only Ed25519 signatures are supported -/
def certOk (c : Cert) : Bool :=
  c.wellFormed && c.spkiAlg == .ed25519 && c.sigAlg == .ed25519 && c.signer == c.spki && c.validNow

def validFor (c : Cert) (n : Name) : Bool := c.names.any (dnsEq n)

/-- `verify_tls13_signature` with Ed25519 as the only scheme, under the certificate's key -/
def hsOk (c : Cert) (hs : HsSig) : Bool := hs.alg == .ed25519 && hs.signer == c.spki

/-- listener side (`CertVerifier as ClientCertVerifier`, client auth mandatory, SNI must select one
of the listener's certificates) -/
def serverAccepts (accepted : List Name) (sni : Name) (c? : Option Cert) (hs : HsSig) : Option Key :=
  match c? with
  | none => none
  | some c =>
    if accepted.any (dnsEq sni) && certOk c && accepted.any (validFor c) && hsOk c hs then some c.spki else none

/-- dialer side (`CertVerifier` / `ExpectedCertVerifier as ServerCertVerifier`): the pin is compared
with the key of the very certificate that is then validated; the dialled name must be one of the
dialer's own names (exact comparison) and the certificate valid for it -/
def pinOk (pin? : Option Key) (c : Cert) : Bool :=
  match pin? with
  | none => true
  | some p => c.wellFormed && c.spkiAlg == .ed25519 && c.spki == p

def clientAccepts (ownNames : List Name) (pin? : Option Key) (dialed : Name) (c : Cert) (hs : HsSig) : Option Key :=
  if pinOk pin? c && ownNames.contains dialed && certOk c && validFor c dialed && hsOk c hs then some c.spki else none

/-- what an adversary holding the private keys `A` can present: certificates signed with one of its
keys (with ANY subject key, names, validity) or verbatim copies of honest certificates (self-signed by
their owners), and transcript signatures made with its own keys only -/
def advCert (A : List Key) (c : Cert) : Prop := c.signer ∈ A ∨ c.signer = c.spki
def advSig (A : List Key) (hs : HsSig) : Prop := hs.signer ∈ A

/-! ### the verifiers as the SOURCE spells them (translator item `tls`) -/

/-- what each recognised statement of a `verify_*_cert` function demands of the certificate -/
def evalTlsStep (names : List Name) (dialed : Name) (pin? : Option Key) (c : Cert) : TlsStep → Bool
  | .selfSignedAnchor => c.wellFormed                       -- parses; becomes its own trust anchor
  | .verifyChainEd25519 => c.spkiAlg == .ed25519 && c.sigAlg == .ed25519 && c.signer == c.spki && c.validNow
  | .parseAcceptedNames => true
  | .certValidForAnAcceptedName => names.any (validFor c)
  | .dialedNameIsDns => true
  | .dialedNameIsOwn => names.contains dialed
  | .certValidForDialedName => validFor c dialed
  | .identityOfEndEntity => c.wellFormed && c.spkiAlg == .ed25519
  | .pinMustMatch => (match pin? with | some p => c.spki == p | none => true)
  | .delegateToCertVerifier => true

def verifyClientCertGen (accepted : List Name) (c : Cert) : Bool :=
  Gen.verifyClientCertGen.all (evalTlsStep accepted [] none c)

def verifyServerCertGen (own : List Name) (dialed : Name) (c : Cert) : Bool :=
  Gen.verifyServerCertGen.all (evalTlsStep own dialed none c)

/-- the pinned verifier: its own steps, then (if it delegates) everything the plain one demands -/
def verifyPinnedServerCertGen (own : List Name) (dialed : Name) (p : Key) (c : Cert) : Bool :=
  Gen.verifyPinnedServerCertGen.all (evalTlsStep own dialed (some p) c) &&
  Gen.verifyPinnedServerCertGen.contains .delegateToCertVerifier && verifyServerCertGen own dialed c


/-! ### endpoints and names (C14) -/
structure EndpointNames where
  primary : Name
  alternate : Option Name
  deriving Repr

def EndpointNames.accepted (e : EndpointNames) : List Name :=
  match e.alternate with
  | some a => [e.primary, a]
  | none => [e.primary]

/-- an honest endpoint's certificate for name `n` -/
def honestCert (k : Key) (n : Name) : Cert :=
  { spki := k, spkiAlg := .ed25519, signer := k, sigAlg := .ed25519, names := [n], validNow := true, wellFormed := true }

/-- an honest dial from `d` (key kd) to `l` (key kl): the dialer uses its primary name as SNI and
presents its primary certificate; the listener answers with the certificate for that SNI, if it has one.
Returns the identities attributed (listener's view of dialer, dialer's view of listener). -/
def honestConnect (d : EndpointNames) (kd : Key) (l : EndpointNames) (kl : Key) (pin? : Option Key) : Option (Key × Key) :=
  match l.accepted.find? (dnsEq d.primary) with
  | none => none                                  -- no certificate for that SNI
  | some served =>
    match clientAccepts [d.primary] pin? d.primary (honestCert kl served) ⟨kl, .ed25519⟩,
          serverAccepts l.accepted d.primary (some (honestCert kd d.primary)) ⟨kd, .ed25519⟩ with
    | some a, some b => some (b, a)
    | _, _ => none

/-! ### the ack protocol after TLS (C03): who registers when -/
inductive DialEv where
  | dTls        -- dialer accepted the listener's certificate (pin included) and finished TLS
  | lTls        -- listener's handshake completed (needs the dialer's Finished)
  | lAdmit
  | lSendAck
  | dReadAck
  | lStopped    -- listener learns that the dialer consumed the ack
  | lRegister
  | dRegister
  | dReply      -- the dialer's connect() returns Ok(id)
  deriving DecidableEq, Repr

def DialEv.requires : DialEv → List DialEv
  | .dTls => []
  | .lTls => [.dTls]
  | .lAdmit => [.lTls]
  | .lSendAck => [.lAdmit]
  | .dReadAck => [.lSendAck, .dTls]
  | .lStopped => [.dReadAck]
  | .lRegister => [.lStopped]
  | .dRegister => [.dReadAck]
  | .dReply => [.dRegister]

/-- a run is a list of events, each enabled by what happened before; `pinOk = false` disables `dTls` -/
def validRun (pinOk : Bool) : List DialEv → List DialEv → Bool
  | _, [] => true
  | done, e :: rest =>
    (e.requires.all (· ∈ done)) && !(done.contains e) && (pinOk || e != .dTls) && validRun pinOk (done ++ [e]) rest

end Anemo
