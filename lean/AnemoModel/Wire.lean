/-
Model of anemo's wire format (crates/anemo/src/network/wire.rs, types/request.rs, types/response.rs):
8-byte preamble, then two frames of tokio-util's LengthDelimitedCodec (4-byte big-endian length,
max-frame check on both ends) holding the bincode-1.3 fix-int header and the raw body.
Decoders work on a *complete* byte stream (everything the peer wrote before FIN) and return the
unread remainder, mirroring `read_exact`, `FramedRead::next` at EOF and `bincode::deserialize`.
-/
import AnemoModel.Basic
import AnemoModel.Utf8
import AnemoModel.Gen.Tables
namespace Anemo
open Gen

inductive WireErr where
  | earlyEof                -- `read_exact` of the 8-byte preamble hit EOF
  | badPreamble             -- not "anemo", or reserved byte non-zero
  | badVersion (v : Nat)
  | unexpectedEof           -- stream ended cleanly where a frame was expected
  | bytesRemaining          -- stream ended inside a frame
  | frameTooBig
  | badHeader               -- bincode could not decode the header frame
  | badStatus (c : Nat)
  deriving DecidableEq, Repr

abbrev Headers := List (Bytes × Bytes)

structure Req where
  route : Bytes
  headers : Headers
  body : Bytes
  version : Version := .V1
  ext : List Nat := []          -- local extensions (opaque tokens); never travel
  deriving DecidableEq, Repr

structure Resp where
  status : StatusCode
  headers : Headers
  body : Bytes
  version : Version := .V1
  ext : List Nat := []
  deriving DecidableEq, Repr

/-- tokio-util `LengthDelimitedCodec::builder()` default -/
def codecDefaultMax : Nat := 8 * 1024 * 1024
/-- largest length a 4-byte length field can carry; the builder clamps the maximum to it -/
def lenFieldMax : Nat := 2^32 - 1
def effMax (maxFrame : Option Nat) : Nat := min (maxFrame.getD codecDefaultMax) lenFieldMax

/-! ### preamble -/
def preamble (v : Version) : Bytes := ANEMO ++ be16 v.toU16 ++ [0]

def decodeVersionFrame : Bytes → Except WireErr (Version × Bytes)
  | b0 :: b1 :: b2 :: b3 :: b4 :: b5 :: b6 :: b7 :: rest =>
    if [b0, b1, b2, b3, b4] != ANEMO || b7 != 0 then .error .badPreamble
    else
      let v := b5.toNat * 256 + b6.toNat
      match Version.new v with
      | some ver => .ok (ver, rest)
      | none => .error (.badVersion v)
  | _ => .error .earlyEof

/-! ### frames -/
def frame (max : Nat) (p : Bytes) : Except WireErr Bytes :=
  if p.length > max then .error .frameTooBig else .ok (be32 p.length ++ p)

/-- `FramedRead::next()` on a complete stream -/
def unframe (max : Nat) (bs : Bytes) : Except WireErr (Bytes × Bytes) :=
  match bs with
  | [] => .error .unexpectedEof
  | _ =>
    match rdBe32 bs with
    | none => .error .bytesRemaining
    | some (n, r) =>
      if n > max then .error .frameTooBig
      else if r.length < n then
        -- the head has been consumed; `decode_eof` looks only at what is left in the buffer
        (if r.isEmpty then .error .unexpectedEof else .error .bytesRemaining)
      else .ok (r.take n, r.drop n)

/-! ### bincode (fix-int, little endian, no limit, trailing bytes tolerated) -/
def encStr (s : Bytes) : Bytes := le64 s.length ++ s

def encMap : Headers → Bytes
  | [] => []
  | (k, v) :: rest => encStr k ++ encStr v ++ encMap rest

def encHeaders (h : Headers) : Bytes := le64 h.length ++ encMap h

def decStr (bs : Bytes) : Option (Bytes × Bytes) :=
  match rdLe64 bs with
  | none => none
  | some (n, r) =>
    if r.length < n then none
    else
      let s := r.take n
      if validUtf8 s then some (s, r.drop n) else none

/-- insert with last-wins semantics (Rust `HashMap::insert`) -/
def hInsert (h : Headers) (k v : Bytes) : Headers :=
  match h with
  | [] => [(k, v)]
  | (k', v') :: rest => if k' == k then (k, v) :: rest else (k', v') :: hInsert rest k v

def hLookup (h : Headers) (k : Bytes) : Option Bytes :=
  match h with
  | [] => none
  | (k', v') :: rest => if k' == k then some v' else hLookup rest k

def decMapLoop : Nat → Headers → Bytes → Option (Headers × Bytes)
  | 0, acc, bs => some (acc, bs)
  | n+1, acc, bs =>
    match decStr bs with
    | none => none
    | some (k, r1) =>
      match decStr r1 with
      | none => none
      | some (v, r2) => decMapLoop n (hInsert acc k v) r2

def decHeaders (bs : Bytes) : Option (Headers × Bytes) :=
  match rdLe64 bs with
  | none => none
  | some (n, r) => decMapLoop n [] r

def encReqHeader (r : Req) : Bytes := encStr r.route ++ encHeaders r.headers
def encRespHeader (r : Resp) : Bytes := le16 r.status.toU16 ++ encHeaders r.headers

def decReqHeader (bs : Bytes) : Option (Bytes × Headers) :=
  match decStr bs with
  | none => none
  | some (route, r) =>
    match decHeaders r with
    | none => none
    | some (h, _) => some (route, h)

def decRespHeader (bs : Bytes) : Option (Nat × Headers) :=
  match rdLe16 bs with
  | none => none
  | some (c, r) =>
    match decHeaders r with
    | none => none
    | some (h, _) => some (c, h)

/-! ### whole messages.  Writers return the bytes put on the stream and the error, if any
(the preamble and header frame are already written when the body frame is refused). -/
def writeMsg (max : Nat) (ver : Version) (hdr body : Bytes) : Bytes × Option WireErr :=
  let pre := preamble ver
  match frame max hdr with
  | .error e => (pre, some e)
  | .ok h =>
    match frame max body with
    | .error e => (pre ++ h, some e)
    | .ok b => (pre ++ h ++ b, none)

def writeRequest (max : Nat) (r : Req) : Bytes × Option WireErr :=
  writeMsg max r.version (encReqHeader r) r.body

def writeResponse (max : Nat) (r : Resp) : Bytes × Option WireErr :=
  writeMsg max r.version (encRespHeader r) r.body

def encodeRequest (max : Nat) (r : Req) : Except WireErr Bytes :=
  match writeRequest max r with
  | (bs, none) => .ok bs
  | (_, some e) => .error e

def encodeResponse (max : Nat) (r : Resp) : Except WireErr Bytes :=
  match writeResponse max r with
  | (bs, none) => .ok bs
  | (_, some e) => .error e

/-- `read_request` / `read_response`: preamble, header frame, header parse, body frame -- in that
order, so the first failing step decides the error. -/
def decodeMsg (parse : Bytes → Except WireErr α) (max : Nat) (bs : Bytes) :
    Except WireErr (Version × α × Bytes × Bytes) :=
  match decodeVersionFrame bs with
  | .error e => .error e
  | .ok (ver, r0) =>
    match unframe max r0 with
    | .error e => .error e
    | .ok (hb, r1) =>
      match parse hb with
      | .error e => .error e
      | .ok a =>
        match unframe max r1 with
        | .error e => .error e
        | .ok (body, r2) => .ok (ver, a, body, r2)

def parseReqHeader (hb : Bytes) : Except WireErr (Bytes × Headers) :=
  match decReqHeader hb with
  | none => .error .badHeader
  | some x => .ok x

def parseRespHeader (hb : Bytes) : Except WireErr (StatusCode × Headers) :=
  match decRespHeader hb with
  | none => .error .badHeader
  | some (c, h) =>
    match StatusCode.new c with
    | none => .error (.badStatus c)
    | some st => .ok (st, h)

def decodeRequest (max : Nat) (bs : Bytes) : Except WireErr (Req × Bytes) :=
  match decodeMsg parseReqHeader max bs with
  | .error e => .error e
  | .ok (ver, (route, h), body, rest) =>
    .ok ({ route := route, headers := h, body := body, version := ver, ext := [] }, rest)

def decodeResponse (max : Nat) (bs : Bytes) : Except WireErr (Resp × Bytes) :=
  match decodeMsg parseRespHeader max bs with
  | .error e => .error e
  | .ok (ver, (st, h), body, rest) =>
    .ok ({ status := st, headers := h, body := body, version := ver, ext := [] }, rest)

end Anemo
