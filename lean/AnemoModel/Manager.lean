/-
Connection-manager decision logic (crates/anemo/src/network/connection_manager.rs):
* inbound admission (`handle_incoming_task`): affinity first, then the connection limit against the
  number of established connections (inbound and outbound alike);
* the listener as a history machine: arrivals, explicit dials, disconnects, known-peer table edits;
* background dialing (`handle_connectivity_check`, `DialBackoffState`) -- see `Tick` below.
-/
import AnemoModel.Gen.Tables
namespace Anemo
open Gen

/-- hand-written admission decision (proved equal to the one regenerated from the source) -/
def admits (aff : Option Affinity) (limit : Option Nat) (active : Nat) : Bool :=
  match aff, limit with
  | some .never, _ => false
  | some .high, _ => true
  | some .allowed, _ => true
  | none, none => true
  | none, some l => decide (active < l)

structure Listener where
  limit : Option Nat
  known : List (Nat × Affinity) := []        -- last entry for a peer wins (HashMap insert)
  connected : List Nat := []                 -- established connections (set)
  deriving Repr

def lookupAff (known : List (Nat × Affinity)) (p : Nat) : Option Affinity :=
  match known with
  | [] => none
  | (q, a) :: rest => match lookupAff rest p with
    | some x => some x
    | none => if q = p then some a else none

inductive LOp where
  | arrive (p : Nat)             -- an inbound connection from `p` completes its TLS handshake
  | dialOut (p : Nat)            -- the application (or the background dialer) connects to `p`
  | disconnect (p : Nat)
  | setKnown (p : Nat) (a : Affinity)
  | removeKnown (p : Nat)
  deriving DecidableEq, Repr

def insertSet (l : List Nat) (p : Nat) : List Nat := if p ∈ l then l else l ++ [p]

/-- returns the new state and, for an arrival, whether it was admitted -/
def Listener.step (s : Listener) : LOp → Listener × Option Bool
  | .arrive p =>
    if admits (lookupAff s.known p) s.limit s.connected.length then
      ({ s with connected := insertSet s.connected p }, some true)
    else (s, some false)
  | .dialOut p => ({ s with connected := insertSet s.connected p }, none)
  | .disconnect p => ({ s with connected := s.connected.filter (· ≠ p) }, none)
  | .setKnown p a => ({ s with known := s.known ++ [(p, a)] }, none)
  | .removeKnown p => ({ s with known := s.known.filter (·.1 ≠ p) }, none)

end Anemo
