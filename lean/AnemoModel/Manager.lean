/-
Connection-manager decision logic (crates/anemo/src/network/connection_manager.rs):
* inbound admission (`handle_incoming_task`): affinity first, then the connection limit against the
  number of established connections (inbound and outbound alike);
* the listener as a history machine: arrivals, explicit dials, disconnects, known-peer table edits;
* background dialing (`handle_connectivity_check`, `DialBackoffState`) -- see `Tick` below.
-/
import AnemoModel.Gen.Tables
namespace Anemo
open Gen

/-- hand-written admission decision (proved equal to the one regenerated from the source) -/
def admits (aff : Option Affinity) (limit : Option Nat) (active : Nat) : Bool :=
  match aff, limit with
  | some .never, _ => false
  | some .high, _ => true
  | some .allowed, _ => true
  | none, none => true
  | none, some l => decide (active < l)

structure Listener where
  limit : Option Nat
  known : List (Nat × Affinity) := []        -- last entry for a peer wins (HashMap insert)
  connected : List Nat := []                 -- established connections (set)
  deriving Repr

def lookupAff (known : List (Nat × Affinity)) (p : Nat) : Option Affinity :=
  match known with
  | [] => none
  | (q, a) :: rest => match lookupAff rest p with
    | some x => some x
    | none => if q = p then some a else none

inductive LOp where
  | arrive (p : Nat)             -- an inbound connection from `p` completes its TLS handshake
  | dialOut (p : Nat)            -- the application (or the background dialer) connects to `p`
  | disconnect (p : Nat)
  | setKnown (p : Nat) (a : Affinity)
  | removeKnown (p : Nat)
  deriving DecidableEq, Repr

def insertSet (l : List Nat) (p : Nat) : List Nat := if p ∈ l then l else l ++ [p]

/-- returns the new state and, for an arrival, whether it was admitted -/
def Listener.step (s : Listener) : LOp → Listener × Option Bool
  | .arrive p =>
    if admits (lookupAff s.known p) s.limit s.connected.length then
      ({ s with connected := insertSet s.connected p }, some true)
    else (s, some false)
  | .dialOut p => ({ s with connected := insertSet s.connected p }, none)
  | .disconnect p => ({ s with connected := s.connected.filter (· ≠ p) }, none)
  | .setKnown p a => ({ s with known := s.known ++ [(p, a)] }, none)
  | .removeKnown p => ({ s with known := s.known.filter (·.1 ≠ p) }, none)

/-! ## background dialing: one connectivity check (`handle_connectivity_check`) -/

structure Backoff where
  until_ : Nat          -- earliest time of the next attempt (ms)
  attempts : Nat        -- consecutive failed attempts so far
  deriving DecidableEq, Repr

/-- `DialBackoffState::{new, update}`: one more failure noticed at `now` -/
def Backoff.update (now step max : Nat) (prev : Option Backoff) : Backoff :=
  let attempts := (match prev with | some b => b.attempts | none => 0) + 1
  { until_ := now + min max (step * min attempts (2^32 - 1)), attempts := attempts }

structure KnownPeer where
  id : Nat
  aff : Affinity
  naddr : Nat            -- number of addresses
  deriving DecidableEq, Repr

structure TickCfg where
  own : Nat
  cap : Nat              -- max_concurrent_outstanding_connecting_connections
  step : Nat             -- connection_backoff (ms)
  max : Nat              -- max_connection_backoff (ms)
  deriving Repr

structure TickState where
  pending : List Nat := []                       -- peers with a background dial in flight
  backoffs : List (Nat × Backoff) := []
  deriving Repr

def lookupBackoff (l : List (Nat × Backoff)) (p : Nat) : Option Backoff :=
  match l with
  | [] => none
  | (q, b) :: rest => if q = p then some b else lookupBackoff rest p

def setBackoff (l : List (Nat × Backoff)) (p : Nat) (b : Backoff) : List (Nat × Backoff) :=
  (p, b) :: l.filter (·.1 ≠ p)

/-- step 1: results of finished background dials are noticed -/
def drain (cfg : TickCfg) (now : Nat) (st : TickState) : List (Nat × Bool) → TickState
  | [] => st
  | (p, ok) :: rest =>
    if p ∈ st.pending then
      let st' : TickState :=
        { pending := st.pending.filter (· ≠ p),
          backoffs := if ok then st.backoffs.filter (·.1 ≠ p)
                      else setBackoff st.backoffs p (Backoff.update now cfg.step cfg.max (lookupBackoff st.backoffs p)) }
      drain cfg now st' rest
    else drain cfg now st rest

/-- step 2: who may be dialled now -/
def eligible (cfg : TickCfg) (now : Nat) (connected : List Nat) (st : TickState) (k : KnownPeer) : Bool :=
  k.aff == .high && k.id != cfg.own && decide (0 < k.naddr) && !decide (k.id ∈ connected) && !decide (k.id ∈ st.pending) &&
  (match lookupBackoff st.backoffs k.id with
   | some b => decide (b.until_ < now)
   | none => true)

def addrIndex (st : TickState) (k : KnownPeer) : Nat :=
  (match lookupBackoff st.backoffs k.id with | some b => b.attempts | none => 0) % k.naddr

/-- one connectivity check.  `known` is given in the (unspecified) iteration order of the table;
`pendingConns` is the number of connections being established at this moment (background dials,
explicit dials and inbound handshakes alike).  Returns the dials started as (peer, address index). -/
def tick (cfg : TickCfg) (now : Nat) (known : List KnownPeer) (connected : List Nat) (pendingConns : Nat)
    (done : List (Nat × Bool)) (st : TickState) : TickState × List (Nat × Nat) :=
  let st1 := drain cfg now st done
  let el := known.filter (eligible cfg now connected st1)
  let n := min el.length (cfg.cap - pendingConns)
  let chosen := el.take n
  ({ st1 with pending := st1.pending ++ chosen.map (·.id) }, chosen.map fun k => (k.id, addrIndex st1 k))

/-! ### the connectivity check as the SOURCE spells it (translator item `tick`) -/

def evalEligClause (cfg : TickCfg) (now : Nat) (connected : List Nat) (st : TickState) (k : KnownPeer) : EligClause → Bool
  | .isHigh => k.aff == .high
  | .notSelf => k.id != cfg.own
  | .hasAddress => decide (0 < k.naddr)
  | .notConnected => !decide (k.id ∈ connected)
  | .noPendingDial => !decide (k.id ∈ st.pending)
  | .pastBackoffStrict => (match lookupBackoff st.backoffs k.id with | some b => decide (b.until_ < now) | none => true)
  | .pastBackoffLax => (match lookupBackoff st.backoffs k.id with | some b => decide (b.until_ ≤ now) | none => true)

/-- the conjunction of the clauses the translator read off the `.filter(...)` of `handle_connectivity_check` -/
def eligibleGen (cfg : TickCfg) (now : Nat) (connected : List Nat) (st : TickState) (k : KnownPeer) : Bool :=
  Gen.eligibleClausesGen.all (evalEligClause cfg now connected st k)

/-- the dial budget as translated: the cap minus the size of the set the source subtracts -/
def budgetGen (cap pendingConns pendingDials : Nat) : Nat :=
  match Gen.budgetMinusGen with
  | .pendingConnections => cap - pendingConns
  | .pendingDials => cap - pendingDials


end Anemo
