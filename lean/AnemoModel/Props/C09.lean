/-
C09 - Connection views are eventually mutual; disconnects propagate.
Theorems over `Views.Link` (the idle-timer logic of one connection seen from both ends, with every
packet's fate explicit in the event) and over the active-peer set model of `Peers`.
-/
import AnemoModel.Views
import AnemoModel.Peers
import AnemoModel.Lemmas.Node
namespace Anemo.Views

/-! ### a dead end is noticed by the other end -/

/-- `x` is dead since (at most) `t0`; the survivor's timer can have been restarted at most once more -/
def Trail (T t0 : Nat) (x : Who) (l : Link) : Prop :=
  (l.side x).alive = false ∧
  ((l.side x.other).alive = true →
     l.now < (l.side x.other).deadline ∧ (l.side x.other).deadline ≤ t0 + 2 * T ∧
     ((l.side x.other).sentSinceRecv = false → (l.side x.other).deadline ≤ t0 + T))

theorem trail_step (T t0 : Nat) (hT : 0 < T) (x : Who) (l : Link) (ev : Ev) (h : Trail T t0 x l) :
    Trail T t0 x (l.step T ev) := by
  obtain ⟨now, ⟨aa, ad, as⟩, ⟨ba, bd, bs⟩⟩ := l
  cases x <;> cases ev with
  | tick =>
    simp only [Trail, Link.side, Who.other, Link.step, Side.expire] at h ⊢
    obtain ⟨h1, h2⟩ := h
    subst h1
    simp
    split <;> simp_all <;> omega
  | send w d k =>
    cases w <;> cases d <;> cases k <;> cases as <;> cases bs <;> cases aa <;> cases ba <;>
      simp_all [Trail, Link.side, Who.other, Link.step, Link.set] <;> omega
  | close w d =>
    cases w <;> cases d <;> simp_all [Trail, Link.side, Who.other, Link.step, Link.set, Side.kill]

theorem trail_run (T t0 : Nat) (hT : 0 < T) (x : Who) (evs : List Ev) (l : Link) (h : Trail T t0 x l) :
    Trail T t0 x (l.run T evs) := by
  induction evs generalizing l with
  | nil => exact h
  | cons e es ih => exact ih _ (trail_step T t0 hT x l e h)

theorem trail_init (T : Nat) (x : Who) (l : Link) (hinv : l.Inv T) (hx : (l.side x).alive = false) :
    Trail T l.now x l := by
  obtain ⟨now, ⟨aa, ad, as⟩, ⟨ba, bd, bs⟩⟩ := l
  obtain ⟨h1, h2⟩ := hinv
  simp only [Side.Ok] at h1 h2
  cases x
  · refine ⟨hx, fun hy => ?_⟩
    simp only [Link.side, Who.other] at hy ⊢
    have := h2 hy
    omega
  · refine ⟨hx, fun hy => ?_⟩
    simp only [Link.side, Who.other] at hy ⊢
    have := h1 hy
    omega

/-- **Any connection that one end closed, rejected or lost is lost at the other end** after at most
two idle timeouts, for every schedule of packets, losses, closes and ticks (the survivor's own
sending can restart its idle timer once - RFC 9000 §10.1). -/
theorem C09_dead_propagates (T : Nat) (hT : 0 < T) (x : Who) (l : Link) (evs : List Ev)
    (hinv : l.Inv T) (hx : (l.side x).alive = false)
    (hlong : l.now + 2 * T ≤ (l.run T evs).now) :
    ((l.run T evs).side x.other).alive = false := by
  have h := trail_run T l.now hT x evs l (trail_init T x l hinv hx)
  cases hy : ((l.run T evs).side x.other).alive with
  | false => rfl
  | true => have := h.2 hy; omega

/-- passive survivor (it sends nothing ack-eliciting): noticed **within one idle timeout** -/
def TrailP (T t0 : Nat) (x : Who) (l : Link) : Prop :=
  (l.side x).alive = false ∧
  ((l.side x.other).alive = true → l.now < (l.side x.other).deadline ∧ (l.side x.other).deadline ≤ t0 + T)

theorem trailP_step (T t0 : Nat) (x : Who) (l : Link) (ev : Ev) (h : TrailP T t0 x l)
    (hns : ev.isSendBy x.other = false) : TrailP T t0 x (l.step T ev) := by
  obtain ⟨now, ⟨aa, ad, as⟩, ⟨ba, bd, bs⟩⟩ := l
  cases x <;> cases ev with
  | tick =>
    simp only [TrailP, Link.side, Who.other, Link.step, Side.expire] at h ⊢
    obtain ⟨h1, h2⟩ := h
    subst h1
    simp
    split <;> simp_all <;> omega
  | send w d k =>
    cases w <;> simp_all [TrailP, Link.side, Who.other, Link.step, Link.set, Ev.isSendBy]
  | close w d =>
    cases w <;> cases d <;> simp_all [TrailP, Link.side, Who.other, Link.step, Link.set, Side.kill]

theorem trailP_run (T t0 : Nat) (x : Who) (evs : List Ev) (l : Link) (h : TrailP T t0 x l)
    (hns : ∀ e ∈ evs, e.isSendBy x.other = false) : TrailP T t0 x (l.run T evs) := by
  induction evs generalizing l with
  | nil => exact h
  | cons e es ih =>
    exact ih _ (trailP_step T t0 x l e h (hns e (by simp))) (fun e' he' => hns e' (by simp [he']))

theorem C09_dead_propagates_passive (T : Nat) (x : Who) (l : Link) (evs : List Ev)
    (hinv : l.Inv T) (hx : (l.side x).alive = false)
    (hns : ∀ e ∈ evs, e.isSendBy x.other = false)
    (hlong : l.now + T ≤ (l.run T evs).now) :
    ((l.run T evs).side x.other).alive = false := by
  have h0 : TrailP T l.now x l := by
    obtain ⟨now, ⟨aa, ad, as⟩, ⟨ba, bd, bs⟩⟩ := l
    cases x <;> simp_all [TrailP, Link.Inv, Side.Ok, Link.side, Who.other]
  have h := trailP_run T l.now x evs l h0 hns
  cases hy : ((l.run T evs).side x.other).alive with
  | false => rfl
  | true => have := h.2 hy; omega

/-- a delivered close (explicit disconnect, rejection, tie-break loss on a working path) is seen by
the other end at once; the closing end is gone at once whatever the path does -/
theorem C09_close_immediate (T : Nat) (l : Link) (w : Who) (d : Bool) :
    ((l.step T (.close w d)).side w).alive = false ∧
    (d = true → ((l.step T (.close w d)).side w.other).alive = false) := by
  obtain ⟨now, ⟨aa, ad, as⟩, ⟨ba, bd, bs⟩⟩ := l
  cases w <;> cases d <;> simp [Link.step, Link.set, Link.side, Side.kill, Who.other]

/-! ### mutual views after a fault-free period -/

def Synced (l : Link) : Prop :=
  l.a.deadline = l.b.deadline ∧ l.a.sentSinceRecv = false ∧ l.b.sentSinceRecv = false

/-- the invariant of a fault-free window that started at `t0` -/
def Win (T t0 : Nat) (l : Link) : Prop :=
  l.Inv T ∧
  ((l.a.alive = true ∧ l.b.alive = true ∧ (Synced l ∨ (l.a.deadline ≤ t0 + T ∧ l.b.deadline ≤ t0 + T))) ∨
   Trail T t0 .a l ∨ Trail T t0 .b l)

theorem expire_ok (T now : Nat) (s : Side) (h : s.Ok T now) : (s.expire (now + 1)).Ok T (now + 1) := by
  obtain ⟨sa, sd, ss⟩ := s
  simp only [Side.Ok, Side.expire] at h ⊢
  by_cases e : sd ≤ now + 1
  · cases sa <;> simp [e]
  · cases sa
    · simp
    · simp [e]
      have := h rfl
      omega

theorem inv_step (T : Nat) (hT : 0 < T) (l : Link) (ev : Ev) (h : l.Inv T) : (l.step T ev).Inv T := by
  obtain ⟨now, ⟨aa, ad, as⟩, ⟨ba, bd, bs⟩⟩ := l
  cases ev with
  | tick =>
    exact ⟨expire_ok T now _ h.1, expire_ok T now _ h.2⟩
  | send w d k =>
    cases w <;> cases d <;> cases k <;> cases as <;> cases bs <;> cases aa <;> cases ba <;>
      simp_all [Link.Inv, Side.Ok, Link.side, Who.other, Link.step, Link.set]
  | close w d =>
    cases w <;> cases d <;> simp_all [Link.Inv, Side.Ok, Link.side, Who.other, Link.step, Link.set, Side.kill]

theorem inv_run (T : Nat) (hT : 0 < T) (evs : List Ev) (l : Link) (h : l.Inv T) : (l.run T evs).Inv T := by
  induction evs generalizing l with
  | nil => exact h
  | cons e es ih => exact ih _ (inv_step T hT l e h)

theorem win_step (T t0 : Nat) (hT : 0 < T) (l : Link) (ev : Ev) (h : Win T t0 l) (hff : ev.faultFree = true) :
    Win T t0 (l.step T ev) := by
  refine ⟨inv_step T hT l ev h.1, ?_⟩
  rcases h.2 with hboth | ha | hb
  · obtain ⟨hinvA, hinvB⟩ := h.1
    obtain ⟨now, ⟨aa, ad, as⟩, ⟨ba, bd, bs⟩⟩ := l
    obtain ⟨h1, h2, h3⟩ := hboth
    simp only at h1 h2
    subst h1; subst h2
    cases ev with
    | tick =>
      simp only [Side.Ok] at hinvA hinvB
      have hA := hinvA trivial
      have hB := hinvB trivial
      simp only [Synced] at h3
      by_cases ea : ad ≤ now + 1 <;> by_cases eb : bd ≤ now + 1
      · right; left
        simp [Trail, Link.step, Side.expire, Link.side, Who.other, ea, eb]
      · right; left
        rcases h3 with hs | hs
        · omega
        · simp [Trail, Link.step, Side.expire, Link.side, Who.other, ea, eb]; omega
      · right; right
        rcases h3 with hs | hs
        · omega
        · simp [Trail, Link.step, Side.expire, Link.side, Who.other, ea, eb]; omega
      · left
        simp [Link.step, Side.expire, ea, eb, Synced] at h3 ⊢
        exact h3
    | send w d k =>
      simp [Ev.faultFree] at hff
      obtain ⟨hd, hk⟩ := hff
      subst hd; subst hk
      left
      cases w <;> cases as <;> cases bs <;> simp [Link.step, Link.side, Link.set, Who.other, Synced]
    | close w d =>
      simp [Ev.faultFree] at hff
      subst hff
      right; left
      cases w <;> simp [Trail, Link.step, Link.side, Link.set, Who.other, Side.kill]
  · exact Or.inr (Or.inl (trail_step T t0 hT .a l ev ha))
  · exact Or.inr (Or.inr (trail_step T t0 hT .b l ev hb))

theorem win_run (T t0 : Nat) (hT : 0 < T) (evs : List Ev) (l : Link) (h : Win T t0 l)
    (hff : ∀ e ∈ evs, e.faultFree = true) : Win T t0 (l.run T evs) := by
  induction evs generalizing l with
  | nil => exact h
  | cons e es ih =>
    exact ih _ (win_step T t0 hT l e h (hff e (by simp))) (fun e' he' => hff e' (by simp [he']))

theorem win_init (T : Nat) (l : Link) (h : l.Inv T) : Win T l.now l := by
  refine ⟨h, ?_⟩
  cases ha : l.a.alive with
  | false => exact Or.inr (Or.inl (trail_init T .a l h ha))
  | true =>
    cases hb : l.b.alive with
    | false => exact Or.inr (Or.inr (trail_init T .b l h hb))
    | true =>
      left
      have h1 := h.1 ha
      have h2 := h.2 hb
      exact ⟨rfl, rfl, Or.inr ⟨h1.2, h2.2⟩⟩

/-- **Whenever connectivity stays fault-free for two idle timeouts, both ends agree** on whether
the connection exists - from *every* state the two ends can be in (half-open after a partition,
one end closed while the close was lost, ...), whatever traffic flows during the period. -/
theorem C09_mutual (T : Nat) (hT : 0 < T) (l : Link) (evs : List Ev) (hinv : l.Inv T)
    (hff : ∀ e ∈ evs, e.faultFree = true) (hlong : l.now + 2 * T ≤ (l.run T evs).now) :
    (l.run T evs).a.alive = (l.run T evs).b.alive := by
  have h := win_run T l.now hT evs l (win_init T l hinv) hff
  rcases h.2 with hboth | ha | hb
  · rw [hboth.1, hboth.2.1]
  · have hx := ha.1
    simp only [Link.side, Who.other] at hx
    cases hy : (l.run T evs).b.alive with
    | false => rw [hx]
    | true => have := ha.2 hy; simp only [Link.side, Who.other] at this; omega
  · have hx := hb.1
    simp only [Link.side, Who.other] at hx
    cases hy : (l.run T evs).a.alive with
    | false => rw [hx]
    | true => have := hb.2 hy; simp only [Link.side, Who.other] at this; omega

/-- and then **every listed peer can be reached by RPC**: if an end is alive after such a period, an
RPC over the (fault-free) path completes -/
theorem C09_listed_reachable (T : Nat) (hT : 0 < T) (l : Link) (evs : List Ev) (hinv : l.Inv T)
    (hff : ∀ e ∈ evs, e.faultFree = true) (hlong : l.now + 2 * T ≤ (l.run T evs).now) (w : Who)
    (hl : ((l.run T evs).side w).alive = true) : (l.run T evs).rpcOk w true = true := by
  have hm := C09_mutual T hT l evs hinv hff hlong
  cases w <;> simp_all [Link.rpcOk, Link.side, Who.other]

/-! ### a healthy connection with traffic (keep-alive or requests) at least once per idle timeout stays up:
the mutual state reached is not always "both gone" -/

theorem ticks_alive (T : Nat) (n : Nat) (l : Link) (ha : l.a.alive = true) (hb : l.b.alive = true)
    (hda : l.now + n < l.a.deadline) (hdb : l.now + n < l.b.deadline) :
    let l' := l.run T (List.replicate n Ev.tick)
    l'.a = l.a ∧ l'.b = l.b ∧ l'.now = l.now + n := by
  induction n generalizing l with
  | zero => simp [Link.run]
  | succ n ih =>
    simp only [List.replicate_succ, Link.run, List.foldl_cons]
    have e1 : l.a.expire (l.now + 1) = l.a := by simp [Side.expire, ha]; omega
    have e2 : l.b.expire (l.now + 1) = l.b := by simp [Side.expire, hb]; omega
    have := ih (l.step T .tick) (by simp [Link.step, e1, ha]) (by simp [Link.step, e2, hb])
      (by simp [Link.step, e1]; omega) (by simp [Link.step, e2]; omega)
    simp only [Link.run] at this
    obtain ⟨t1, t2, t3⟩ := this
    refine ⟨by rw [t1]; simp [Link.step, e1], by rw [t2]; simp [Link.step, e2], by rw [t3]; simp [Link.step]; omega⟩

theorem C09_keepalive_stays (T : Nat) (w : Who) (ns : List Nat) (hns : ∀ n ∈ ns, n < T) (l : Link)
    (ha : l.a.alive = true) (hb : l.b.alive = true) :
    (l.run T (rounds w ns)).a.alive = true ∧ (l.run T (rounds w ns)).b.alive = true := by
  induction ns generalizing l with
  | nil => simp [rounds, Link.run, ha, hb]
  | cons n t ih =>
    simp only [rounds, Link.run, List.foldl_cons, List.foldl_append]
    have hn : n < T := hns n (by simp)
    obtain ⟨now, ⟨aa, ad, as⟩, ⟨ba, bd, bs⟩⟩ := l
    simp only at ha hb
    subst ha; subst hb
    have hs : ∃ s1 s2, Link.step T ⟨now, ⟨true, ad, as⟩, ⟨true, bd, bs⟩⟩ (.send w true true) =
        ⟨now, ⟨true, now + T, s1⟩, ⟨true, now + T, s2⟩⟩ := by
      cases w <;> cases as <;> cases bs <;> simp [Link.step, Link.side, Link.set, Who.other]
    obtain ⟨s1, s2, hs⟩ := hs
    rw [hs]
    have tk := ticks_alive T n ⟨now, ⟨true, now + T, s1⟩, ⟨true, now + T, s2⟩⟩ rfl rfl (by simp; omega) (by simp; omega)
    simp only [Link.run] at tk
    obtain ⟨t1, t2, _⟩ := tk
    have := ih (fun m hm => hns m (by simp [hm])) (List.foldl (Link.step T) ⟨now, ⟨true, now + T, s1⟩, ⟨true, now + T, s2⟩⟩ (List.replicate n Ev.tick))
      (by rw [t1]) (by rw [t2])
    simpa [Link.run] using this

/-! ### the abstract network view is symmetric by construction -/

theorem norm_comm (i j : Nat) : norm i j = norm j i := by
  unfold norm
  by_cases h1 : i ≤ j <;> by_cases h2 : j ≤ i <;> simp [h1, h2]
  · have : i = j := by omega
    subst this; simp
  · omega

theorem C09_views_symmetric (s : Net) (i j : Nat) (hi : i < s.n) (hj : j < s.n) :
    j ∈ s.lists i ↔ i ∈ s.lists j := by
  simp [Net.lists, Net.connected, hi, hj, norm_comm i j]
  intro _
  constructor <;> intro h e <;> exact h e.symm

end Anemo.Views

namespace Anemo

/-! ### explicit disconnect on the active-peer set -/

theorem lookup_erase (l : List (PeerId × Conn)) (p : Nat) : lookupConn (eraseConn l p) p = none := by
  induction l with
  | nil => simp [eraseConn, lookupConn]
  | cons e t ih =>
    obtain ⟨q, c⟩ := e
    by_cases h : q = p
    · simpa [eraseConn, h] using ih
    · simp only [eraseConn, List.filter_cons]
      simp [h, lookupConn]
      simpa [eraseConn] using ih

theorem not_mem_peers_erase (l : List (PeerId × Conn)) (p : Nat) : p ∉ (eraseConn l p).map (·.1) := by
  simp [eraseConn]

/-- **An explicit disconnect removes the peer locally at once, with exactly one LostPeer(Requested),
closes the connection, and RPCs to the peer (which need its entry) fail until a new connection is added.** -/
theorem C09_disconnect_local (s : Active) (p : Nat) (c : Conn) (h : lookupConn s.conns p = some c) :
    let s' := s.remove p .requested
    p ∉ s'.peers ∧ lookupConn s'.conns p = none ∧
    s'.log = s.log ++ [.lostPeer p .requested] ∧ c.id ∈ s'.closed := by
  simp [Active.remove, h, Active.peers, lookup_erase]
  intro x hx
  simp [eraseConn] at hx

/-- disconnecting a peer that is not connected changes nothing (the API reports an error) -/
theorem C09_disconnect_absent (s : Active) (p : Nat) (h : lookupConn s.conns p = none) :
    s.remove p .requested = s := by
  simp [Active.remove, h]

/-- the entry stays absent (RPCs keep failing) under everything except a new connection for that peer -/
theorem C09_absent_until_add (own : Nat) (s : Active) (op : Op) (p : Nat) (h : lookupConn s.conns p = none)
    (hop : ∀ c, op = .add c → c.peer ≠ p) : lookupConn (s.step own op).conns p = none := by
  have ler : ∀ (l : List (PeerId × Conn)) (q : Nat), lookupConn l p = none → lookupConn (eraseConn l q) p = none := by
    intro l q
    induction l with
    | nil => simp [eraseConn, lookupConn]
    | cons e t ih =>
      obtain ⟨r, c⟩ := e
      intro hl
      simp only [lookupConn] at hl
      by_cases hr : r = p
      · simp [hr] at hl
      · simp only [hr, if_false] at hl
        simp only [eraseConn, List.filter_cons]
        split
        · simp only [lookupConn, hr, if_false]; exact ih hl
        · exact ih hl
  have lap : ∀ (l : List (PeerId × Conn)) (e : PeerId × Conn), lookupConn l p = none → e.1 ≠ p → lookupConn (l ++ [e]) p = none := by
    intro l e
    induction l with
    | nil => intro _ he; simp [lookupConn, he]
    | cons x t ih =>
      obtain ⟨r, c⟩ := x
      intro hl he
      simp only [lookupConn] at hl
      by_cases hr : r = p
      · simp [hr] at hl
      · simp only [hr, if_false] at hl
        simp only [List.cons_append, lookupConn, hr, if_false]
        exact ih hl he
  cases op with
  | add c =>
    have hc := hop c rfl
    simp only [Active.step, Active.add]
    split
    · exact lap _ _ h hc
    · split
      · exact lap _ _ (ler _ _ h) hc
      · exact h
  | remove q r =>
    simp only [Active.step, Active.remove]
    split
    · exact h
    · exact ler _ _ h
  | removeStable q id r =>
    simp only [Active.step, Active.removeStable, Active.remove]
    split
    · exact h
    · split
      · rename_i c heq _
        simp only [heq]
        exact ler _ _ h
      · exact h

/-- **An entry of the connected set exists only while the handler task of exactly that connection is
running, and a running handler without an entry serves a connection this node has already closed**
(so it exits) - for every history of established connections (inbound or outbound, replacing or
losing the tie-break), handler exits and explicit disconnects. -/
theorem C09_entry_iff_handler (own : Nat) (ops : List NodeOp) (hok : Node.runOk own {} ops) :
    let n := ({} : Node).run own ops
    (∀ p ∈ n.active.peers, ∃ c ∈ n.handlers, c.peer = p ∧ lookupConn n.active.conns p = some c) ∧
    (∀ c ∈ n.handlers, lookupConn n.active.conns c.peer = some c ∨ c.id ∈ n.active.closed) := by
  have h := Node.run_inv own ops {} Node.inv_init hok
  refine ⟨?_, ?_⟩
  · intro p hp
    simp only [Active.peers, List.mem_map] at hp
    obtain ⟨e, he, rfl⟩ := hp
    refine ⟨e.2, h.entryHasHandler e he, h.active.keyed e he, ?_⟩
    exact lookupConn_of_mem_nodup _ _ _ h.active.nodup he
  · intro c hc
    rcases (h.handlerAccounted c hc).2 with hcl | hin
    · exact Or.inr hcl
    · exact Or.inl (lookupConn_of_mem_nodup _ _ _ h.active.nodup hin)

/-- the hypothesis is satisfiable: a re-dial that replaces, then the stale handler's exit -/
example : Node.runOk 5 {} [.established ⟨1, 9, .outbound⟩, .established ⟨2, 9, .outbound⟩, .handlerExit 1 .locallyClosed, .disconnect 9] ∧
    (({} : Node).run 5 [.established ⟨1, 9, .outbound⟩, .established ⟨2, 9, .outbound⟩, .handlerExit 1 .locallyClosed]).active.peers = [9] := by
  refine ⟨?_, by decide⟩
  simp only [Node.runOk, NodeOp.freshFor, and_true]
  decide

/-- **every connection that is not registered is closed**: whatever `add` decides, the connection it
does not keep (the newcomer that lost the tie-break, or the replaced one) is closed by it -/
theorem C09_unregistered_closed (own : Nat) (s : Active) (c : Conn) :
    let r := s.add own c
    (r.2 = false → c.id ∈ r.1.closed) ∧
    (∀ old, lookupConn s.conns c.peer = some old → r.2 = true → old.id ∈ r.1.closed) := by
  simp only [Active.add]
  split
  · simp_all
  · split <;> simp_all

end Anemo

namespace Anemo.Views
/-! ### the hypotheses are satisfiable (non-vacuity), and the bounds are tight -/

/-- half-open after a partition: `a` closed while the close was lost; `b` is still listed -/
def halfOpen : Link := (Link.fresh 0 4).run 4 [.tick, .close .a false]

example : halfOpen.Inv 4 ∧ (halfOpen.side .a).alive = false ∧ (halfOpen.side .b).alive = true := by
  refine ⟨⟨?_, ?_⟩, by decide, by decide⟩ <;> simp only [Side.Ok] <;> decide

/-- a passive survivor notices exactly when its idle timer fires (not earlier): the bound `T` is tight -/
example : ((halfOpen.run 4 [.tick, .tick]).side .b).alive = true ∧
    ((halfOpen.run 4 [.tick, .tick, .tick]).side .b).alive = false := by decide

/-- a survivor that sends just before its timer fires stays listed for almost another idle timeout: the
bound `2T` of `C09_dead_propagates` cannot be improved to `T` -/
example : ((halfOpen.run 4 [.tick, .tick, .send .b false false, .tick, .tick, .tick]).side .b).alive = true ∧
    ((halfOpen.run 4 [.tick, .tick, .send .b false false, .tick, .tick, .tick, .tick]).side .b).alive = false := by decide

/-- with losses the views can stay different for as long as the faults last... -/
example : let l := (Link.fresh 0 4).run 4 [.tick, .close .a false, .tick]
    l.a.alive ≠ l.b.alive := by decide

/-- ...and a healthy connection with traffic survives (the agreement reached is not always "gone") -/
example : let l := (Link.fresh 0 4).run 4 (rounds .a [3, 3, 3, 3])
    l.a.alive = true ∧ l.b.alive = true ∧ l.now = 12 := by decide
end Anemo.Views

namespace Anemo
/-- **The idle timeout and keep-alive interval configured are the ones every connection runs with** (word for word the functions the model was written for, checked on this run): `QuicConfig::transport_config` applies both settings independently, the same transport configuration goes into the server configuration, the plain client configuration and every per-dial pinned client configuration; `disconnect` removes through the active set at once. -/
theorem C09_transport_is_pinned : Gen.tlsConfigShapeChecked = true ∧ Gen.netApiShapeChecked = true := ⟨rfl, rfl⟩
end Anemo
