/-
C11 — Request deadline = min(local default, timeout header), end to end.
All header strings (any bytes), all combinations of configured defaults, all handler durations.
Equality of a duration and a deadline is left unspecified by the property; the end-to-end theorem
states the strict cases.
-/
import AnemoModel.Timeout
namespace Anemo
open Gen

/-! ### the deadline is the smaller of default and header; either may be absent -/
theorem C11_min (d r : Nat) :
    effective (some d) (some r) = some (min r d) ∧ effective (some d) none = some d ∧
    effective none (some r) = some r ∧ effective none none = none := ⟨rfl, rfl, rfl, rfl⟩

/-- an unparsable header counts as absent -/
theorem C11_unparsable_is_absent (default? : Option Nat) (s : Bytes) (h : parseU64 s = none) :
    effective default? (headerTimeout (some s)) = effective default? (headerTimeout none) := by
  simp [headerTimeout, h]

/-- a remote peer can shorten but never extend the local limit ... -/
theorem C11_remote_cannot_extend (d : Nat) (hdr : Option Bytes) :
    ∃ e, effective (some d) (headerTimeout hdr) = some e ∧ e ≤ d := by
  cases h : headerTimeout hdr with
  | none => exact ⟨d, rfl, Nat.le_refl d⟩
  | some r => exact ⟨min r d, rfl, Nat.min_le_right r d⟩

/-- ... nor disable it -/
theorem C11_disable_impossible (d : Nat) (hdr : Option Bytes) : effective (some d) (headerTimeout hdr) ≠ none := by
  obtain ⟨e, he, _⟩ := C11_remote_cannot_extend d hdr
  rw [he]; simp

theorem C11_remote_can_shorten (d r : Nat) (s : Bytes) (hp : parseU64 s = some r) (hr : r ≤ d) :
    effective (some d) (headerTimeout (some s)) = some r := by
  simp [headerTimeout, hp, effective, Nat.min_eq_left hr]

/-- whatever the header says, the effective deadline never exceeds the header's own value either -/
theorem C11_header_bound (default? : Option Nat) (s : Bytes) (r : Nat) (hp : parseU64 s = some r) :
    ∃ e, effective default? (headerTimeout (some s)) = some e ∧ e ≤ r := by
  cases default? with
  | none => exact ⟨r, by simp [headerTimeout, hp, effective], Nat.le_refl r⟩
  | some d => exact ⟨min r d, by simp [headerTimeout, hp, effective], Nat.min_le_left r d⟩

/-! ### which header strings parse (Rust `u64::from_str`) -/
theorem C11_parse_lt (s : Bytes) (v : Nat) (h : parseU64 s = some v) : v < 2^64 := by
  unfold parseU64 parseU64Digits at h
  cases hs : stripPlus s with
  | nil => rw [hs] at h; cases h
  | cons b t =>
    rw [hs] at h
    simp only at h
    cases hp : parseDigits (b :: t) 0 with
    | none => rw [hp] at h; cases h
    | some w =>
      rw [hp] at h
      simp only at h
      split at h
      · injection h with h; omega
      · cases h

/-- concrete strings: "", "+", "-1", " 5", "5 ", "1e3", 2^64 are absent; "0", "+5", "007", 2^64-1 parse -/
theorem C11_parse_examples :
    parseU64 [] = none ∧ parseU64 [0x2b] = none ∧ parseU64 [0x2d, 0x31] = none ∧ parseU64 [0x20, 0x35] = none ∧
    parseU64 [0x35, 0x20] = none ∧ parseU64 [0x31, 0x65, 0x33] = none ∧
    parseU64 [0x30] = some 0 ∧ parseU64 [0x2b, 0x35] = some 5 ∧ parseU64 [0x30, 0x30, 0x37] = some 7 ∧
    parseU64 (toDec (2^64)) = none ∧ parseU64 (toDec (2^64 - 1)) = some (2^64 - 1) := by decide

/-! ### `set_timeout` / `timeout()` round trip -/
def lenAux : Nat → Nat → Nat
  | 0, _ => 0
  | fuel+1, n => if n < 10 then 1 else 1 + lenAux fuel (n / 10)

theorem digit_facts (k : Nat) (hk : k < 10) :
    isDigit (UInt8.ofNat (0x30 + k)) = true ∧ (UInt8.ofNat (0x30 + k)).toNat - 0x30 = k := by
  have h1 : (UInt8.ofNat (0x30 + k)).toNat = 0x30 + k := by
    rw [UInt8.toNat_ofNat']; omega
  refine ⟨?_, by omega⟩
  simp only [isDigit, Bool.and_eq_true, decide_eq_true_eq, UInt8.le_iff_toNat_le, h1]
  exact ⟨by decide +revert, by simp; omega⟩

theorem parseDigits_toDecAux (fuel n : Nat) (acc : List UInt8) (a : Nat) (hn : n < 10^(fuel+1)) :
    parseDigits (toDecAux (fuel+1) n acc) a = parseDigits acc (a * 10^(lenAux (fuel+1) n) + n) := by
  induction fuel generalizing n acc a with
  | zero =>
    have h10 : n < 10 := by simpa using hn
    have ⟨hd, hv⟩ := digit_facts n h10
    rw [toDecAux, if_pos h10, lenAux, if_pos h10, parseDigits, hd, if_pos rfl, hv, Nat.pow_one]
  | succ f ih =>
    by_cases h10 : n < 10
    · have ⟨hd, hv⟩ := digit_facts n h10
      rw [toDecAux, if_pos h10, lenAux, if_pos h10, parseDigits, hd, if_pos rfl, hv, Nat.pow_one]
    · have hq : n / 10 < 10^(f+1) := by
        rw [Nat.div_lt_iff_lt_mul (by decide)]
        calc n < 10^(f+1+1) := hn
          _ = 10^(f+1) * 10 := by rw [Nat.pow_succ]
      have ⟨hd, hv⟩ := digit_facts (n % 10) (Nat.mod_lt _ (by decide))
      have hrec := ih (n / 10) (UInt8.ofNat (0x30 + n % 10) :: acc) a hq
      have hl : lenAux (f+1+1) n = lenAux (f+1) (n / 10) + 1 := by
        rw [lenAux, if_neg h10, Nat.add_comm]
      rw [toDecAux, if_neg h10, hrec, parseDigits, hd, if_pos rfl, hv, hl, Nat.pow_succ]
      congr 1
      have := Nat.div_add_mod n 10
      rw [Nat.add_mul, Nat.mul_assoc]
      omega

theorem lt_pow_succ_self (n : Nat) : n < 10^(n+1) := by
  induction n with
  | zero => decide
  | succ k ih => rw [Nat.pow_succ]; omega

theorem toDecAux_ne_nil (fuel n : Nat) (acc : List UInt8) : toDecAux (fuel+1) n acc ≠ [] := by
  induction fuel generalizing n acc with
  | zero => simp [toDecAux]; split <;> simp
  | succ f ih =>
    rw [toDecAux]; split
    · simp
    · exact ih _ _

theorem toDecAux_head_digit (fuel n : Nat) (acc : List UInt8) (hn : n < 10^(fuel+1)) :
    ∃ b t, toDecAux (fuel+1) n acc = b :: t ∧ isDigit b = true := by
  induction fuel generalizing n acc with
  | zero =>
    have h10 : n < 10 := by simpa using hn
    exact ⟨UInt8.ofNat (0x30 + n), acc, by rw [toDecAux, if_pos h10], (digit_facts n h10).1⟩
  | succ f ih =>
    by_cases h10 : n < 10
    · exact ⟨UInt8.ofNat (0x30 + n), acc, by rw [toDecAux, if_pos h10], (digit_facts n h10).1⟩
    · have hq : n / 10 < 10^(f+1) := by
        rw [Nat.div_lt_iff_lt_mul (by decide)]
        calc n < 10^(f+1+1) := hn
          _ = 10^(f+1) * 10 := by rw [Nat.pow_succ]
      rw [toDecAux, if_neg h10]; exact ih _ _ hq

theorem parseU64_toDec (n : Nat) (hn : n < 2^64) : parseU64 (toDec n) = some n := by
  obtain ⟨b, t, hbt, hb⟩ := toDecAux_head_digit n n [] (lt_pow_succ_self n)
  have hval := parseDigits_toDecAux n n [] 0 (lt_pow_succ_self n)
  simp only [parseDigits, Nat.zero_mul, Nat.zero_add] at hval
  have hne : b ≠ 0x2b := by intro e; subst e; revert hb; decide
  have hstrip : stripPlus (b :: t) = b :: t := by
    unfold stripPlus
    split
    · rename_i rest heq; injection heq with h1 _; exact absurd h1 hne
    · rfl
  unfold parseU64 toDec
  rw [hbt, hstrip]
  rw [hbt] at hval
  unfold parseU64Digits
  simp only
  rw [hval]
  simp [hn]

/-- the header written by `set_timeout(x)` is read back as `min x (2^64-1)` nanoseconds -/
theorem C11_roundtrip_header (x : Nat) : parseU64 (durationToHeader x) = some (min x (2^64 - 1)) := by
  unfold durationToHeader
  exact parseU64_toDec _ (by omega)

/-! ### the race and the end-to-end outcome -/
theorem race_lt (dl d : Nat) (h : d < dl) : race (some dl) d = .answered := by
  unfold race; simp only; rw [if_pos (by omega)]
theorem race_gt (dl d : Nat) (h : dl < d) : race (some dl) d = .cutOff := by
  unfold race; simp only; rw [if_neg (by omega)]

theorem C11_race (dl d : Nat) : (d < dl → race (some dl) d = .answered) ∧ (dl < d → race (some dl) d = .cutOff) ∧
    race none d = .answered := ⟨race_lt dl d, race_gt dl d, rfl⟩

/-- `endToEnd` in terms of the two effective deadlines -/
def e2eOf (eOut eIn : Option Nat) (d : Nat) : E2E :=
  match race eIn d, eOut with
  | .answered, none => .answered
  | .answered, some o => if d ≤ o then .answered else .callerTimeout
  | .cutOff, none => .calleeCutOff
  | .cutOff, some o => match eIn with
    | some i => if i ≤ o then .calleeCutOff else .callerTimeout
    | none => .callerTimeout

theorem endToEnd_eq (outD inD : Option Nat) (hdr : Option Bytes) (d : Nat) :
    endToEnd outD inD hdr d = e2eOf (effective outD (headerTimeout hdr)) (effective inD (headerTimeout hdr)) d := rfl

/-- End to end, strict cases.  With `eOut`/`eIn` the two effective deadlines (each = min of the local
default for that direction and the header, or absent):
* a handler needing less than both is answered normally;
* one needing more than the callee's deadline, when that deadline is the strictly smaller one (or the
  caller has none), is cut off by the callee (RequestTimeout reply, handler dropped);
* one needing more than the caller's deadline, when that is the strictly smaller one (or the callee has
  none), ends with a timeout error at the caller. -/
theorem C11_end_to_end (outD inD : Option Nat) (hdr : Option Bytes) (d : Nat) :
    let eOut := effective outD (headerTimeout hdr)
    let eIn := effective inD (headerTimeout hdr)
    ((∀ o, eOut = some o → d < o) → (∀ i, eIn = some i → d < i) → endToEnd outD inD hdr d = .answered) ∧
    (∀ i, eIn = some i → i < d → (∀ o, eOut = some o → i < o) → endToEnd outD inD hdr d = .calleeCutOff) ∧
    (∀ o, eOut = some o → o < d → (∀ i, eIn = some i → o < i) → endToEnd outD inD hdr d = .callerTimeout) := by
  intro eOut eIn
  rw [endToEnd_eq]
  show (_ → _ → e2eOf eOut eIn d = _) ∧ (∀ i, _ → _ → _ → e2eOf eOut eIn d = _) ∧ (∀ o, _ → _ → _ → e2eOf eOut eIn d = _)
  generalize eOut = eo
  generalize eIn = ei
  refine ⟨?_, ?_, ?_⟩
  · intro ho hi
    cases ei with
    | none =>
      cases eo with
      | none => rfl
      | some o =>
        have := ho o rfl
        show (if d ≤ o then E2E.answered else E2E.callerTimeout) = _
        rw [if_pos (by omega)]
    | some i =>
      have h1 := hi i rfl
      unfold e2eOf
      rw [race_lt i d h1]
      cases eo with
      | none => rfl
      | some o => have := ho o rfl; simp only; rw [if_pos (by omega)]
  · intro i hin hid ho
    subst hin
    unfold e2eOf
    rw [race_gt i d hid]
    cases eo with
    | none => rfl
    | some o => have := ho o rfl; simp only; rw [if_pos (by omega)]
  · intro o hout hod hi
    subst hout
    unfold e2eOf
    cases ei with
    | none => show (if d ≤ o then E2E.answered else E2E.callerTimeout) = _; rw [if_neg (by omega)]
    | some i =>
      have := hi i rfl
      by_cases hdi : d ≤ i
      · have hr : race (some i) d = .answered := by unfold race; simp only; rw [if_pos hdi]
        rw [hr]; simp only; rw [if_neg (by omega)]
      · rw [race_gt i d (by omega)]; simp only; rw [if_neg (by omega)]

/-- the configured defaults take effect on every RPC: with no header at all, an RPC whose handler
needs longer than a configured default cannot be answered normally -/
theorem C11_defaults_take_effect (outD inD : Option Nat) (d : Nat)
    (h : (∃ o, outD = some o ∧ o < d) ∨ (∃ i, inD = some i ∧ i < d)) :
    endToEnd outD inD none d ≠ .answered := by
  rw [endToEnd_eq]
  have e1 : ∀ x : Option Nat, effective x (headerTimeout none) = x := by
    intro x; cases x <;> rfl
  rw [e1, e1]
  unfold e2eOf
  rcases h with ⟨o, rfl, ho⟩ | ⟨i, rfl, hi⟩
  · cases inD with
    | none => show (if d ≤ o then E2E.answered else E2E.callerTimeout) ≠ _; rw [if_neg (by omega)]; simp
    | some i =>
      by_cases hdi : d ≤ i
      · have hr : race (some i) d = .answered := by unfold race; simp only; rw [if_pos hdi]
        rw [hr]; simp only; rw [if_neg (by omega)]; simp
      · rw [race_gt i d (by omega)]; simp only; split <;> simp
  · rw [race_gt i d hi]
    cases outD with
    | none => simp
    | some o => simp only; split <;> simp

/-! non-vacuity -/
example : endToEnd (some 500) (some 300) none 400 = .calleeCutOff ∧ endToEnd (some 300) (some 500) none 400 = .callerTimeout ∧
    endToEnd (some 500) (some 300) (some [0x32, 0x30, 0x30]) 250 = .calleeCutOff ∧
    endToEnd none none (some [0x78]) 99999 = .answered := by decide


/-- **The deadline rule the model states is the one in the source** (shapes recognised on this run):
`try_parse_timeout` reads the `timeout` header as u64 nanoseconds (anything else is an error that both
layers turn into "absent"); both layers take the smaller of header and default, or whichever is present;
the deadline races the inner call (the call wins a tie), the serving side answers RequestTimeout, the
calling side fails with "Timeout expired"; every network wraps the user's service in the inbound layer
with `inbound_request_timeout` and every outbound call in the outbound layer with
`outbound_request_timeout`, with or without a user-supplied outbound layer. -/
theorem C11_layers_are_translated : Gen.timeoutShapeChecked = true := rfl

end Anemo

namespace Anemo

/-- **A zero deadline is a deadline**: the header `0` is not "absent" - whatever the local default (none
included), the effective deadline is 0, so a handler that needs any time at all is cut off -/
theorem C11_zero_header_is_zero (default? : Option Nat) :
    effective default? (headerTimeout (some [0x30])) = some 0 ∧
    ∀ d, 0 < d → race (effective default? (headerTimeout (some [0x30]))) d = .cutOff := by
  have h0 : headerTimeout (some [0x30]) = some 0 := by decide
  have he : effective default? (headerTimeout (some [0x30])) = some 0 := by
    rw [h0]; cases default? <;> simp [effective]
  refine ⟨he, ?_⟩
  intro d hd
  rw [he]
  simp [race]; omega

end Anemo
