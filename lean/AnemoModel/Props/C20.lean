/-
C20 — Authorization layer gates every request; the allow-list is exact.
The layer holds no state, so concurrent requests through clones are independent single calls
(`authCall` is a pure function of the request): every interleaving is a product of the cases below.
-/
import AnemoModel.Tower
namespace Anemo
open Gen

/-- the inner service is invoked iff the authorizer accepted, and then exactly once, with the
request the authorizer passed on -/
theorem C20_iff (auth : AReq → Except AResp AReq) (inner : AReq → AResp) (req : AReq) :
    ((authCall auth inner req).2 ≠ [] ↔ ∃ r', auth req = .ok r') ∧
    (∀ r', auth req = .ok r' → (authCall auth inner req).2 = [r'] ∧ (authCall auth inner req).1 = inner r') := by
  unfold authCall
  cases h : auth req with
  | ok r' => simp
  | error e => simp

/-- a refused request gets exactly the authorizer's response and causes no invocation -/
theorem C20_refusal_exact (auth : AReq → Except AResp AReq) (inner : AReq → AResp) (req : AReq) (e : AResp)
    (h : auth req = .error e) : authCall auth inner req = (e, []) := by
  unfold authCall; rw [h]

theorem C20_accept_exact (auth : AReq → Except AResp AReq) (inner : AReq → AResp) (req r' : AReq)
    (h : auth req = .ok r') : authCall auth inner req = (inner r', [r']) := by
  unfold authCall; rw [h]

/-- the allow-list accepts exactly the requests whose authenticated sender is listed; NotFound for
other senders, InternalServerError when no sender identity is attached; the request is passed on unchanged -/
theorem C20_allowlist (list : List Nat) (req : AReq) :
    (allowedPeers list req = .ok req ↔ ∃ p, req.sender = some p ∧ p ∈ list) ∧
    (req.sender = none → allowedPeers list req = .error ⟨500, 0⟩) ∧
    (∀ p, req.sender = some p → p ∉ list → allowedPeers list req = .error ⟨404, 0⟩) ∧
    (∀ r', allowedPeers list req = .ok r' → r' = req) := by
  unfold allowedPeers
  cases hs : req.sender with
  | none => simp [statusInternal, StatusCode.toU16]
  | some p =>
    by_cases hp : p ∈ list
    · simp [hp]
    · simp [hp, statusNotFound, StatusCode.toU16]

/-- end to end for the allow-list: the service is reached iff the sender is present and listed -/
theorem C20_allowlist_gates (list : List Nat) (inner : AReq → AResp) (req : AReq) :
    (authCall (allowedPeers list) inner req).2 = (if (∃ p, req.sender = some p ∧ p ∈ list) then [req] else []) := by
  unfold authCall allowedPeers
  cases hs : req.sender with
  | none => simp
  | some p => by_cases hp : p ∈ list <;> simp [hp]

/-- duplicates and order in the allow-list do not matter (it is a set) -/
theorem C20_allowlist_set (l1 l2 : List Nat) (req : AReq) (h : ∀ p, p ∈ l1 ↔ p ∈ l2) :
    allowedPeers l1 req = allowedPeers l2 req := by
  unfold allowedPeers
  cases req.sender with
  | none => rfl
  | some p => simp [h p]

/-! non-vacuity -/
example : (authCall (allowedPeers [3, 5]) (fun r => ⟨200, r.tag⟩) ⟨some 5, 9⟩) = (⟨200, 9⟩, [⟨some 5, 9⟩]) := by decide
example : (authCall (allowedPeers [3, 5]) (fun r => ⟨200, r.tag⟩) ⟨some 4, 9⟩) = (⟨404, 0⟩, []) := by decide
example : (authCall (allowedPeers [3, 5]) (fun r => ⟨200, r.tag⟩) ⟨none, 9⟩) = (⟨500, 0⟩, []) := by decide


/-- **The authorization layer the model describes is the one in the source** (read off anemo-tower on this
run): `RequireAuthorization::call` runs the authorizer and EITHER calls the inner service OR answers with the
authorizer's own response (kept whole in the refusal future); the allow-list authorizer answers
`InternalServerError` when the request carries no sender identity and `NotFound` for a sender that is not
in the set - the statuses the model uses. -/
theorem C20_layer_is_translated :
    Gen.allowMissingSenderStatus.toU16 = statusInternal ∧ Gen.allowUnlistedSenderStatus.toU16 = statusNotFound ∧
    Gen.towerShapeChecked = true := ⟨rfl, rfl, rfl⟩

/-- **Identities are compared as the model compares them**: `PeerId` is 32 bytes with the DERIVED equality,
hash and order (checked on this run; a hand-written `PartialEq`/`Hash`/`Ord` is reported as a broken
tie), so "the sender is in the list" is membership of a byte string in a set of byte strings. -/
theorem C20_identity_is_pinned : Gen.peerIdShapeChecked = true := rfl

end Anemo
