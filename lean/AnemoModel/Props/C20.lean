/-
C20 — Authorization layer gates every request; the allow-list is exact.
The layer holds no state, so concurrent requests through clones are independent single calls
(`authCall` is a pure function of the request): every interleaving is a product of the cases below.
-/
import AnemoModel.Tower
namespace Anemo
open Gen

/-- the inner service is invoked iff the authorizer accepted, and then exactly once, with the
request the authorizer passed on -/
theorem C20_iff (auth : AReq → Except AResp AReq) (inner : AReq → AResp) (req : AReq) :
    ((authCall auth inner req).2 ≠ [] ↔ ∃ r', auth req = .ok r') ∧
    (∀ r', auth req = .ok r' → (authCall auth inner req).2 = [r'] ∧ (authCall auth inner req).1 = inner r') := by
  unfold authCall
  cases h : auth req with
  | ok r' => simp
  | error e => simp

/-- a refused request gets exactly the authorizer's response and causes no invocation -/
theorem C20_refusal_exact (auth : AReq → Except AResp AReq) (inner : AReq → AResp) (req : AReq) (e : AResp)
    (h : auth req = .error e) : authCall auth inner req = (e, []) := by
  unfold authCall; rw [h]

theorem C20_accept_exact (auth : AReq → Except AResp AReq) (inner : AReq → AResp) (req r' : AReq)
    (h : auth req = .ok r') : authCall auth inner req = (inner r', [r']) := by
  unfold authCall; rw [h]

/-- the allow-list accepts exactly the requests whose authenticated sender is listed; NotFound for
other senders, InternalServerError when no sender identity is attached; the request is passed on unchanged -/
theorem C20_allowlist (list : List Nat) (req : AReq) :
    (allowedPeers list req = .ok req ↔ ∃ p, req.sender = some p ∧ p ∈ list) ∧
    (req.sender = none → allowedPeers list req = .error ⟨500, 0⟩) ∧
    (∀ p, req.sender = some p → p ∉ list → allowedPeers list req = .error ⟨404, 0⟩) ∧
    (∀ r', allowedPeers list req = .ok r' → r' = req) := by
  unfold allowedPeers
  cases hs : req.sender with
  | none => simp [statusInternal, StatusCode.toU16]
  | some p =>
    by_cases hp : p ∈ list
    · simp [hp]
    · simp [hp, statusNotFound, StatusCode.toU16]

/-- end to end for the allow-list: the service is reached iff the sender is present and listed -/
theorem C20_allowlist_gates (list : List Nat) (inner : AReq → AResp) (req : AReq) :
    (authCall (allowedPeers list) inner req).2 = (if (∃ p, req.sender = some p ∧ p ∈ list) then [req] else []) := by
  unfold authCall allowedPeers
  cases hs : req.sender with
  | none => simp
  | some p => by_cases hp : p ∈ list <;> simp [hp]

/-- duplicates and order in the allow-list do not matter (it is a set) -/
theorem C20_allowlist_set (l1 l2 : List Nat) (req : AReq) (h : ∀ p, p ∈ l1 ↔ p ∈ l2) :
    allowedPeers l1 req = allowedPeers l2 req := by
  unfold allowedPeers
  cases req.sender with
  | none => rfl
  | some p => simp [h p]

/-- **Every history, any inner service.** In whatever order concurrent requests reach the layered
service (a history IS one interleaving), the inner service sees exactly the accepted requests, in
order, each once; its final state is the one it reaches on those alone (a refused request leaves no
trace in it); one response per request. -/
theorem C20_history {S : Type} (auth : AReq → Except AResp AReq) (step : S → AReq → S × AResp)
    (s : S) (rs : List AReq) :
    (authRun auth step s rs).2.2 = accepted auth rs ∧
    (authRun auth step s rs).1 = (accepted auth rs).foldl (fun st r => (step st r).1) s ∧
    (authRun auth step s rs).2.1.length = rs.length := by
  induction rs generalizing s with
  | nil => simp [authRun, accepted]
  | cons r rs ih =>
    unfold authRun accepted
    cases h : auth r with
    | ok r' =>
      have := ih (step s r').1
      simp only [List.foldl_cons, List.length_cons]
      refine ⟨by simp [this.1], this.2.1, by simp [this.2.2]⟩
    | error e =>
      have := ih s
      simp only [List.length_cons]
      refine ⟨this.1, this.2.1, by simp [this.2.2]⟩

/-- refused requests can be removed from (or inserted into) a history without the service noticing -/
theorem C20_refused_invisible {S : Type} (auth : AReq → Except AResp AReq) (step : S → AReq → S × AResp)
    (s : S) (pre post : List AReq) (r : AReq) (e : AResp) (h : auth r = .error e) :
    (authRun auth step s (pre ++ r :: post)).1 = (authRun auth step s (pre ++ post)).1 ∧
    (authRun auth step s (pre ++ r :: post)).2.2 = (authRun auth step s (pre ++ post)).2.2 := by
  have acc : accepted auth (pre ++ r :: post) = accepted auth (pre ++ post) := by
    induction pre with
    | nil => simp [accepted, h]
    | cons a pre ih => simp only [List.cons_append, accepted]; cases auth a <;> simp [ih]
  rw [(C20_history auth step s _).2.1, (C20_history auth step s _).2.1,
      (C20_history auth step s _).1, (C20_history auth step s _).1, acc]
  exact ⟨rfl, rfl⟩

/-- for the allow-list: the requests that reach the service over a whole history are exactly those
with a listed sender, unchanged -/
theorem C20_allowlist_history (list : List Nat) (rs : List AReq) :
    accepted (allowedPeers list) rs = rs.filter (fun r => match r.sender with | some p => decide (p ∈ list) | none => false) := by
  induction rs with
  | nil => rfl
  | cons r rs ih =>
    unfold accepted
    cases hs : r.sender with
    | none =>
      have hv : allowedPeers list r = .error ⟨statusInternal, 0⟩ := by simp [allowedPeers, hs]
      rw [hv]; simp [List.filter, hs, ih]
    | some p =>
      by_cases hp : p ∈ list
      · have hv : allowedPeers list r = .ok r := by simp [allowedPeers, hs, hp]
        rw [hv]; simp [List.filter, hs, hp, ih]
      · have hv : allowedPeers list r = .error ⟨statusNotFound, 0⟩ := by simp [allowedPeers, hs, hp]
        rw [hv]; simp [List.filter, hs, hp, ih]

/-- two stacked authorization layers: the service is reached iff BOTH accept (outer first), and a
refusal comes from the first that refuses -/
theorem C20_stacked (a1 a2 : AReq → Except AResp AReq) (inner : AReq → AResp) (req : AReq) :
    let r := authCall a1 (fun q => (authCall a2 inner q).1) req
    (∀ e, a1 req = .error e → r = (e, [])) ∧
    (∀ q e, a1 req = .ok q → a2 q = .error e → r.1 = e) ∧
    (∀ q q', a1 req = .ok q → a2 q = .ok q' → r.1 = inner q') := by
  refine ⟨?_, ?_, ?_⟩
  · intro e h; simp [authCall, h]
  · intro q e h1 h2; simp [authCall, h1, h2]
  · intro q q' h1 h2; simp [authCall, h1, h2]

example : (authRun (allowedPeers [3]) (fun (s : Nat) r => (s + r.tag, ⟨200, s⟩)) 0
    [⟨some 3, 1⟩, ⟨some 4, 10⟩, ⟨none, 100⟩, ⟨some 3, 1000⟩]) =
    (1001, [⟨200, 0⟩, ⟨404, 0⟩, ⟨500, 0⟩, ⟨200, 1⟩], [⟨some 3, 1⟩, ⟨some 3, 1000⟩]) := by decide

/-! non-vacuity -/
example : (authCall (allowedPeers [3, 5]) (fun r => ⟨200, r.tag⟩) ⟨some 5, 9⟩) = (⟨200, 9⟩, [⟨some 5, 9⟩]) := by decide
example : (authCall (allowedPeers [3, 5]) (fun r => ⟨200, r.tag⟩) ⟨some 4, 9⟩) = (⟨404, 0⟩, []) := by decide
example : (authCall (allowedPeers [3, 5]) (fun r => ⟨200, r.tag⟩) ⟨none, 9⟩) = (⟨500, 0⟩, []) := by decide


/-- **The authorization layer the model describes is the one in the source** (read off anemo-tower on this
run): `RequireAuthorization::call` runs the authorizer and EITHER calls the inner service OR answers with the
authorizer's own response (kept whole in the refusal future); the allow-list authorizer answers
`InternalServerError` when the request carries no sender identity and `NotFound` for a sender that is not
in the set - the statuses the model uses. -/
theorem C20_layer_is_translated :
    Gen.allowMissingSenderStatus.toU16 = statusInternal ∧ Gen.allowUnlistedSenderStatus.toU16 = statusNotFound ∧
    Gen.towerShapeChecked = true := ⟨rfl, rfl, rfl⟩

/-- **Identities are compared as the model compares them**: `PeerId` is 32 bytes with the DERIVED equality,
hash and order (checked on this run; a hand-written `PartialEq`/`Hash`/`Ord` is reported as a broken
tie), so "the sender is in the list" is membership of a byte string in a set of byte strings. -/
theorem C20_identity_is_pinned : Gen.peerIdShapeChecked = true := rfl

end Anemo
