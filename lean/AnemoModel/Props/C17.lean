/-
C17 — Generated typed clients reach the matching typed handlers.
Route formulas are the ones regenerated from anemo-build on every run (`Gen.clientPathGen`,
`Gen.serverPathGen`, `Gen.serviceNameGen`, `Gen.rpcRoutePatternGen`).  Domain guards, explicit:
service names free of '*' and ':' for the router-prefix theorem (identifier-shaped names);
the status theorems are about a Status whose header keys are distinct (it is a HashMap) and an
ERROR status -- a handler that returns `Err(Status)` carrying a *success* code is outside the
claim (the client then reads the empty body as a reply; recorded in the evidence).
-/
import AnemoModel.Codegen
import AnemoModel.Lemmas.Wire
namespace Anemo
open Gen

/-- client and server agree on every method's route, for every package (empty or dotted), service
and method name -/
theorem C17_paths_agree (pkg svc m : Bytes) : clientPathGen pkg svc m = serverPathGen pkg svc m := rfl

/-- the route is "/" ++ service name ++ "/" ++ method -/
theorem C17_path_shape (pkg svc m : Bytes) :
    clientPathGen pkg svc m = [slash] ++ serviceNameGen pkg svc ++ [slash] ++ m := by
  simp [clientPathGen, serviceNameGen, slash, List.append_assoc]

theorem splitStar_append (a b : Bytes) (ha : ∀ c ∈ a, c ≠ 0x2a) : splitStar (a ++ 0x2a :: b) = some (a, b) := by
  induction a with
  | nil => simp [splitStar]
  | cons x xs ih =>
    have hx : x ≠ 0x2a := ha x (by simp)
    simp only [List.cons_append, splitStar, hx, if_false]
    rw [ih (fun c hc => ha c (by simp [hc]))]

theorem contains_false_of_forall (l : Bytes) (x : UInt8) (h : ∀ c ∈ l, c ≠ x) : l.contains x = false := by
  cases hc : l.contains x with
  | false => rfl
  | true => exact absurd rfl (h x (List.contains_iff_mem.mp hc))

/-- what `add_rpc_service` registers is the catch-all under "/<service name>/" -/
theorem C17_registered_prefix (name : Bytes) (hn : ∀ c ∈ name, c ≠ 0x2a ∧ c ≠ 0x3a) :
    parsePattern (rpcRoutePatternGen name) = some (.catchAll ([slash] ++ name ++ [slash])) := by
  have hsplit : splitStar (rpcRoutePatternGen name) = some ([slash] ++ name ++ [slash], [0x72, 0x65, 0x73, 0x74]) := by
    have : rpcRoutePatternGen name = ([slash] ++ name ++ [slash]) ++ 0x2a :: [0x72, 0x65, 0x73, 0x74] := by
      simp [rpcRoutePatternGen, slash]
    rw [this]
    apply splitStar_append
    intro c hc
    simp at hc
    rcases hc with rfl | hc | rfl
    · decide
    · exact (hn c hc).1
    · decide
  have hcolon : ([slash] ++ name ++ [slash]).contains 0x3a = false := by
    apply contains_false_of_forall
    intro c hc
    simp at hc
    rcases hc with rfl | hc | rfl
    · decide
    · exact (hn c hc).2
    · decide
  have hlast : ([slash] ++ name ++ [slash]).getLast? = some slash := List.getLast?_concat
  have hhead : rpcRoutePatternGen name = slash :: (name ++ [0x2f, 0x2a, 0x72, 0x65, 0x73, 0x74]) := by
    simp [rpcRoutePatternGen, slash]
  unfold parsePattern
  rw [hhead]
  simp only [bne_self_eq_false, Bool.false_eq_true, if_false]
  rw [← hhead, hsplit]
  simp only [hlast, hcolon]
  rfl

/-- the route of every typed call lies under the prefix the router registers for the service, so the
router hands it to that service -/
theorem C17_under_prefix (pkg svc m : Bytes) :
    (Pattern.catchAll ([slash] ++ serviceNameGen pkg svc ++ [slash])).matches (clientPathGen pkg svc m) = true := by
  rw [C17_path_shape]
  simp [Pattern.matches]

/-- ... and inside the service it reaches exactly the arm of the same method name: distinct method
names have distinct routes -/
theorem C17_own_arm_only (pkg svc m1 m2 : Bytes) (h : clientPathGen pkg svc m1 = serverPathGen pkg svc m2) : m1 = m2 := by
  rw [← C17_paths_agree, C17_path_shape, C17_path_shape] at h
  exact List.append_cancel_left h

/-! ### error statuses travel intact -/

theorem extendHeaders_eq_norm (hs : Headers) : extendHeaders [] hs = normHeaders hs := rfl

theorem hLookup_none_of_not_mem (h : Headers) (k : Bytes) (hk : k ∉ h.map (·.1)) : hLookup h k = none := by
  induction h with
  | nil => rfl
  | cons e t ih =>
    obtain ⟨k', v'⟩ := e
    simp only [List.map_cons, List.mem_cons, not_or] at hk
    have : k' ≠ k := fun e => hk.1 e.symm
    simp [hLookup, this, ih hk.2]

theorem hLookup_of_mem_nodup (h : Headers) (k v : Bytes) (hnd : (h.map (·.1)).Nodup) (hm : (k, v) ∈ h) :
    hLookup h k = some v := by
  induction h with
  | nil => simp at hm
  | cons e t ih =>
    obtain ⟨k', v'⟩ := e
    simp only [List.map_cons, List.nodup_cons] at hnd
    rcases List.mem_cons.mp hm with heq | hin
    · injection heq with h1 h2; subst h1 h2; simp [hLookup]
    · have : k' ≠ k := fun e => hnd.1 (e ▸ List.mem_map.mpr ⟨(k, v), hin, rfl⟩)
      simp [hLookup, this, ih hnd.2 hin]

/-- The response built from an error status carries the code, and -- for header keys that are distinct
and none of which is `status-message` -- `from_response` gives back: the code, the message when one
was set, every original header with its value, and nothing else except `status-message`. -/
theorem C17_status_roundtrip (s : Status) (hnd : (s.headers.map (·.1)).Nodup)
    (hres : headerStatusMessage ∉ s.headers.map (·.1)) :
    let r := Status.fromResponse s.intoResponse
    r.code = s.code ∧
    (∀ m, s.message = some m → r.message = some m) ∧
    (s.message = none → r.message = none) ∧
    (∀ k v, (k, v) ∈ s.headers → hLookup r.headers k = some v) ∧
    (∀ k, k ≠ headerStatusMessage → k ∉ s.headers.map (·.1) → hLookup r.headers k = none) := by
  have hnorm : extendHeaders [] s.headers = s.headers := by
    rw [extendHeaders_eq_norm]; exact normHeaders_nodup _ hnd
  have hnone : ∀ k, k ∉ s.headers.map (·.1) → hLookup s.headers k = none :=
    fun k hk => hLookup_none_of_not_mem s.headers k hk
  intro r
  have hr : r = Status.fromResponse s.intoResponse := rfl
  simp only [Status.fromResponse, Status.intoResponse, hnorm] at hr
  rw [hr]
  cases hm : s.message with
  | none =>
    refine ⟨rfl, fun m h => (by cases h), fun _ => hnone _ hres, ?_, ?_⟩
    · intro k v hkv; exact hLookup_of_mem_nodup _ k v hnd hkv
    · intro k _ hk; exact hnone k hk
  | some m =>
    refine ⟨rfl, ?_, fun h => (by cases h), ?_, ?_⟩
    · intro m' h; injection h with h; subst h
      simp [hLookup_hInsert]
    · intro k v hkv
      have hk : headerStatusMessage ≠ k := fun e => hres (e ▸ List.mem_map.mpr ⟨(k, v), hkv, rfl⟩)
      rw [hLookup_hInsert, if_neg hk]
      exact hLookup_of_mem_nodup _ k v hnd hkv
    · intro k hk1 hk2
      rw [hLookup_hInsert, if_neg (fun e => hk1 e.symm)]
      exact hnone k hk2

/-! ### outcomes of a typed call -/

/-- the client reports success only for a success status whose body decodes, and then returns exactly
the decoded message; it has no other way to `ok` (no wrong-typed success) -/
theorem C17_client_ok_iff {α : Type} (dec : Bytes → Option α) (r : Resp) (m : α) :
    clientUnary dec r = .ok m ↔ r.status.isSuccess = true ∧ dec r.body = some m := by
  unfold clientUnary
  by_cases hs : r.status.isSuccess = true
  · rw [if_pos hs]
    cases hd : dec r.body with
    | none => simp [hs]
    | some m' => simp [hs]
  · rw [if_neg hs]; simp [hs]

/-- a non-success status surfaces as that status (code, message, headers as received) -/
theorem C17_client_error_status {α : Type} (dec : Bytes → Option α) (r : Resp) (hs : r.status.isSuccess = false) :
    clientUnary dec r = .err (Status.fromResponse r) := by
  unfold clientUnary; rw [if_neg (by simp [hs])]

/-- an undecodable reply surfaces as an Unknown error status -/
theorem C17_client_undecodable {α : Type} (dec : Bytes → Option α) (r : Resp)
    (hs : r.status.isSuccess = true) (hd : dec r.body = none) :
    ∃ s, clientUnary dec r = .err s ∧ s.code = .Unknown := by
  unfold clientUnary; rw [if_pos hs, hd]; exact ⟨_, rfl, rfl⟩

/-- an undecodable request is answered with an error status and the handler is not called -/
theorem C17_server_undecodable {α β : Type} (dec : Bytes → Option α) (enc : β → Option Bytes)
    (handler : α → Except Status (Headers × β)) (ct body : Bytes) (hd : dec body = none) :
    (serverUnary dec enc handler ct body).2 = 0 ∧ (serverUnary dec enc handler ct body).1.status = .Unknown ∧
    (serverUnary dec enc handler ct body).1.status.isSuccess = false := by
  unfold serverUnary; rw [hd]; exact ⟨rfl, rfl, rfl⟩

/-- a decodable request reaches the handler exactly once, with the decoded message -/
theorem C17_server_invokes_once {α β : Type} (dec : Bytes → Option α) (enc : β → Option Bytes)
    (handler : α → Except Status (Headers × β)) (ct body : Bytes) (m : α) (hd : dec body = some m) :
    (serverUnary dec enc handler ct body).2 = 1 := by
  unfold serverUnary; rw [hd]; simp only
  cases handler m with
  | error s => rfl
  | ok p => obtain ⟨h, out⟩ := p; simp only; cases enc out <;> rfl

/-- end to end: with codecs that invert each other a typed call returns exactly the handler's reply,
and a handler error with a non-success code comes back as that status -/
theorem C17_typed_call {α β : Type} (decReq : Bytes → Option α) (encResp : β → Option Bytes) (decResp : Bytes → Option β)
    (handler : α → Except Status (Headers × β)) (ct body : Bytes) (m : α) (hd : decReq body = some m) :
    (∀ h out bytes, handler m = .ok (h, out) → encResp out = some bytes → decResp bytes = some out →
        clientUnary decResp (serverUnary decReq encResp handler ct body).1 = .ok out) ∧
    (∀ s, handler m = .error s → s.code.isSuccess = false →
        clientUnary decResp (serverUnary decReq encResp handler ct body).1 = .err (Status.fromResponse s.intoResponse)) := by
  constructor
  · intro h out bytes hh he hdd
    unfold serverUnary; rw [hd]; simp only; rw [hh]; simp only; rw [he]; simp only
    exact (C17_client_ok_iff decResp _ out).mpr ⟨rfl, hdd⟩
  · intro s hh hs
    unfold serverUnary; rw [hd]; simp only; rw [hh]; simp only
    apply C17_client_error_status
    simpa [Status.intoResponse] using hs

/-! non-vacuity -/
example : clientPathGen [0x61, 0x2e, 0x62] [0x47] [0x4d] = [0x2f, 0x61, 0x2e, 0x62, 0x2e, 0x47, 0x2f, 0x4d] ∧
    clientPathGen [] [0x47] [0x4d] = [0x2f, 0x47, 0x2f, 0x4d] ∧ serviceNameGen [] [0x47] = [0x47] := by decide
example : parsePattern (rpcRoutePatternGen [0x47]) = some (.catchAll [0x2f, 0x47, 0x2f]) := by decide


/-- **A typed call goes to its method's route whatever route the request carried**: a `Request` that was
forwarded from elsewhere, built for another method, or has an empty route is re-routed; nothing else of
it is touched. -/
theorem C17_route_set_unconditionally (pkg svc m : Bytes) (r r' : Req) :
    (clientStamp pkg svc m r).route = (clientStamp pkg svc m r').route ∧
    (clientStamp pkg svc m r).route = serverPathGen pkg svc m ∧
    (clientStamp pkg svc m r).headers = r.headers ∧ (clientStamp pkg svc m r).body = r.body := ⟨rfl, rfl, rfl, rfl⟩

/-- **The typed-call plumbing the model describes is the one in the source** (shapes recognised on this
run): an error status becomes a response carrying its code, ALL its headers and (if any) its message
under `status-message`, and is rebuilt from exactly those on the client; the client encodes, calls, turns
every non-success status into that error, and decodes a success body with the method's codec (a body the
codec rejects is an error, never a success); the server decodes (a rejected body is answered with an
error status without calling the handler), calls the handler once, and encodes its answer; the JSON
codec is `serde_json::from_slice` (rejects trailing input), the bincode codec `bincode::deserialize`. -/
theorem C17_rpc_plumbing_is_translated : Gen.rpcShapeChecked = true := rfl

end Anemo
