/-
C13 — Background dialing: who is dialed, how often, and that it succeeds.
Theorems about one connectivity check (`tick`) for every known-peer table (in any iteration order),
every configuration and every state, and about the backoff arithmetic over any number of failures.
Time-level consequences (connected within one interval, within min(max, k*step) + two intervals)
follow from these plus the tick period; the tick period, connect times and the loss detection that
makes a peer "not connected" again are runtime behaviour tied by the virtual-time conformance run.
-/
import AnemoModel.Manager
namespace Anemo
open Gen

/-! ### who is dialed -/

/-- every dial started by a check goes to a known peer that is High, not ourselves, has an address,
is not connected, has no background dial in flight and is past its backoff -/
theorem C13_only_eligible (cfg : TickCfg) (now : Nat) (known : List KnownPeer) (connected : List Nat)
    (pc : Nat) (done : List (Nat × Bool)) (st : TickState) (p i : Nat)
    (h : (p, i) ∈ (tick cfg now known connected pc done st).2) :
    ∃ k ∈ known, k.id = p ∧ k.aff = .high ∧ p ≠ cfg.own ∧ 0 < k.naddr ∧ p ∉ connected ∧
      p ∉ (drain cfg now st done).pending ∧
      (∀ b, lookupBackoff (drain cfg now st done).backoffs p = some b → b.until_ < now) ∧
      i = addrIndex (drain cfg now st done) k ∧ i < k.naddr := by
  simp only [tick, List.mem_map] at h
  obtain ⟨k, hk, heq⟩ := h
  injection heq with h1 h2
  have hmem := List.mem_of_mem_take hk
  have ⟨hkn, hel⟩ := List.mem_filter.mp hmem
  simp only [eligible, Bool.and_eq_true, beq_iff_eq, bne_iff_ne, ne_eq, decide_eq_true_eq,
    Bool.not_eq_true', decide_eq_false_iff_not] at hel
  obtain ⟨⟨⟨⟨⟨ha, hown⟩, hna⟩, hconn⟩, hpend⟩, hb⟩ := hel
  refine ⟨k, hkn, h1, ha, h1 ▸ hown, hna, h1 ▸ hconn, h1 ▸ hpend, ?_, h2.symm, ?_⟩
  · intro b hbo
    rw [← h1] at hbo
    rw [hbo] at hb
    simpa using hb
  · rw [← h2]; unfold addrIndex; exact Nat.mod_lt _ hna

theorem unique_by_id (known : List KnownPeer) (hnd : (known.map (·.id)).Nodup) (a b : KnownPeer)
    (ha : a ∈ known) (hb : b ∈ known) (hid : a.id = b.id) : a = b := by
  induction known with
  | nil => simp at ha
  | cons x t ih =>
    simp only [List.map_cons, List.nodup_cons] at hnd
    rcases List.mem_cons.mp ha with rfl | ha2 <;> rcases List.mem_cons.mp hb with rfl | hb2
    · rfl
    · exact absurd (List.mem_map.mpr ⟨b, hb2, hid.symm⟩) hnd.1
    · exact absurd (List.mem_map.mpr ⟨a, ha2, hid⟩) hnd.1
    · exact ih hnd.2 ha2 hb2

/-- never itself, never Allowed/Never peers, never peers without addresses, never connected ones -/
theorem C13_never_dials (cfg : TickCfg) (now : Nat) (known : List KnownPeer) (connected : List Nat)
    (pc : Nat) (done : List (Nat × Bool)) (st : TickState) (hnd : (known.map (·.id)).Nodup) (k : KnownPeer) (hk : k ∈ known)
    (hbad : k.aff ≠ .high ∨ k.id = cfg.own ∨ k.naddr = 0 ∨ k.id ∈ connected ∨ k.id ∈ (drain cfg now st done).pending) :
    ∀ i, (k.id, i) ∉ (tick cfg now known connected pc done st).2 := by
  intro i hmem
  obtain ⟨k', hk', hid, ha, hown, hna, hconn, hpend, _, _, _⟩ := C13_only_eligible cfg now known connected pc done st k.id i hmem
  have hkk : k' = k := unique_by_id known hnd k' k hk' hk hid
  subst hkk
  rcases hbad with h | h | h | h | h
  · exact h ha
  · exact hown h
  · omega
  · exact hconn h
  · exact hpend h

/-- no background dial is started while the number of connections being established is at the
configured maximum, and never more than the room left -/
theorem C13_cap (cfg : TickCfg) (now : Nat) (known : List KnownPeer) (connected : List Nat)
    (pc : Nat) (done : List (Nat × Bool)) (st : TickState) :
    (tick cfg now known connected pc done st).2.length ≤ cfg.cap - pc ∧
    (cfg.cap ≤ pc → (tick cfg now known connected pc done st).2 = []) := by
  simp only [tick, List.length_map, List.length_take]
  constructor
  · omega
  · intro h
    have : cfg.cap - pc = 0 := by omega
    simp [this]

/-- liveness of one check: if the room left covers all eligible peers, every eligible peer is dialed now -/
theorem C13_dialed_when_eligible (cfg : TickCfg) (now : Nat) (known : List KnownPeer) (connected : List Nat)
    (pc : Nat) (done : List (Nat × Bool)) (st : TickState) (k : KnownPeer) (hk : k ∈ known)
    (hel : eligible cfg now connected (drain cfg now st done) k = true)
    (hroom : (known.filter (eligible cfg now connected (drain cfg now st done))).length ≤ cfg.cap - pc) :
    (k.id, addrIndex (drain cfg now st done) k) ∈ (tick cfg now known connected pc done st).2 := by
  simp only [tick, List.mem_map]
  refine ⟨k, ?_, rfl⟩
  rw [Nat.min_eq_left hroom, List.take_length]
  exact List.mem_filter.mpr ⟨hk, hel⟩

/-- a dialed peer is marked as being dialed, so it is not dialed again while that dial is in flight -/
theorem C13_marks_pending (cfg : TickCfg) (now : Nat) (known : List KnownPeer) (connected : List Nat)
    (pc : Nat) (done : List (Nat × Bool)) (st : TickState) (p i : Nat)
    (h : (p, i) ∈ (tick cfg now known connected pc done st).2) :
    p ∈ (tick cfg now known connected pc done st).1.pending := by
  simp only [tick, List.mem_map] at h ⊢
  obtain ⟨k, hk, heq⟩ := h
  injection heq with h1 _
  exact List.mem_append_right _ (List.mem_map.mpr ⟨k, hk, h1⟩)

/-! ### backoff arithmetic -/

/-- `k` consecutive noticed failures, the last one noticed at `now` -/
def failK (step max : Nat) : Nat → Nat → Option Backoff → Backoff
  | 0, now, prev => Backoff.update now step max prev
  | k+1, now, prev => failK step max k now (some (Backoff.update now step max prev))

theorem update_attempts (now step max : Nat) (prev : Option Backoff) :
    (Backoff.update now step max prev).attempts = (match prev with | some b => b.attempts | none => 0) + 1 := rfl

/-- after k consecutive failures (k ≥ 1) the next attempt comes no sooner than min(max, k*step)
after the failure was noticed; and exactly then the peer becomes eligible again (strictly after) -/
theorem C13_backoff_value (now step max k : Nat) (hk : 1 ≤ k) (hsmall : k < 2^32) :
    let b := (List.range k).foldl (fun (acc : Option Backoff) _ => some (Backoff.update now step max acc)) none
    ∃ bb, b = some bb ∧ bb.attempts = k ∧ bb.until_ = now + min max (step * k) := by
  intro b
  have key : ∀ n, n < 2^32 →
      (List.range n).foldl (fun (acc : Option Backoff) _ => some (Backoff.update now step max acc)) none =
        (if n = 0 then none else some { until_ := now + min max (step * n), attempts := n }) := by
    intro n
    induction n with
    | zero => intro _; rfl
    | succ m ih =>
      intro hm
      rw [List.range_succ, List.foldl_append, ih (by omega)]
      simp only [List.foldl_cons, List.foldl_nil]
      by_cases h0 : m = 0
      · subst h0; simp [Backoff.update]
      · simp only [h0, if_false, Backoff.update]
        have : min (m + 1) (2^32 - 1) = m + 1 := by omega
        simp [this]
  have := key k hsmall
  rw [if_neg (by omega)] at this
  exact ⟨_, this, rfl, rfl⟩

/-- spacing: a peer whose backoff says `until_` is not dialed at any check at or before that time -/
theorem C13_spacing (cfg : TickCfg) (now : Nat) (connected : List Nat) (st : TickState) (k : KnownPeer) (b : Backoff)
    (hb : lookupBackoff st.backoffs k.id = some b) (hnow : now ≤ b.until_) :
    eligible cfg now connected st k = false := by
  simp only [eligible, hb]
  have : decide (b.until_ < now) = false := by simp; omega
  simp [this]

/-- attempts rotate through the peer's addresses in order: the address used is (number of
consecutive failures so far) mod (number of addresses) -/
theorem C13_rotation (st : TickState) (k : KnownPeer) :
    addrIndex st k = (match lookupBackoff st.backoffs k.id with | some b => b.attempts | none => 0) % k.naddr := rfl

theorem lookup_setBackoff (l : List (Nat × Backoff)) (p : Nat) (b : Backoff) :
    lookupBackoff (setBackoff l p b) p = some b := by simp [setBackoff, lookupBackoff]

theorem lookup_none_of_forall (l : List (Nat × Backoff)) (p : Nat) (h : ∀ e ∈ l, e.1 ≠ p) : lookupBackoff l p = none := by
  induction l with
  | nil => rfl
  | cons e t ih =>
    obtain ⟨q, b⟩ := e
    have hq : q ≠ p := h (q, b) (by simp)
    simp only [lookupBackoff, hq, if_false]
    exact ih (fun e he => h e (by simp [he]))

theorem lookup_filter_ne (l : List (Nat × Backoff)) (p : Nat) : lookupBackoff (l.filter (·.1 ≠ p)) p = none :=
  lookup_none_of_forall _ p (fun e he => by simpa using (List.mem_filter.mp he).2)

/-- a noticed failure of a pending dial advances the attempt counter by one (so the next attempt uses
the next address) and sets the backoff from the moment it was noticed -/
theorem C13_failure_noticed (cfg : TickCfg) (now : Nat) (st : TickState) (p : Nat) (hp : p ∈ st.pending) :
    lookupBackoff (drain cfg now st [(p, false)]).backoffs p =
      some (Backoff.update now cfg.step cfg.max (lookupBackoff st.backoffs p)) ∧
    p ∉ (drain cfg now st [(p, false)]).pending := by
  simp only [drain, hp, if_true]
  refine ⟨by simp [lookup_setBackoff], ?_⟩
  simp [List.mem_filter]

/-- a noticed success clears the backoff: the next loss is retried without delay from the first address -/
theorem C13_reset_on_success (cfg : TickCfg) (now : Nat) (st : TickState) (p : Nat) (hp : p ∈ st.pending) :
    lookupBackoff (drain cfg now st [(p, true)]).backoffs p = none ∧ p ∉ (drain cfg now st [(p, true)]).pending := by
  simp only [drain, hp, if_true]
  exact ⟨lookup_filter_ne _ _, by simp [List.mem_filter]⟩

/-! non-vacuity -/
example :
    let cfg : TickCfg := { own := 1, cap := 2, step := 10000, max := 60000 }
    let known := [⟨1, .high, 1⟩, ⟨2, .high, 2⟩, ⟨3, .allowed, 1⟩, ⟨4, .high, 0⟩, ⟨5, .high, 1⟩, ⟨6, .high, 3⟩]
    let r1 := tick cfg 5000 known [5] 0 [] {}
    let r2 := tick cfg 10000 known [5, 6] 0 [(2, false), (6, true)] r1.1
    let r3 := tick cfg 25000 known [5, 6] 0 [] r2.1
    r1.2 = [(2, 0), (6, 0)] ∧ r2.2 = [] ∧ r3.2 = [(2, 1)] := by decide


/-- a schedule of connectivity checks after the one at `t0`: strictly later each time, never more than
`G` (= interval + jitter) apart -/
def ticksOk (G : Nat) : Nat → List Nat → Prop
  | _, [] => True
  | t0, t :: ts => t0 < t ∧ t ≤ t0 + G ∧ ticksOk G t ts

/-- in such a schedule that runs past `d`, the first check strictly after `d` comes no later than `d + G` -/
theorem first_tick_after (G : Nat) (ts : List Nat) (t0 d : Nat) (h : ticksOk G t0 ts) (h0 : t0 ≤ d)
    (hpast : ∃ t ∈ ts, d < t) :
    ∃ pre t post, ts = pre ++ t :: post ∧ (∀ x ∈ pre, x ≤ d) ∧ d < t ∧ t ≤ d + G := by
  induction ts generalizing t0 with
  | nil => obtain ⟨t, ht, _⟩ := hpast; cases ht
  | cons t ts ih =>
    obtain ⟨h1, h2, h3⟩ := h
    by_cases hd : d < t
    · exact ⟨[], t, ts, rfl, by simp, hd, by omega⟩
    · have hpast' : ∃ x ∈ ts, d < x := by
        obtain ⟨x, hx, hdx⟩ := hpast
        rcases List.mem_cons.mp hx with rfl | hx
        · exact absurd hdx hd
        · exact ⟨x, hx, hdx⟩
      obtain ⟨pre, u, post, he, hp, hu1, hu2⟩ := ih t h3 (by omega) hpast'
      refine ⟨t :: pre, u, post, by simp [he], ?_, hu1, hu2⟩
      intro x hx
      rcases List.mem_cons.mp hx with rfl | hx
      · omega
      · exact hp x hx

/-- **Redial window.**  A High-affinity peer with an address, not this node, whose k-th consecutive
failure was noticed at the check at `t0` (so its entry says "not before `d = t0 + min(max, k*step)`"):
in any schedule of later checks at most `G` apart that runs past `d`, no check at or before `d` finds
it eligible (spacing), and the FIRST check after `d` -- which comes no later than `d + G` -- does,
provided it is then neither connected nor being dialled. -/
theorem C13_redial_window (cfg : TickCfg) (G : Nat) (ts : List Nat) (t0 : Nat) (k : KnownPeer) (b : Backoff)
    (h : ticksOk G t0 ts) (h0 : t0 ≤ b.until_) (hpast : ∃ t ∈ ts, b.until_ < t)
    (hhigh : k.aff = .high) (hself : k.id ≠ cfg.own) (haddr : 0 < k.naddr) :
    ∃ pre t post, ts = pre ++ t :: post ∧ t ≤ b.until_ + G ∧
      (∀ x ∈ pre, ∀ connected st, lookupBackoff st.backoffs k.id = some b → eligible cfg x connected st k = false) ∧
      (∀ connected st, lookupBackoff st.backoffs k.id = some b → k.id ∉ connected → k.id ∉ st.pending →
        eligible cfg t connected st k = true) := by
  obtain ⟨pre, t, post, he, hp, ht1, ht2⟩ := first_tick_after G ts t0 b.until_ h h0 hpast
  refine ⟨pre, t, post, he, ht2, ?_, ?_⟩
  · intro x hx connected st hb
    exact C13_spacing cfg x connected st k b hb (hp x hx)
  · intro connected st hb hc hpd
    simp [eligible, hb, hhigh, hself, haddr, hc, hpd, ht1]

example : ticksOk 6 10 [15, 21, 26] ∧ ∃ t ∈ [15, 21, 26], 20 < t := by
  refine ⟨by simp [ticksOk], 21, by simp, by omega⟩

/-! ### histories of checks -/

/-- what one connectivity check sees -/
structure TickIn where
  now : Nat
  known : List KnownPeer
  connected : List Nat
  pendingConns : Nat
  done : List (Nat × Bool)

/-- the dialer over a whole history of checks; returns the final state and the dials of every check -/
def runTicks (cfg : TickCfg) : TickState → List TickIn → TickState × List (List (Nat × Nat))
  | st, [] => (st, [])
  | st, i :: rest =>
    let r := tick cfg i.now i.known i.connected i.pendingConns i.done st
    let r2 := runTicks cfg r.1 rest
    (r2.1, r.2 :: r2.2)

theorem drain_pending_sub (cfg : TickCfg) (now : Nat) (done : List (Nat × Bool)) (st : TickState) :
    ∀ p ∈ (drain cfg now st done).pending, p ∈ st.pending := by
  induction done generalizing st with
  | nil => intro p hp; exact hp
  | cons e t ih =>
    obtain ⟨q, ok⟩ := e
    intro p hp
    simp only [drain] at hp
    split at hp
    · have := ih _ p hp
      exact (List.mem_filter.mp this).1
    · exact ih _ p hp

theorem drain_pending_nodup (cfg : TickCfg) (now : Nat) (done : List (Nat × Bool)) (st : TickState)
    (h : st.pending.Nodup) : (drain cfg now st done).pending.Nodup := by
  induction done generalizing st with
  | nil => exact h
  | cons e t ih =>
    obtain ⟨q, ok⟩ := e
    simp only [drain]
    split
    · exact ih _ (h.filter _)
    · exact ih _ h

/-- one check keeps "at most one background dial in flight per peer" -/
theorem tick_pending_nodup (cfg : TickCfg) (i : TickIn) (st : TickState) (h : st.pending.Nodup)
    (hk : (i.known.map (·.id)).Nodup) :
    (tick cfg i.now i.known i.connected i.pendingConns i.done st).1.pending.Nodup := by
  simp only [tick]
  have h1 := drain_pending_nodup cfg i.now i.done st h
  rw [List.nodup_append]
  refine ⟨h1, ?_, ?_⟩
  · -- chosen ids: a sublist of the known ids
    have hsub : ((List.filter (eligible cfg i.now i.connected (drain cfg i.now st i.done)) i.known).take
        (min (List.filter (eligible cfg i.now i.connected (drain cfg i.now st i.done)) i.known).length (cfg.cap - i.pendingConns))).Sublist i.known :=
      (List.take_sublist _ _).trans List.filter_sublist
    exact (hsub.map _).nodup hk
  · intro a ha b hb hab
    subst hab
    obtain ⟨k, hkm, rfl⟩ := List.mem_map.mp hb
    have hel := (List.mem_filter.mp (List.mem_of_mem_take hkm)).2
    simp only [eligible, Bool.and_eq_true, Bool.not_eq_true', decide_eq_false_iff_not] at hel
    exact hel.1.2 ha

/-- **Over every history of connectivity checks** -- any tables, any reachability, any dial results in
any order -- a peer never has two background dials in flight ("never dials peers already being
dialed", lifted from one check to all of them). -/
theorem C13_one_dial_per_peer (cfg : TickCfg) (ins : List TickIn) (st : TickState) (h : st.pending.Nodup)
    (hk : ∀ i ∈ ins, (i.known.map (·.id)).Nodup) :
    (runTicks cfg st ins).1.pending.Nodup := by
  induction ins generalizing st with
  | nil => exact h
  | cons i rest ih =>
    simp only [runTicks]
    exact ih _ (tick_pending_nodup cfg i st h (hk i (by simp))) (fun j hj => hk j (by simp [hj]))

theorem drain_keeps_pending (cfg : TickCfg) (now : Nat) (done : List (Nat × Bool)) (st : TickState) (p : Nat)
    (hp : p ∈ st.pending) (hnot : ∀ e ∈ done, e.1 ≠ p) : p ∈ (drain cfg now st done).pending := by
  induction done generalizing st with
  | nil => exact hp
  | cons e t ih =>
    obtain ⟨q, ok⟩ := e
    have hq : q ≠ p := hnot (q, ok) (by simp)
    have ht : ∀ e ∈ t, e.1 ≠ p := fun e he => hnot e (by simp [he])
    simp only [drain]
    split
    · exact ih _ (List.mem_filter.mpr ⟨hp, by simpa using fun e => hq e.symm⟩) ht
    · exact ih st hp ht

/-- ... and a check never dials a peer whose earlier dial has not been reported back yet -/
theorem C13_no_redial_while_pending (cfg : TickCfg) (i : TickIn) (st : TickState) (p a : Nat)
    (hp : p ∈ st.pending) (hnot : ∀ e ∈ i.done, e.1 ≠ p) :
    (p, a) ∉ (tick cfg i.now i.known i.connected i.pendingConns i.done st).2 := by
  intro hd
  obtain ⟨k, _, _, _, _, _, _, hpend, _⟩ := C13_only_eligible cfg i.now i.known i.connected i.pendingConns i.done st p a hd
  exact hpend (drain_keeps_pending cfg i.now i.done st p hp hnot)

/-- the cap bounds the background dials in flight after a check: if the dials still in flight are among
the connections being established (they are: a background dial is one), then after the check at most
`max cap pendingConns` are -/
theorem C13_pending_bounded (cfg : TickCfg) (i : TickIn) (st : TickState)
    (h : (drain cfg i.now st i.done).pending.length ≤ i.pendingConns) :
    (tick cfg i.now i.known i.connected i.pendingConns i.done st).1.pending.length ≤ max cfg.cap i.pendingConns := by
  simp only [tick, List.length_append, List.length_map, List.length_take]
  omega

/-- **The tick model is the translation of the source.** The eligibility predicate of the model is the
conjunction of exactly the clauses the translator read off `handle_connectivity_check` (High affinity,
not self, has an address, not connected, no pending background dial, strictly past its backoff); the dial
budget subtracts the number of connections being established (background or not); and the shapes the
other theorems rely on were recognised on this run: address index = attempts mod number of addresses, a
noticed success clears the backoff state, a noticed failure updates it with (now, step, max) in that
order, `DialBackoffState::{new, update}` compute `now + min(max, step * attempts)`, and the check is
driven by a fixed-period `interval` (not by a timer that other events restart). -/
theorem C13_tick_is_translated :
    (∀ cfg now connected st k, eligibleGen cfg now connected st k = eligible cfg now connected st k) ∧
    (∀ cap pc pd, budgetGen cap pc pd = cap - pc) ∧
    Gen.addressRotationGen = true ∧ Gen.successClearsBackoffGen = true ∧ Gen.failureUpdatesBackoffGen = true ∧
    Gen.backoffFormulaGen = true ∧ Gen.fixedPeriodTickGen = true := by
  refine ⟨?_, ?_, rfl, rfl, rfl, rfl, rfl⟩
  · intro cfg now connected st k
    simp [eligibleGen, Gen.eligibleClausesGen, evalEligClause, eligible, Bool.and_assoc]
  · intro cap pc pd
    simp [budgetGen, Gen.budgetMinusGen]

end Anemo

namespace Anemo
/-- **A background dial is an ordinary dial** (word for word the functions the model was written for, checked on this run): `dial_peer` spawns `dial_peer_task` into the pending-connection set that the budget counts, and its outcome reaches the pending-dial table through the oneshot the connectivity check drains. -/
theorem C13_dial_path_is_pinned : Gen.dialingShapeChecked = true := rfl
end Anemo
