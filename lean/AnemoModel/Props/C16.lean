/-
C16 — Routing delivers each request to exactly the matching service.
Class proved: route tables made of exact paths and catch-all tails (what `route`, `add_rpc_service`,
`merge` and `route_layer` build from such patterns); route strings are arbitrary byte strings.
`Pattern.overlaps` is exactly "some path is matched by both" (`C16_overlap_exact`), so the tables the
model accepts are exactly the unambiguous ones; that matchit accepts/rejects the same insertions is
established by the differential run.  Dispatch is a total function: it cannot panic.
-/
import AnemoModel.Routing
import AnemoModel.Props.C07
namespace Anemo

theorem isPrefixOf_iff (a b : Bytes) : a.isPrefixOf b = true ↔ a <+: b := List.isPrefixOf_iff_prefix

/-- two prefixes of one list are comparable -/
theorem prefix_comparable (a b l : Bytes) (ha : a <+: l) (hb : b <+: l) : a <+: b ∨ b <+: a := by
  rcases Nat.le_total a.length b.length with h | h
  · exact Or.inl (List.prefix_of_prefix_length_le ha hb h)
  · exact Or.inr (List.prefix_of_prefix_length_le hb ha h)

/-- the overlap test is exact: it holds iff some route string is matched by both patterns -/
theorem C16_overlap_exact (p q : Pattern) :
    p.overlaps q = true ↔ ∃ path, p.matches path = true ∧ q.matches path = true := by
  cases p with
  | exact a =>
    cases q with
    | exact b =>
      simp only [Pattern.overlaps, Pattern.matches, beq_iff_eq]
      exact ⟨fun h => ⟨a, rfl, h.symm⟩, fun ⟨_, h1, h2⟩ => h1.trans h2.symm⟩
    | catchAll b =>
      simp only [Pattern.overlaps, Pattern.matches, beq_iff_eq]
      exact ⟨fun h => ⟨a, rfl, h⟩, fun ⟨_, h1, h2⟩ => h1 ▸ h2⟩
  | catchAll a =>
    cases q with
    | exact b =>
      simp only [Pattern.overlaps, Pattern.matches, beq_iff_eq]
      exact ⟨fun h => ⟨b, h, rfl⟩, fun ⟨_, h1, h2⟩ => h2 ▸ h1⟩
    | catchAll b =>
      simp only [Pattern.overlaps, Pattern.matches, Bool.or_eq_true, isPrefixOf_iff]
      constructor
      · rintro (h | h)
        · exact ⟨b, h, List.prefix_refl b⟩
        · exact ⟨a, List.prefix_refl a, h⟩
      · rintro ⟨path, h1, h2⟩
        exact prefix_comparable a b path h1 h2

/-- exactly one service handles a request: in a valid table at most one entry matches any route string -/
theorem C16_unique_match (t : Table) (hv : t.Valid) (path : Bytes) :
    (t.filter (fun e => e.pat.matches path)).length ≤ 1 := by
  induction t with
  | nil => simp
  | cons e rest ih =>
    have ⟨hhead, htail⟩ := List.pairwise_cons.mp hv
    by_cases hm : e.pat.matches path = true
    · have hnone : rest.filter (fun x => x.pat.matches path) = [] := by
        apply List.filter_eq_nil_iff.mpr
        intro x hx hxm
        have := (C16_overlap_exact e.pat x.pat).mpr ⟨path, hm, hxm⟩
        rw [hhead x hx] at this; cases this
      simp [List.filter_cons, hm, hnone]
    · simp only [List.filter_cons, hm, Bool.false_eq_true, if_false]
      exact ih htail

/-- the request goes to the entry registered for the matching pattern (exact path, wildcard tail
or RPC prefix alike), with that entry's service and layers -/
theorem C16_dispatch_exact (t : Table) (hv : t.Valid) (e : Entry) (path : Bytes)
    (he : e ∈ t) (hm : e.pat.matches path = true) : t.dispatch path = some e := by
  induction t with
  | nil => simp at he
  | cons x rest ih =>
    have ⟨hhead, htail⟩ := List.pairwise_cons.mp hv
    unfold Table.dispatch
    rcases List.mem_cons.mp he with rfl | hin
    · simp [List.find?_cons, hm]
    · have hx : x.pat.matches path = false := by
        cases hxm : x.pat.matches path with
        | false => rfl
        | true =>
          have := (C16_overlap_exact x.pat e.pat).mpr ⟨path, hxm, hm⟩
          rw [hhead e hin] at this; cases this
      simp only [List.find?_cons, hx]
      exact ih htail hin

/-- any unmatched route string gets NotFound -/
theorem C16_unmatched_not_found (t : Table) (path : Bytes)
    (h : ∀ e ∈ t, e.pat.matches path = false) : t.dispatch path = none := by
  unfold Table.dispatch
  apply List.find?_eq_none.mpr
  intro e he; simp [h e he]

/-- what dispatch returns is an entry of the table that matches -/
theorem C16_dispatch_sound (t : Table) (path : Bytes) (e : Entry) (h : t.dispatch path = some e) :
    e ∈ t ∧ e.pat.matches path = true := by
  unfold Table.dispatch at h
  exact ⟨List.mem_of_find?_eq_some h, by simpa using List.find?_some h⟩

/-! ### every registered pattern starts with '/', so empty and slash-less route strings are never served -/
def Pattern.text : Pattern → Bytes
  | .exact p => p
  | .catchAll pre => pre

def Table.Slashed (t : Table) : Prop := ∀ e ∈ t, e.pat.text.head? = some slash

theorem parsePattern_slashed (path : Bytes) (p : Pattern) (h : parsePattern path = some p) :
    p.text.head? = some slash := by
  unfold parsePattern at h
  cases path with
  | nil => simp at h
  | cons c rest =>
    simp only at h
    by_cases hc : c = slash
    · subst hc
      simp only [bne_self_eq_false, Bool.false_eq_true, if_false] at h
      cases hs : splitStar (slash :: rest) with
      | none =>
        rw [hs] at h; simp only at h
        split at h
        · cases h
        · injection h with h; subst h; rfl
      | some pr =>
        obtain ⟨pre, name⟩ := pr
        rw [hs] at h; simp only at h
        split at h
        · injection h with h; subst h
          -- the text before the first '*' of "/..." starts with '/'
          simp only [splitStar] at hs
          rw [if_neg (by decide)] at hs
          cases hr : splitStar rest with
          | none => rw [hr] at hs; cases hs
          | some ab =>
            rw [hr] at hs
            injection hs with hs
            injection hs with h1 _
            subst h1; rfl
        · cases h
    · have : (c != slash) = true := by simpa using hc
      simp [this] at h

theorem slashed_no_match (p : Pattern) (hp : p.text.head? = some slash) (path : Bytes)
    (hpath : path.head? ≠ some slash) : p.matches path = false := by
  cases hm : p.matches path with
  | false => rfl
  | true =>
    exfalso
    cases p with
    | exact a =>
      simp only [Pattern.matches, beq_iff_eq] at hm
      subst hm; exact hpath hp
    | catchAll pre =>
      simp only [Pattern.matches, isPrefixOf_iff] at hm
      obtain ⟨t, rfl⟩ := hm
      cases pre with
      | nil => simp [Pattern.text] at hp
      | cons x xs => simp [Pattern.text] at hp; subst hp; simp at hpath

/-- the empty route string, and any route string that does not start with '/', is answered NotFound -/
theorem C16_odd_routes_not_found (t : Table) (hs : t.Slashed) (path : Bytes)
    (hpath : path.head? ≠ some slash) : t.dispatch path = none :=
  C16_unmatched_not_found t path (fun e he => slashed_no_match e.pat (hs e he) path hpath)

/-! ### building tables -/
theorem insert_ok (t t' : Table) (e : Entry) (h : t.insert e = some t') :
    t' = t ++ [e] ∧ ∀ x ∈ t, x.pat.overlaps e.pat = false := by
  unfold Table.insert at h
  split at h
  · cases h
  · rename_i hany
    injection h with h
    refine ⟨h.symm, ?_⟩
    intro x hx
    cases ho : x.pat.overlaps e.pat with
    | false => rfl
    | true => exact absurd (List.any_eq_true.mpr ⟨x, hx, ho⟩) hany

theorem valid_append_one (t : Table) (e : Entry) (hv : t.Valid) (h : ∀ x ∈ t, x.pat.overlaps e.pat = false) :
    Table.Valid (t ++ [e]) := by
  unfold Table.Valid at *
  rw [List.pairwise_append]
  refine ⟨hv, by simp, ?_⟩
  intro a ha b hb
  simp at hb; subst hb; exact h a ha

/-- `route`: on success the new route is appended with no layers and the table stays unambiguous;
it is refused (the real `Router::route` panics) exactly when the pattern is malformed or ambiguous
with an existing route -/
theorem C16_route (t t' : Table) (path : Bytes) (svc : Nat) (hv : t.Valid) (hs : t.Slashed)
    (h : t.route path svc = some t') :
    ∃ p, parsePattern path = some p ∧ t' = t ++ [{ pat := p, svc := svc, layers := [] }] ∧ t'.Valid ∧ t'.Slashed := by
  unfold Table.route at h
  cases hp : parsePattern path with
  | none => rw [hp] at h; cases h
  | some p =>
    rw [hp] at h
    have ⟨h1, h2⟩ := insert_ok _ _ _ h
    refine ⟨p, rfl, h1, h1 ▸ valid_append_one t _ hv h2, ?_⟩
    rw [h1]
    intro e he
    rcases List.mem_append.mp he with he | he
    · exact hs e he
    · simp at he; subst he; exact parsePattern_slashed path p hp

/-- merging preserves every route of both routers with its service and its route-level layers, and
the result is unambiguous -/
theorem C16_merge_preserves (a b t : Table) (hv : a.Valid) (h : a.merge b = some t) :
    t = a ++ b ∧ t.Valid := by
  induction b generalizing a with
  | nil => simp [Table.merge] at h; subst h; simpa using hv
  | cons e rest ih =>
    simp only [Table.merge] at h
    cases hi : a.insert e with
    | none => rw [hi] at h; cases h
    | some a' =>
      rw [hi] at h
      have ⟨h1, h2⟩ := insert_ok _ _ _ hi
      have hv' : a'.Valid := h1 ▸ valid_append_one a e hv h2
      have ⟨h3, h4⟩ := ih a' hv' h
      exact ⟨by rw [h3, h1]; simp, h4⟩

theorem C16_merge_dispatch (a b t : Table) (hv : a.Valid) (h : a.merge b = some t) (e : Entry) (path : Bytes)
    (he : e ∈ a ∨ e ∈ b) (hm : e.pat.matches path = true) : t.dispatch path = some e := by
  have ⟨h1, h2⟩ := C16_merge_preserves a b t hv h
  exact C16_dispatch_exact t h2 e path (by rw [h1]; exact List.mem_append.mpr he) hm

/-- a route layer applies to exactly the routes registered before it: they get the layer outermost,
keep their pattern and service; a route added afterwards carries no layer -/
theorem C16_layer_scope (t t' : Table) (l : Nat) (path : Bytes) (svc : Nat)
    (h : (t.routeLayer l).route path svc = some t') :
    ∃ p, t' = t.map (fun e => { e with layers := l :: e.layers }) ++ [{ pat := p, svc := svc, layers := [] }] := by
  unfold Table.route at h
  cases hp : parsePattern path with
  | none => rw [hp] at h; cases h
  | some p =>
    rw [hp] at h
    exact ⟨p, (insert_ok _ _ _ h).1⟩

theorem C16_layer_keeps_validity (t : Table) (l : Nat) (hv : t.Valid) : (t.routeLayer l).Valid := by
  unfold Table.Valid Table.routeLayer at *
  exact List.Pairwise.map _ (fun _ _ h => h) hv

theorem C16_layer_dispatch (t : Table) (l : Nat) (path : Bytes) :
    (t.routeLayer l).dispatch path = (t.dispatch path).map (fun e => { e with layers := l :: e.layers }) := by
  unfold Table.dispatch Table.routeLayer
  induction t with
  | nil => rfl
  | cons e rest ih =>
    simp only [List.map_cons, List.find?_cons]
    cases e.pat.matches path <;> simp [ih]

/-- an RPC service registered under `name` serves exactly the route strings under `/<name>/` -/
theorem C16_rpc_prefix (name path : Bytes) :
    (Pattern.catchAll ([slash] ++ name ++ [slash])).matches path = true ↔ ([slash] ++ name ++ [slash]) <+: path := by
  simp [Pattern.matches, isPrefixOf_iff]

/-! non-vacuity -/
example : ((Table.route [] [0x2f, 0x61] 1).bind (fun t => t.addRpcService [0x47] 2)).bind
    (fun t => (t.routeLayer 9).route [0x2f, 0x62] 3) =
    some [⟨.exact [0x2f, 0x61], 1, [9]⟩, ⟨.catchAll [0x2f, 0x47, 0x2f], 2, [9]⟩, ⟨.exact [0x2f, 0x62], 3, []⟩] := by decide
example : (Table.route [] [0x2f, 0x61, 0x2f, 0x2a, 0x72] 1).bind (fun t => t.route [0x2f, 0x61, 0x2f, 0x62] 2) = none := by decide



/-- **The route the router dispatches on is the route the caller sent**: a request that crosses the wire
(real encoder, any limit up to the 4-byte length field, any trailing bytes behind it on the stream) is
decoded with exactly its route -- empty, slash-less, overlong or odd as it may be -- so the table
lookup on the serving side is the lookup on the caller's route string. -/
theorem C16_route_as_sent (t : Table) (max : Nat) (r : Req) (bytes rest : Bytes)
    (hmax : max ≤ lenFieldMax) (hwf : ReqWF r) (henc : encodeRequest max r = .ok bytes) :
    ∃ d, decodeRequest max (bytes ++ rest) = .ok (d, rest) ∧ d.route = r.route ∧ t.dispatch d.route = t.dispatch r.route := by
  refine ⟨_, C07_roundtrip_request max r bytes rest hmax hwf henc, rfl, rfl⟩

/-- in particular the empty route stays empty and is answered NotFound by every table of slash-led patterns -/
theorem C16_empty_route_over_the_wire (t : Table) (hs : t.Slashed) (max : Nat) (r : Req) (bytes rest : Bytes)
    (hmax : max ≤ lenFieldMax) (hwf : ReqWF r) (henc : encodeRequest max r = .ok bytes) (he : r.route = []) :
    ∃ d, decodeRequest max (bytes ++ rest) = .ok (d, rest) ∧ t.dispatch d.route = none := by
  obtain ⟨d, hd, hr, _⟩ := C16_route_as_sent t max r bytes rest hmax hwf henc
  refine ⟨d, hd, ?_⟩
  rw [hr, he]
  exact C16_odd_routes_not_found t hs [] (by simp)

theorem callWith_true (s : SvcTree) : callWith true true s = [] := by
  induction s with
  | leaf _ => rfl
  | layer tag inner ih => simp [callWith, ih]
  | route inner ih => simp [callWith, ih]

/-- **No layer is ever called without having been polled ready**, however many route layers and `Route`
boxes are stacked (by `route_layer` after `route_layer`, or by `merge`): readiness-sensitive middleware
(concurrency limits, buffers, rate limits) installed as route layers is driven by the tower contract. -/
theorem C16_no_call_without_poll_ready (s : SvcTree) : oneshotTree Gen.routeCallPollsInner s = [] :=
  callWith_true s

/-- what the pinned shape of `Route::call` prevents: calling the boxed service directly -/
example : oneshotTree false (.route (.layer 7 (.route (.layer 8 (.leaf 1))))) = [7, 8] := by decide

/-- **The router the model describes is the one in the source** (shapes recognised on this run): `route`
rejects paths without a leading slash and Routers as services, inserts the pattern into the matcher under a
fresh id and stores the service under that id; `merge` re-registers every route of the other router by
looking its path up UNDER ITS OWN ID; `route_layer` wraps exactly the routes present and leaves matcher
and fallback as they are; `call` looks the route string up and calls the matched route, or the fallback
(NotFound) on any non-match; `add_rpc_service` registers the translated pattern (`rpcRoutePatternGen`). -/
theorem C16_router_is_translated : Gen.routerShapeChecked = true := rfl

end Anemo
