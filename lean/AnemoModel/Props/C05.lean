/-
C05 — Simultaneous mutual dials converge on one shared connection.
(1) the tie-break, for ALL pairs of distinct identities: both ends condemn the same connection and
the survivor is the one dialled by the greater identity, whatever the arrival order;
(2) convergence, for ALL schedules: every order of the four registrations and of the handler exits
that the closes enable, with the loser's registrations optional, ends with exactly the winner
registered on both sides, open, last announced by NewPeer, and nothing further enabled.
The schedule space is finite and is enumerated completely inside Lean (`Duo.reach`) for both
orders of the two identities; `decide` makes the kernel evaluate the whole enumeration.  Identity
pairs reduce to the bit `a < b` by `C05_tiebreak_order_only` (the set operations inspect ids only
through key equality and through the tie-break).
-/
import AnemoModel.Duo
import AnemoModel.Props.C04
namespace Anemo
open Gen

/-- the decision depends only on the relative order of the two identities -/
theorem C05_tiebreak_order_only (a b a' b' : PeerId) (e n : Origin)
    (h1 : a < b ↔ a' < b') (h2 : b < a ↔ b' < a') : tieBreak a b e n = tieBreak a' b' e n := by
  cases e <;> cases n <;> simp [tieBreak, h1, h2]

/-- existing = the one we dialled, new = the one they dialled: ours is dropped iff they are greater -/
theorem C05_tiebreak_out_in (own remote : Nat) :
    tieBreak own remote .outbound .inbound = true ↔ own < remote := by simp [tieBreak]

/-- existing = theirs, new = ours: theirs is dropped iff we are greater -/
theorem C05_tiebreak_in_out (own remote : Nat) :
    tieBreak own remote .inbound .outbound = true ↔ remote < own := by simp [tieBreak]

/-- Both ends take the same decision about the same pair of connections.  With `c1` dialled by `a`
and `c2` dialled by `b`: if c1 is registered first on both sides, `a` (c1 outbound, c2 inbound) and
`b` (c1 inbound, c2 outbound) both drop c1 exactly when `a < b`; -/
theorem C05_tiebreak_symmetric (a b : Nat) :
    tieBreak a b .outbound .inbound = tieBreak b a .inbound .outbound := by
  simp [tieBreak]

/-- ... and whichever order the two connections arrive in, the survivor is the connection dialled by
the greater identity: if ours arrived first it is replaced iff they are greater; if theirs arrived
first it is replaced iff we are greater (for distinct identities these are complementary). -/
theorem C05_survivor_dialled_by_greater (own remote : Nat) (hne : own ≠ remote) :
    (tieBreak own remote .outbound .inbound = true ↔ tieBreak own remote .inbound .outbound = false) := by
  rw [C05_tiebreak_out_in]
  have := C05_tiebreak_in_out own remote
  constructor
  · intro h
    cases hb : tieBreak own remote .inbound .outbound with
    | false => rfl
    | true => have := this.mp hb; omega
  · intro h
    have : ¬ remote < own := fun hlt => by rw [this.mpr hlt] at h; cases h
    omega

def Duo.init (aLtB : Bool) : Duo := if aLtB then { aId := 1, bId := 2 } else { aId := 2, bId := 1 }

/-- every reachable quiet state has converged (both identity orders, every schedule) -/
theorem C05_converges (aLtB : Bool) :
    ∀ d ∈ (Duo.init aLtB).reach 8, d.quiet = true → d.converged = true := by
  cases aLtB <;> decide +kernel

/-- 8 actions exhaust every schedule: no action can happen twice, so no state at depth 8 has anything enabled -/
theorem C05_reach_complete (aLtB : Bool) :
    ∀ d ∈ (Duo.init aLtB).reach 8, (d.offered.length + d.exited.length = 8 → allActs.all (fun act => !d.enabled act) = true) := by
  cases aLtB <;> decide +kernel

/-- once all four registrations and the enabled exits have happened nothing more is enabled: no
further connect or disconnect events for the pair -/
theorem C05_no_further_events (aLtB : Bool) :
    ∀ d ∈ (Duo.init aLtB).reach 8, d.quiet = true → d.offered.length = 4 →
      allActs.all (fun act => !d.enabled act) = true := by
  cases aLtB <;> decide +kernel

/-- the survivor is a function of the identities and dial directions only: at every quiet state,
in every schedule, it is the connection dialled by the greater identity -/
theorem C05_order_independent (aLtB : Bool) :
    ∀ d ∈ (Duo.init aLtB).reach 8, d.quiet = true →
      (lookupConn d.a.conns d.bId).map (·.id) = some (if aLtB then 2 else 1) ∧
      (lookupConn d.b.conns d.aId).map (·.id) = some (if aLtB then 2 else 1) := by
  cases aLtB <;> decide +kernel

/-! ### non-vacuity: quiet states exist, including ones reached through a replacement -/
example : ∃ d ∈ (Duo.init true).reach 8, d.quiet = true ∧ d.a.closed ≠ [] := by
  refine ⟨(((((Duo.init true).step (.add .A .c1)).step (.add .B .c1)).step (.add .A .c2)).step (.add .B .c2)).step (.exit .A .c1) |>.step (.exit .B .c1), ?_, by decide, by decide⟩
  decide +kernel

end Anemo

namespace Anemo
/-- **The two-node analysis is the N-node analysis.**  In a network of any size, with any traffic between
other pairs (connections arriving, being replaced, ending) interleaved in any way, what node `own`
holds for peer `q` is what the operations about `q` alone produce: the pair's mutual-dial convergence
(`C05_converges`, on two nodes) cannot be disturbed by, and does not depend on, third parties. -/
theorem C05_third_parties_irrelevant (own : PeerId) (ops : List Op) (q : PeerId) :
    lookupConn (Active.run own {} ops).conns q = lookupConn (Active.run own {} (ops.filter (fun o => o.peer = q))).conns q :=
  Active.run_lookup_project own ops {} {} q rfl

/-- **Every established connection, inbound or outbound, goes through `add`** (word for word the functions the two-node model was written for, checked on this run): `handle_connecting_result` hands every successful handshake to `add_peer`, which registers it through `ActivePeers::add` and starts a handler only for a connection that was kept; no other path registers, shortcuts or refuses a connection after the handshake. -/
theorem C05_dial_path_is_pinned : Gen.dialingShapeChecked = true := rfl
end Anemo
