/-
C08 - Shutdown always completes, releases everything and never panics.
Theorems over `Life.Api` (what every public call answers) and `Life.Mgr` (the connection manager
task with an explicit runtime-teardown action), for the decision points translated from the source
(`Life.genFlags`).
-/
import AnemoModel.Life
namespace Anemo.Life

/-- what is true of every state the task can be in -/
structure Good (m : Mgr) : Prop where
  noPanic : m.noTaskPanic
  entries : m.handlerCancelled = true ∨ m.entries ≤ m.hLive + m.hJoin.count .cancelled
  lateLive : m.phase.rank ≤ 4 → m.hLive = 0
  lateJoin : m.phase.rank ≤ 4 → m.hJoin = []

theorem count_append_replicate (l : List JoinRes) (n : Nat) :
    (l ++ List.replicate n JoinRes.cancelled).count .cancelled = l.count .cancelled + n := by
  simp [List.count_append]

theorem tearDown_good (m : Mgr) (h : Good m) : Good m.tearDown := by
  obtain ⟨⟨hp1, hp2⟩, he, hl, hj⟩ := h
  refine ⟨⟨?_, ?_⟩, ?_, ?_, ?_⟩
  · simp [Mgr.tearDown, hp1]
  · simp [Mgr.tearDown, hp2]
  · rcases he with he | he
    · exact Or.inl he
    · right; simp only [Mgr.tearDown, count_append_replicate]; omega
  · intro _; rfl
  · intro hr
    have hr' : m.phase.rank ≤ 4 := hr
    have := hj hr'
    have hl' : m.hLive = 0 := hl hr'
    simp [Mgr.tearDown, this, hl']

def Safe (m : Mgr) : Out → Prop
  | .next m' => Good m' ∧ m'.work < m.work ∧ m'.tornDown = m.tornDown
  | .panic _ => False
  | _ => True

theorem stepLoop_safe (m : Mgr) (a : Arm) (h : Good m) (hph : m.phase = .loop) : Safe m (m.stepLoop safeFlags a) := by
  obtain ⟨⟨hp1, hp2⟩, he, hl, hj⟩ := h
  cases a with
  | tick =>
    simp only [Mgr.stepLoop]
    split
    · rename_i ht
      refine ⟨⟨⟨hp1, hp2⟩, he, hl, hj⟩, ?_, rfl⟩
      simp [Mgr.work, ht]
    · trivial
  | mailbox =>
    simp only [Mgr.stepLoop]
    split
    · rename_i rest hm
      simp only [spawnPending]
      split
      · refine ⟨⟨⟨?_, hp2⟩, he, hl, hj⟩, ?_, rfl⟩
        · simp [hp1]
        · simp [Mgr.work, hm]; omega
      · refine ⟨⟨⟨hp1, hp2⟩, he, hl, hj⟩, ?_, rfl⟩
        simp [Mgr.work, hm]
    · rename_i rest hm
      refine ⟨⟨⟨hp1, hp2⟩, he, ?_, ?_⟩, ?_, rfl⟩
      · intro hr; simp [Phase.rank] at hr
      · intro hr; simp [Phase.rank] at hr
      · simp [Mgr.work, hm, hph, Phase.rank]; omega
    · split
      · trivial
      · refine ⟨⟨⟨hp1, hp2⟩, he, ?_, ?_⟩, ?_, rfl⟩
        · intro hr; simp [Phase.rank] at hr
        · intro hr; simp [Phase.rank] at hr
        · simp [Mgr.work, hph, Phase.rank]
  | accept =>
    simp only [Mgr.stepLoop, safeFlags, if_true]
    split
    · rename_i hr
      refine ⟨⟨⟨hp1, hp2⟩, he, hl, hj⟩, ?_, rfl⟩
      simp [Mgr.work]; omega
    · split
      · rename_i hi
        simp only [spawnPending]
        split
        · refine ⟨⟨⟨?_, hp2⟩, he, hl, hj⟩, ?_, rfl⟩
          · simp [hp1]
          · simp [Mgr.work]; omega
        · refine ⟨⟨⟨hp1, hp2⟩, he, hl, hj⟩, ?_, rfl⟩
          simp [Mgr.work]; omega
      · split
        · refine ⟨⟨⟨hp1, hp2⟩, he, ?_, ?_⟩, ?_, rfl⟩
          · intro hr; simp [Phase.rank] at hr
          · intro hr; simp [Phase.rank] at hr
          · simp [Mgr.work, hph, Phase.rank]
        · trivial
  | pending =>
    simp only [Mgr.stepLoop]
    split
    · trivial
    · rename_i rest hm
      simp only [spawnHandler]
      have hp1' : JoinRes.panicked ∉ rest := by rw [hm] at hp1; simp at hp1; exact hp1
      split
      · refine ⟨⟨⟨hp1', ?_⟩, ?_, hl, ?_⟩, ?_, rfl⟩
        · simp [hp2]
        · rcases he with he | he
          · exact Or.inl he
          · right; simp [List.count_append]; omega
        · intro hr; rw [hph] at hr; simp [Phase.rank] at hr
        · simp [Mgr.work, hm]; omega
      · refine ⟨⟨⟨hp1', hp2⟩, ?_, ?_, hj⟩, ?_, rfl⟩
        · rcases he with he | he
          · exact Or.inl he
          · right; simp; omega
        · intro hr; rw [hph] at hr; simp [Phase.rank] at hr
        · simp [Mgr.work, hm]; omega
    · rename_i rest hm
      have hp1' : JoinRes.panicked ∉ rest := by rw [hm] at hp1; simp at hp1; exact hp1
      simp only [safeFlags, if_true]
      refine ⟨⟨⟨hp1', hp2⟩, he, hl, hj⟩, ?_, rfl⟩
      simp [Mgr.work, hm]
    · rename_i rest hm
      rw [hm] at hp1; simp at hp1
  | handler =>
    simp only [Mgr.stepLoop]
    split
    · trivial
    · rename_i rest hm
      have hp2' : JoinRes.panicked ∉ rest := by rw [hm] at hp2; simp at hp2; exact hp2
      refine ⟨⟨⟨hp1, hp2'⟩, ?_, hl, ?_⟩, ?_, rfl⟩
      · rcases he with he | he
        · exact Or.inl he
        · right; rw [hm] at he; simpa using he
      · intro hr; rw [hph] at hr; simp [Phase.rank] at hr
      · simp [Mgr.work, hm]
    · rename_i rest hm
      have hp2' : JoinRes.panicked ∉ rest := by rw [hm] at hp2; simp at hp2; exact hp2
      simp only [safeFlags, if_true]
      refine ⟨⟨⟨hp1, hp2'⟩, Or.inl rfl, hl, ?_⟩, ?_, rfl⟩
      · intro hr; rw [hph] at hr; simp [Phase.rank] at hr
      · simp [Mgr.work, hm]
    · rename_i rest hm
      rw [hm] at hp2; simp at hp2

theorem step_safe (m : Mgr) (a : Arm) (h : Good m) : Safe m (m.step safeFlags a) := by
  cases hph : m.phase with
  | loop =>
    simp only [Mgr.step, hph]
    split
    · exact stepLoop_safe m a h hph
    · trivial
  | closeEndpoint =>
    obtain ⟨⟨hp1, hp2⟩, he, hl, hj⟩ := h
    simp only [Mgr.step, hph]
    refine ⟨⟨⟨hp1, hp2⟩, he, ?_, ?_⟩, ?_, rfl⟩
    · intro hr; simp [Phase.rank] at hr
    · intro hr; simp [Phase.rank] at hr
    · simp [Mgr.work, hph, Phase.rank]
  | abortPending =>
    obtain ⟨⟨hp1, hp2⟩, he, hl, hj⟩ := h
    simp only [Mgr.step, hph, safeFlags, Bool.true_or, if_true]
    refine ⟨⟨⟨by simp, hp2⟩, he, ?_, ?_⟩, ?_, rfl⟩
    · intro hr; simp [Phase.rank] at hr
    · intro hr; simp [Phase.rank] at hr
    · simp [Mgr.work, hph, Phase.rank]; omega
  | joinHandlers =>
    obtain ⟨⟨hp1, hp2⟩, he, hl, hj⟩ := h
    simp only [Mgr.step, hph]
    refine ⟨⟨⟨hp1, by simp⟩, ?_, ?_, ?_⟩, ?_, rfl⟩
    · rcases he with he | he
      · left; simp [he]
      · by_cases hc : JoinRes.cancelled ∈ m.hJoin
        · left; simp [hc]
        · right
          have : m.hJoin.count .cancelled = 0 := List.count_eq_zero.mpr hc
          simp; omega
    · intro _; rfl
    · intro _; rfl
    · simp [Mgr.work, hph, Phase.rank]; omega
  | checkEmpty =>
    obtain ⟨⟨hp1, hp2⟩, he, hl, hj⟩ := h
    have hl0 : m.hLive = 0 := hl (by rw [hph]; decide)
    have hj0 : m.hJoin = [] := hj (by rw [hph]; decide)
    have hok : (decide (m.entries = 0) || (safeFlags.assertWaivedWhenCancelled && m.handlerCancelled)) = true := by
      rcases he with he | he
      · simp [safeFlags, he]
      · rw [hl0, hj0] at he
        have : m.entries = 0 := by simpa using he
        simp [this]
    simp only [Mgr.step, hph, hok, if_true]
    refine ⟨⟨⟨hp1, hp2⟩, he, ?_, ?_⟩, ?_, rfl⟩
    · intro _; exact hl0
    · intro _; exact hj0
    · simp [Mgr.work, hph, Phase.rank]
  | waitIdle =>
    obtain ⟨⟨hp1, hp2⟩, he, hl, hj⟩ := h
    have hl0 : m.hLive = 0 := hl (by rw [hph]; decide)
    have hj0 : m.hJoin = [] := hj (by rw [hph]; decide)
    simp only [Mgr.step, hph]
    split
    · trivial
    · refine ⟨⟨⟨hp1, hp2⟩, he, fun _ => hl0, fun _ => hj0⟩, ?_, rfl⟩
      simp [Mgr.work, hph, Phase.rank]
  | rebind =>
    obtain ⟨⟨hp1, hp2⟩, he, hl, hj⟩ := h
    have hl0 : m.hLive = 0 := hl (by rw [hph]; decide)
    have hj0 : m.hJoin = [] := hj (by rw [hph]; decide)
    simp only [Mgr.step, hph]
    refine ⟨⟨⟨hp1, hp2⟩, he, fun _ => hl0, fun _ => hj0⟩, ?_, rfl⟩
    simp [Mgr.work, hph, Phase.rank]
  | notify =>
    obtain ⟨⟨hp1, hp2⟩, he, hl, hj⟩ := h
    have hl0 : m.hLive = 0 := hl (by rw [hph]; decide)
    have hj0 : m.hJoin = [] := hj (by rw [hph]; decide)
    simp only [Mgr.step, hph]
    refine ⟨⟨⟨hp1, hp2⟩, he, fun _ => hl0, fun _ => hj0⟩, ?_, rfl⟩
    simp [Mgr.work, hph, Phase.rank]
  | ended =>
    simp only [Mgr.step, hph]
    trivial

def Out.isPanic : Out → Bool
  | .panic _ => true
  | _ => false

/-- any poll, under any schedule of arm choices, never panics and takes at most `work` steps -/
theorem poll_safe (sched : List Arm) (m : Mgr) (n : Nat) (h : Good m) :
    (Mgr.poll safeFlags m sched n).1.isPanic = false ∧ (Mgr.poll safeFlags m sched n).2 ≤ n + m.work := by
  induction sched generalizing m n with
  | nil => simp [Mgr.poll, Out.isPanic]
  | cons a rest ih =>
    have hs := step_safe m a h
    simp only [Mgr.poll]
    cases hst : m.step safeFlags a with
    | next m' =>
      rw [hst] at hs
      obtain ⟨hg, hw, _⟩ := hs
      have := ih m' (n + 1) hg
      simp only
      exact ⟨this.1, by omega⟩
    | notReady =>
      simp only
      exact ih m n h
    | yield m' => simp [Out.isPanic]
    | done m' => simp [Out.isPanic]
    | panic w => rw [hst] at hs; exact absurd hs (by simp [Safe])

/-- the flags translated from the current source are the safe ones -/
theorem genFlags_safe : genFlags = safeFlags := by decide

/-- **Tearing down the async runtime at any moment neither panics nor hangs**: from every state the
manager task can be in (before, during or after shutdown; any in-flight dials, handshakes, handlers,
queued API calls) the poll that is in progress when the runtime goes away, whatever `select!` picks,
does not panic and returns after at most `work` steps. -/
theorem C08_teardown_safe (m : Mgr) (h : Good m) (sched : List Arm) :
    (Mgr.poll genFlags m.tearDown sched 0).1.isPanic = false ∧
    (Mgr.poll genFlags m.tearDown sched 0).2 ≤ m.tearDown.work := by
  rw [genFlags_safe]
  have := poll_safe sched m.tearDown 0 (tearDown_good m h)
  simpa using this

/-- the same without teardown: no poll of the manager ever panics or spins -/
theorem C08_no_panic_no_spin (m : Mgr) (h : Good m) (sched : List Arm) :
    (Mgr.poll genFlags m sched 0).1.isPanic = false ∧ (Mgr.poll genFlags m sched 0).2 ≤ m.work := by
  rw [genFlags_safe]
  simpa using poll_safe sched m 0 h

/-- a remote party that sends a first packet the endpoint cannot accept does not end the event loop -/
theorem C08_refused_incoming_harmless (m : Mgr) (hph : m.phase = .loop) (hr : m.refused > 0) :
    ∃ m', m.step genFlags .accept = .next m' ∧ m'.phase = .loop := by
  rw [genFlags_safe]
  refine ⟨{ m with refused := m.refused - 1 }, ?_, hph⟩
  simp [Mgr.step, hph, Mgr.anyReady, Mgr.stepLoop, safeFlags, hr]

/-- **Shutdown completes and releases everything**: once the loop has been left (explicit shutdown or
last handle dropped) on a live runtime the sequence runs to the end in 7 steps, whatever was in
flight: no entries, no handlers, no pending connections remain; the only timed wait is the bounded
idle wait. -/
theorem C08_shutdown_completes (m : Mgr) (h : Good m) (hph : m.phase = .closeEndpoint) (ht : m.tornDown = false)
    (hc : m.handlerCancelled = false) (hnc : JoinRes.cancelled ∉ m.hJoin) (sched : List Arm) (hs : sched.length = 8) :
    ∃ m', Mgr.poll genFlags m sched 0 = (.done m', 7) ∧ m'.phase = .ended ∧ m'.entries = 0 ∧ m'.hLive = 0 ∧
      m'.pLive = 0 ∧ m'.pJoin = [] ∧ m'.hJoin = [] ∧ m'.endpointClosed = true := by
  rw [genFlags_safe]
  obtain ⟨⟨hp1, hp2⟩, he, hl, hj⟩ := h
  have hcount : m.hJoin.count .cancelled = 0 := List.count_eq_zero.mpr hnc
  have hent : m.entries - m.hLive = 0 := by
    rcases he with he | he
    · rw [hc] at he; exact absurd he (by decide)
    · omega
  match sched, hs with
  | [a1, a2, a3, a4, a5, a6, a7, a8], _ =>
    simp [Mgr.poll, Mgr.step, hph, safeFlags, ht, hc, hent, hnc]

/-! ### what goes wrong when a decision point is different (the defects repaired by the `fix:` commits,
and the naive repair that the existing test suite rejects) -/

def idleTorn : Mgr := ({} : Mgr).tearDown
def connected : Mgr := { hLive := 1, entries := 1 }

example : Good idleTorn := ⟨⟨by decide, by decide⟩, Or.inr (by decide), by decide, by decide⟩
example : Good connected := ⟨⟨by decide, by decide⟩, Or.inr (by decide), by decide, by decide⟩

/-- `accept() -> None` ignored: the poll never ends (every step leaves the state unchanged) -/
theorem spin_witness (n : Nat) :
    Mgr.poll { safeFlags with acceptNoneLeavesLoop := false } idleTorn (List.replicate n .accept) 0 = (.next idleTorn, n) := by
  have : ∀ k, Mgr.poll { safeFlags with acceptNoneLeavesLoop := false } idleTorn (List.replicate n .accept) k = (.next idleTorn, k + n) := by
    induction n with
    | zero => intro k; simp [Mgr.poll]
    | succ n ih =>
      intro k
      have hstep : idleTorn.step { safeFlags with acceptNoneLeavesLoop := false } .accept = .next idleTorn := by decide
      simp only [List.replicate_succ, Mgr.poll, hstep]
      rw [ih (k + 1)]
      congr 1; omega
  simpa using this 0

/-- join results unwrapped: teardown of a connected network panics -/
example : (Mgr.poll { safeFlags with joinPropagatesOnlyPanics := false } connected.tearDown [.handler] 0).1.isPanic = true := by decide

/-- assertion not waived: teardown while a connected network shuts down panics -/
example : (Mgr.poll { safeFlags with assertWaivedWhenCancelled := false }
    ({ connected with phase := .closeEndpoint } : Mgr).tearDown [.tick, .tick, .tick, .tick] 0).1.isPanic = true := by decide

/-- leaving the loop on `None` while `None` also stands for a refused incoming connection: anybody can
shut a node down with one bad packet (this is what `test_network_isolation` caught) -/
example : ({ refused := 1 } : Mgr).step { safeFlags with acceptNoneMeansClosed := false } .accept =
    .next { refused := 0, phase := .closeEndpoint } := by decide

/-- pending connections joined with their results inspected: a dial in flight at shutdown panics -/
example : (Mgr.poll { safeFlags with pendingShutdownTolerant := false }
    ({ phase := .closeEndpoint, pLive := 1 } : Mgr) [.tick, .tick] 0).1.isPanic = true := by decide

/-! ### the API after shutdown -/

/-- the first shutdown succeeds and leaves a closed network without peers -/
theorem C08_api_shutdown (s : Api) (h : s.closed = false) :
    s.call .shutdown = ({ closed := true, peers := 0 }, .ok) := by
  simp [Api.call, h]

/-- **every call issued after shutdown returns an error** (or the closed/empty answer), and the state
stays closed for every further sequence of calls -/
theorem C08_api_after_shutdown (s : Api) (h : s.closed = true) (c : Call) :
    (s.call c).1 = s ∧
    (s.call c).2 = (match c with
      | .peers => .num s.peers
      | .isClosed => .flag true
      | .upgrade => .flag false
      | _ => .err) := by
  cases c <;> simp [Api.call, h]

theorem C08_api_closed_forever (s : Api) (h : s.closed = true) (cs : List Call) : (s.run cs).1 = s := by
  induction cs with
  | nil => rfl
  | cons c cs ih =>
    have := (C08_api_after_shutdown s h c).1
    simp only [Api.run]
    rw [this]
    simpa using ih

/-- the answer every call gets on a closed network -/
def closedAnswer : Call → Res
  | .peers => .num 0
  | .isClosed => .flag true
  | .upgrade => .flag false
  | _ => .err

theorem run_append (s : Api) (a b : List Call) :
    s.run (a ++ b) = ((((s.run a).1).run b).1, (s.run a).2 ++ (((s.run a).1).run b).2) := by
  induction a generalizing s with
  | nil => simp [Api.run]
  | cons c cs ih => simp only [List.cons_append, Api.run]; rw [ih]

theorem run_closed (cs : List Call) :
    (({ closed := true, peers := 0 } : Api).run cs) = ({ closed := true, peers := 0 }, cs.map closedAnswer) := by
  induction cs with
  | nil => rfl
  | cons c cs ih =>
    simp only [Api.run, List.map_cons]
    have hc : ({ closed := true, peers := 0 } : Api).call c = ({ closed := true, peers := 0 }, closedAnswer c) := by
      cases c <;> rfl
    rw [hc]; simp only; rw [ih]

theorem run_open (s : Api) (pre : List Call) (hp : Call.shutdown ∉ pre) :
    (s.run pre).1 = s := by
  induction pre with
  | nil => rfl
  | cons c cs ih =>
    have hc : c ≠ .shutdown := fun e => hp (by simp [e])
    have hcs : Call.shutdown ∉ cs := fun e => hp (by simp [e])
    simp only [Api.run]
    have : (s.call c).1 = s := by cases c <;> first | rfl | exact absurd rfl hc
    rw [this]; exact ih hcs

/-- **Every history of API calls, any length**: from a running network, whatever was called before
the first `shutdown`, that shutdown succeeds, the network is then closed WITHOUT peers, and every later
call - in any number and order, further shutdowns included - gets the closed answer (error, closed,
no peers, no upgrade). -/
theorem C08_api_history (s : Api) (h : s.closed = false) (pre post : List Call) (hp : Call.shutdown ∉ pre) :
    (s.run (pre ++ .shutdown :: post)).1 = { closed := true, peers := 0 } ∧
    (s.run (pre ++ .shutdown :: post)).2 = (s.run pre).2 ++ Res.ok :: post.map closedAnswer := by
  rw [run_append, run_open s pre hp]
  simp only [Api.run, Api.call, h]
  simp [run_closed]

/-- at most one `shutdown` of a history is answered `ok` (the first), however many are issued and
from whichever state -/
theorem C08_api_one_shutdown_succeeds (s : Api) (cs : List Call) :
    ((cs.zip (s.run cs).2).filter (fun p => p.1 == .shutdown && p.2 == .ok)).length ≤ 1 ∧
    (s.closed = true → ((cs.zip (s.run cs).2).filter (fun p => p.1 == .shutdown && p.2 == .ok)).length = 0) := by
  induction cs generalizing s with
  | nil => simp [Api.run]
  | cons c cs ih =>
    simp only [Api.run, List.zip_cons_cons, List.filter_cons]
    cases hcl : s.closed with
    | true =>
      have h1 : (s.call c).1 = s := (C08_api_after_shutdown s hcl c).1
      have h2 : ((c == Call.shutdown) && ((s.call c).2 == Res.ok)) = false := by
        cases c <;> simp [Api.call, hcl]
      rw [h1, h2]
      have := (ih s).2 hcl
      simp [this]
    | false =>
      cases c with
      | shutdown =>
        have hc : s.call .shutdown = ({ closed := true, peers := 0 }, .ok) := by simp [Api.call, hcl]
        rw [hc]
        have := (ih { closed := true, peers := 0 }).2 rfl
        simp [this]
      | _ =>
        all_goals
          simp only [Api.call, hcl]
          have := (ih s).1
          simp at this ⊢
          try exact this

example : (({ peers := 3 } : Api).run [.peers, .rpc, .shutdown, .rpc, .shutdown, .peers, .upgrade]).2 =
    [.num 3, .ok, .ok, .err, .err, .num 0, .flag false] := by decide
end Anemo.Life

namespace Anemo
/-- **The API functions are the ones the lifecycle model was written for** (word for word, checked on this run): `connect` and `shutdown` hand their request to the manager with `send(..).await` (waiting for room in the mailbox, failing only when it is closed) and then await the reply; `disconnect`, `peers` go through the weak reference to the active set; `is_closed` is the mailbox being closed; `upgrade` refuses a closed network; `wait_idle` is bounded by the configured timeout. -/
theorem C08_api_is_pinned : Gen.netApiShapeChecked = true ∧ Gen.endpointShapeChecked = true := ⟨rfl, rfl⟩
end Anemo
