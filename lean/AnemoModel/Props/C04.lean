/-
C04 — At most one connection per peer; events are an exact change log.
Theorems over every operation sequence (any length, any peers) of the active-peer set model, under
the explicit domain guard that the connections offered to `add` are pairwise distinct and new
(`FreshOps`: a connection object is registered at most once -- the connection manager adds each
handshake result exactly once).  Subscribers are assumed not to lag behind the broadcast channel
capacity (a lagging receiver gets `Lagged(n)` instead of events; stated, not modelled).
-/
import AnemoModel.Lemmas.Peers
import AnemoModel.PeersGen
namespace Anemo
open Gen

/-- the hand-written tie-break is the one regenerated from the source on every run -/
theorem C04_tiebreak_is_source (own remote : PeerId) (e n : Origin) :
    tieBreak own remote e n = tieBreakGen own remote e n := by
  cases e <;> cases n <;> rfl

def FreshOps (s : Active) (ops : List Op) : Prop :=
  (addedIds ops).Nodup ∧ ∀ i ∈ addedIds ops, i ∉ s.added

theorem added_step (own : PeerId) (s : Active) (op : Op) :
    (s.step own op).added = s.added ++ addedIds [op] := by
  cases op with
  | add c =>
    simp only [Active.step, Active.add, addedIds]
    cases lookupConn s.conns c.peer with
    | none => rfl
    | some old => simp only; split <;> rfl
  | remove p r =>
    simp only [Active.step, Active.remove, addedIds, List.append_nil]
    cases lookupConn s.conns p <;> rfl
  | removeStable p id r =>
    simp only [Active.step, Active.removeStable, Active.remove, addedIds, List.append_nil]
    cases lookupConn s.conns p with
    | none => rfl
    | some c => simp only; split <;> rfl

theorem step_ok (own : PeerId) (s : Active) (op : Op) (h : s.Inv) (hf : FreshOps s [op]) :
    (s.step own op).Inv ∧ StepOk s (s.step own op) := by
  cases op with
  | add c => exact Active.add_ok own c s h (hf.2 c.id (by simp [addedIds]))
  | remove p r => exact Active.remove_ok p r s h
  | removeStable p id r => exact Active.removeStable_ok p id r s h

theorem freshOps_cons (own : PeerId) (s : Active) (op : Op) (ops : List Op) (hf : FreshOps s (op :: ops)) :
    FreshOps s [op] ∧ FreshOps (s.step own op) ops := by
  have hcons : addedIds (op :: ops) = addedIds [op] ++ addedIds ops := by
    cases op <;> simp [addedIds]
  obtain ⟨hnd, hnew⟩ := hf
  rw [hcons] at hnd hnew
  have ⟨h1, h2, h3⟩ := List.nodup_append.mp hnd
  refine ⟨⟨by simpa using h1, fun i hi => hnew i (List.mem_append_left _ (by simpa using hi))⟩, h2, ?_⟩
  intro i hi
  rw [added_step]
  simp only [List.mem_append, not_or]
  exact ⟨hnew i (List.mem_append_right _ hi), fun hx => h3 i hx i hi rfl⟩

/-- the invariant holds in every reachable state -/
theorem C04_inv_run (own : PeerId) (s : Active) (ops : List Op) (h : s.Inv) (hf : FreshOps s ops) :
    (s.run own ops).Inv := by
  induction ops generalizing s with
  | nil => exact h
  | cons op t ih =>
    have ⟨h1, h2⟩ := freshOps_cons own s op t hf
    exact ih _ (step_ok own s op h h1).1 h2

/-- at most one connection per remote identity: the listing has no duplicates -/
theorem C04_unique (own : PeerId) (ops : List Op) (hf : FreshOps {} ops) :
    (({} : Active).run own ops).peers.Nodup :=
  (C04_inv_run own {} ops Active.inv_init hf).nodup

/-- no listed peer's connection has been closed by the set -/
theorem C04_no_closed_listed (own : PeerId) (ops : List Op) (hf : FreshOps {} ops) :
    ∀ e ∈ (({} : Active).run own ops).conns, e.2.id ∉ (({} : Active).run own ops).closed :=
  (C04_inv_run own {} ops Active.inv_init hf).notClosed

/-- every connection ever offered is either the one listed for its peer or has been closed: nothing leaks -/
theorem C04_no_leak (own : PeerId) (ops : List Op) (hf : FreshOps {} ops) :
    ∀ i ∈ addedIds ops, i ∈ (({} : Active).run own ops).closed ∨
      ∃ e ∈ (({} : Active).run own ops).conns, e.2.id = i := by
  have hadd : ∀ (s : Active) (l : List Op), (s.run own l).added = s.added ++ addedIds l := by
    intro s l
    induction l generalizing s with
    | nil => simp [Active.run, addedIds]
    | cons op t ih =>
      have hcons : addedIds (op :: t) = addedIds [op] ++ addedIds t := by cases op <;> simp [addedIds]
      simp only [Active.run, List.foldl_cons] at ih ⊢
      rw [ih, added_step, hcons, List.append_assoc]
  intro i hi
  exact (C04_inv_run own {} ops Active.inv_init hf).noLeak i (by rw [hadd]; simpa using hi)

/-- an entry is stored under its own peer id -/
theorem C04_keyed (own : PeerId) (ops : List Op) (hf : FreshOps {} ops) :
    ∀ e ∈ (({} : Active).run own ops).conns, e.2.peer = e.1 :=
  (C04_inv_run own {} ops Active.inv_init hf).keyed

/-- each operation is one atomic step whose emitted events are exactly the change it made:
the log only grows, and replaying the new events over the old listing gives the new listing -/
theorem C04_atomic (own : PeerId) (s : Active) (op : Op) (h : s.Inv) (hf : FreshOps s [op]) :
    ∃ ev, (s.step own op).log = s.log ++ ev ∧ replayStrict s.peers ev = some (s.step own op).peers :=
  (step_ok own s op h hf).2.logExt

/-- exact change log: the listing at ANY earlier point (a subscription's snapshot) plus all the
events emitted since reproduces the current listing, and the replay never meets a NewPeer of a
listed peer or a LostPeer of an unlisted one -/
theorem C04_changelog (own : PeerId) (s : Active) (ops : List Op) (h : s.Inv) (hf : FreshOps s ops) :
    ∃ ev, (s.run own ops).log = s.log ++ ev ∧ replayStrict s.peers ev = some (s.run own ops).peers := by
  induction ops generalizing s with
  | nil => exact ⟨[], by simp [Active.run], by simp [Active.run, replayStrict]⟩
  | cons op t ih =>
    have ⟨h1, h2⟩ := freshOps_cons own s op t hf
    have ⟨hinv, hstep⟩ := step_ok own s op h h1
    obtain ⟨e1, hl1, hr1⟩ := hstep.logExt
    obtain ⟨e2, hl2, hr2⟩ := ih _ hinv h2
    refine ⟨e1 ++ e2, ?_, ?_⟩
    · simp only [Active.run, List.foldl_cons] at hl2 ⊢
      rw [hl2, hl1, List.append_assoc]
    · rw [replayStrict_append, hr1]
      simpa [Active.run] using hr2

/-- the same, phrased for a subscriber that joined after `ops1` -/
theorem C04_snapshot_plus_events (own : PeerId) (ops1 ops2 : List Op) (hf : FreshOps {} (ops1 ++ ops2)) :
    let s1 := ({} : Active).run own ops1
    let s2 := ({} : Active).run own (ops1 ++ ops2)
    replayStrict s1.peers (s2.log.drop s1.log.length) = some s2.peers := by
  simp only
  have hsplit : ∀ (s : Active) (l1 l2 : List Op), FreshOps s (l1 ++ l2) → FreshOps s l1 ∧ FreshOps (s.run own l1) l2 := by
    intro s l1
    induction l1 generalizing s with
    | nil => intro l2 h; exact ⟨⟨by simp [addedIds], by simp [addedIds]⟩, by simpa [Active.run] using h⟩
    | cons op t ih =>
      intro l2 h
      have ⟨h1, h2⟩ := freshOps_cons own s op (t ++ l2) h
      have ⟨h3, h4⟩ := ih (s.step own op) l2 h2
      refine ⟨?_, by simpa [Active.run] using h4⟩
      have hcons : addedIds (op :: t) = addedIds [op] ++ addedIds t := by cases op <;> simp [addedIds]
      have hcons2 : addedIds (op :: (t ++ l2)) = addedIds [op] ++ addedIds (t ++ l2) := by cases op <;> simp [addedIds]
      have happ : ∀ (a b : List Op), addedIds (a ++ b) = addedIds a ++ addedIds b := by
        intro a b
        induction a with
        | nil => rfl
        | cons x xs ihx => cases x <;> simp [addedIds, ihx]
      constructor
      · have := h.1
        rw [List.cons_append, hcons2, happ, ← List.append_assoc, ← hcons] at this
        exact (List.nodup_append.mp this).1
      · intro i hi
        apply h.2
        rw [List.cons_append, hcons2, happ, ← List.append_assoc, ← hcons]
        exact List.mem_append_left _ hi
  have ⟨hf1, hf2⟩ := hsplit {} ops1 ops2 hf
  have hinv1 := C04_inv_run own {} ops1 Active.inv_init hf1
  obtain ⟨ev, hl, hr⟩ := C04_changelog own _ ops2 hinv1 hf2
  have hrun : ({} : Active).run own (ops1 ++ ops2) = (({} : Active).run own ops1).run own ops2 := by
    simp [Active.run, List.foldl_append]
  rw [hrun, hl, List.drop_left]
  exact hr

/-- strict alternation per peer, spelled out: reading a peer's events in order, NewPeer comes only
when the peer is absent and LostPeer only when it is present -/
def alternates (p : PeerId) : Bool → List Event → Bool
  | _, [] => true
  | present, .newPeer q :: es => if q = p then (!present && alternates p true es) else alternates p present es
  | present, .lostPeer q _ :: es => if q = p then (present && alternates p false es) else alternates p present es

theorem alternates_of_replay (p : PeerId) (l l' : List PeerId) (es : List Event)
    (h : replayStrict l es = some l') : alternates p (decide (p ∈ l)) es = true := by
  induction es generalizing l with
  | nil => rfl
  | cons e t ih =>
    cases e with
    | newPeer q =>
      simp only [replayStrict] at h
      by_cases hq : q ∈ l
      · simp [hq] at h
      · simp only [hq, if_false] at h
        have := ih _ h
        by_cases hqp : q = p
        · subst hqp; simp [alternates, hq] at this ⊢; exact this
        · have hpq : p ≠ q := fun e => hqp e.symm
          have hm : decide (p ∈ l ++ [q]) = decide (p ∈ l) := by simp [hpq]
          simp only [alternates, hqp, if_false]
          rw [hm] at this; exact this
    | lostPeer q r =>
      simp only [replayStrict] at h
      by_cases hq : q ∈ l
      · simp only [hq, if_true] at h
        have := ih _ h
        by_cases hqp : q = p
        · subst hqp; simp [alternates, hq, List.mem_filter] at this ⊢; exact this
        · have hpq : p ≠ q := fun e => hqp e.symm
          have hm : decide (p ∈ l.filter (· ≠ q)) = decide (p ∈ l) := by simp [List.mem_filter, hpq]
          simp only [alternates, hqp, if_false]
          rw [hm] at this; exact this
      · simp [hq] at h

theorem C04_alternation (own : PeerId) (ops : List Op) (hf : FreshOps {} ops) (p : PeerId) :
    alternates p false (({} : Active).run own ops).log = true := by
  obtain ⟨ev, hl, hr⟩ := C04_changelog own {} ops Active.inv_init hf
  have : (({} : Active).run own ops).log = ev := by simpa using hl
  rw [this]
  simpa [Active.peers] using alternates_of_replay p [] _ ev (by simpa [Active.peers] using hr)

/-- the end of an older, replaced connection never removes or disturbs its replacement -/
theorem C04_stale_exit_ignored (s : Active) (p : PeerId) (c : Conn) (id : Nat) (r : Reason)
    (hl : lookupConn s.conns p = some c) (hne : c.id ≠ id) : s.removeStable p id r = s := by
  unfold Active.removeStable; rw [hl]; simp [hne]

theorem C04_exit_of_unlisted_ignored (s : Active) (p : PeerId) (id : Nat) (r : Reason)
    (hl : lookupConn s.conns p = none) : s.removeStable p id r = s := by
  unfold Active.removeStable; rw [hl]

/-- a replacement closes exactly the old connection and announces Lost then New -/
theorem C04_replace (own : PeerId) (s : Active) (c old : Conn)
    (hl : lookupConn s.conns c.peer = some old) (ht : tieBreak own c.peer old.origin c.origin = true) :
    (s.add own c).2 = true ∧ (s.add own c).1.closed = s.closed ++ [old.id] ∧
    (s.add own c).1.log = s.log ++ [.lostPeer c.peer .requested, .newPeer c.peer] ∧
    lookupConn (s.add own c).1.conns c.peer = some c := by
  unfold Active.add; rw [hl]; simp only; rw [if_pos ht]
  refine ⟨rfl, rfl, rfl, ?_⟩
  have : ∀ l : List (PeerId × Conn), (∀ e ∈ l, e.1 ≠ c.peer) → lookupConn (l ++ [(c.peer, c)]) c.peer = some c := by
    intro l hlne
    induction l with
    | nil => simp [lookupConn]
    | cons e t ih =>
      obtain ⟨q, c'⟩ := e
      have : q ≠ c.peer := hlne (q, c') (by simp)
      simp [lookupConn, this]
      exact ih (fun e he => hlne e (List.mem_cons_of_mem _ he))
  exact this _ (fun e he => ((mem_eraseConn _ _ _).mp he).2)

/-- losing the tie-break closes the new connection and changes nothing else that is visible -/
theorem C04_reject_new (own : PeerId) (s : Active) (c old : Conn)
    (hl : lookupConn s.conns c.peer = some old) (ht : tieBreak own c.peer old.origin c.origin = false) :
    (s.add own c).2 = false ∧ (s.add own c).1.conns = s.conns ∧ (s.add own c).1.log = s.log ∧
    (s.add own c).1.closed = s.closed ++ [c.id] := by
  unfold Active.add; rw [hl]; simp only; rw [if_neg (by simp [ht])]
  exact ⟨rfl, rfl, rfl, rfl⟩

/-! ### non-vacuity: a concrete history with a replacement, a stale exit, a disconnect -/
def exOps : List Op :=
  [.add ⟨1, 7, .inbound⟩, .add ⟨2, 9, .outbound⟩, .add ⟨3, 7, .inbound⟩, .removeStable 7 1 .applicationClosed,
   .remove 9 .requested, .add ⟨4, 9, .inbound⟩]

example : FreshOps {} exOps := ⟨by decide, by decide⟩
example : (({} : Active).run 5 exOps).peers = [7, 9] ∧ (({} : Active).run 5 exOps).closed = [1, 2] ∧
    (({} : Active).run 5 exOps).log =
      [.newPeer 7, .newPeer 9, .lostPeer 7 .requested, .newPeer 7, .lostPeer 9 .requested, .newPeer 9] := by decide


/-- **The model of `add` is the translation of the source**: running the effect lists that the
translator read off the arms of `ActivePeersInner::add` (with the translated tie-break) gives exactly
the hand-written `Active.add` - same entries, same events in the same order, same closed connections,
same result.  All theorems of C04, C05, C09 and C10 about `add` are therefore about the code as it is. -/
theorem C04_add_is_translated (own : PeerId) (c : Conn) (s : Active) :
    s.addGen own c = ((s.add own c).1, some (s.add own c).2) := by
  unfold Active.addGen Active.add
  cases hl : lookupConn s.conns c.peer with
  | none =>
    simp [runAddEffs, Gen.addVacantEffs, Gen.addTailEffs, eraseConn_none _ _ hl]
  | some old =>
    have ht : Gen.tieBreakGen own c.peer old.origin c.origin = tieBreak own c.peer old.origin c.origin := by
      cases old.origin <;> cases c.origin <;> rfl
    by_cases hb : tieBreak own c.peer old.origin c.origin = true
    · simp [runAddEffs, Gen.addWinEffs, Gen.addTailEffs, ht, hb]
    · simp [runAddEffs, Gen.addLoseEffs, Gen.addTailEffs, ht, hb]

/-- the shapes of `remove`, `remove_with_stable_id`, `subscribe` (one lock), the handler's exit (deregister by
stable id, before the tear-down of in-flight requests) and `try_peer_id` (first certificate) were recognised
by the translator on this run -/
theorem C04_registry_shape_checked : Gen.registryShapeChecked = true := rfl

/-- **The registry is keyed by the 32-byte identity** with the derived equality, hash and order of `PeerId`
(checked on this run): the model's `PeerId := Nat` read big-endian has the same equality and order. -/
theorem C04_identity_is_pinned : Gen.peerIdShapeChecked = true := rfl

end Anemo
