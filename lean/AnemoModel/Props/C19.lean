/-
C19 — Per-peer rate limit admits no more than the quota.
The limiter is governor 0.6's keyed GCRA (`Gcra.check`).  One clause of the property is FALSE of
it as it stands and is kept as a full statement with its negation proved by a concrete witness
(replayed against the real limiter by the check):
* `C19_window_bound` (admitted in any window ≤ burst + W/t): after an idle period the limiter admits
  burst + 1 requests at one instant (`C19_idle_burst_witness`).  Proved instead, for every history:
  ≤ burst + 1 + W/t (`C19_window_bound_partial`, tight), and ≤ burst + W/t for windows that start
  at a key's first-ever admission (`C19_window_bound_fresh`).
* the hint clause (`C19_hint_positive`) holds since the `fix:` commit that reads the clock before the
  check; `C19_hint_zero_if_clock_read_after` records why the original order (clock read after the
  check) produced zero hints.
-/
import AnemoModel.Tower
namespace Anemo

theorem check_admit_iff (g : Gcra) (st : Option Nat) (now : Nat) :
    (g.check st now).1 = true ↔ ¬ now < st.getD (now + g.t) - g.tau := by
  unfold Gcra.check; simp only; split <;> simp_all

/-- refused requests leave the limiter state untouched -/
theorem C19_refused_state_unchanged (g : Gcra) (st : Option Nat) (now : Nat)
    (h : (g.check st now).1 = false) : (g.check st now).2 = st := by
  unfold Gcra.check at h ⊢; simp only at h ⊢; split <;> simp_all

theorem check_admit_state (g : Gcra) (st : Option Nat) (now : Nat) (h : (g.check st now).1 = true) :
    (g.check st now).2 = some (max (st.getD (now + g.t)) now + g.t) ∧ st.getD (now + g.t) ≤ now + g.tau := by
  have hc := (check_admit_iff g st now).mp h
  unfold Gcra.check; simp only
  rw [if_neg hc]
  exact ⟨rfl, by omega⟩

/-- potential argument: from state `T`, with all calls no later than `E`, every admission pushes the
theoretical arrival time up by at least `t`, and it can never exceed `E + tau + t` -/
theorem runCount_potential (g : Gcra) (T E : Nat) (xs : List Nat) (hE : ∀ x ∈ xs, x ≤ E) :
    g.runCount (some T) xs * g.t + T ≤ max T (E + g.tau + g.t) := by
  induction xs generalizing T with
  | nil => simp [Gcra.runCount]; omega
  | cons x rest ih =>
    have hx : x ≤ E := hE x (by simp)
    have hrest : ∀ y ∈ rest, y ≤ E := fun y hy => hE y (by simp [hy])
    simp only [Gcra.runCount]
    cases hd : (g.check (some T) x).1 with
    | false =>
      rw [C19_refused_state_unchanged g (some T) x hd]
      simpa using ih T hrest
    | true =>
      have ⟨hs, hle⟩ := check_admit_state g (some T) x hd
      simp only [Option.getD_some] at hs hle
      rw [hs]
      have := ih (max T x + g.t) hrest
      simp only [if_true]
      have h1 : max T x + g.t ≤ E + g.tau + g.t := by omega
      rw [Nat.max_eq_right h1] at this
      have h2 : T + g.t ≤ max T x + g.t := by omega
      rw [Nat.add_mul]
      omega

theorem div_add_mul (W t b : Nat) (ht : 0 < t) : (W + t * b) / t = W / t + b := by
  rw [Nat.add_mul_div_left _ _ ht]

/-- PARTIAL (what holds for every history, any prior state of the key, any times inside the window):
the number of requests admitted during `[s, s+W]` is at most burst + 1 + ⌊W/t⌋ -/
theorem C19_window_bound_partial (g : Gcra) (ht : 0 < g.t) (st : Option Nat) (s W : Nat) (xs : List Nat)
    (hwin : ∀ x ∈ xs, s ≤ x ∧ x ≤ s + W) :
    g.runCount st xs ≤ g.burst + 1 + W / g.t := by
  induction xs generalizing st with
  | nil => simp [Gcra.runCount]
  | cons x rest ih =>
    have hx := hwin x (by simp)
    have hrest : ∀ y ∈ rest, s ≤ y ∧ y ≤ s + W := fun y hy => hwin y (by simp [hy])
    simp only [Gcra.runCount]
    cases hd : (g.check st x).1 with
    | false =>
      rw [C19_refused_state_unchanged g st x hd]
      simpa using ih st hrest
    | true =>
      have ⟨hs, hle⟩ := check_admit_state g st x hd
      rw [hs]
      simp only [if_true]
      have hpot := runCount_potential g (max (st.getD (x + g.t)) x + g.t) (s + W) rest (fun y hy => (hrest y hy).2)
      have h1 : max (st.getD (x + g.t)) x + g.t ≤ s + W + g.tau + g.t := by omega
      rw [Nat.max_eq_right h1] at hpot
      -- c' * t ≤ W + tau
      have h2 : g.runCount (some (max (st.getD (x + g.t)) x + g.t)) rest * g.t ≤ W + g.t * g.burst := by
        have : s + g.t ≤ max (st.getD (x + g.t)) x + g.t := by omega
        unfold Gcra.tau at hpot; omega
      have h3 : g.runCount (some (max (st.getD (x + g.t)) x + g.t)) rest ≤ (W + g.t * g.burst) / g.t := by
        rw [Nat.le_div_iff_mul_le ht]; exact h2
      rw [div_add_mul W g.t g.burst ht] at h3
      omega

/-- for a window that starts at the key's first-ever admission the bound of the property holds:
at most burst + ⌊W/t⌋ (needs a burst of at least one, as governor's quota type guarantees) -/
theorem C19_window_bound_fresh (g : Gcra) (ht : 0 < g.t) (hb : 1 ≤ g.burst) (x W : Nat) (rest : List Nat)
    (hwin : ∀ y ∈ rest, x ≤ y ∧ y ≤ x + W) :
    g.runCount none (x :: rest) ≤ g.burst + W / g.t := by
  simp only [Gcra.runCount]
  have hadm : (g.check none x).1 = true := by
    rw [check_admit_iff]; simp [Gcra.tau]
    have : g.t ≤ g.t * g.burst := Nat.le_mul_of_pos_right _ hb
    omega
  have ⟨hs, _⟩ := check_admit_state g none x hadm
  rw [hs, hadm]
  simp only [Option.getD_none, if_true]
  have hpot := runCount_potential g (max (x + g.t) x + g.t) (x + W) rest (fun y hy => (hwin y hy).2)
  have hm : max (x + g.t) x = x + g.t := by omega
  rw [hm] at hpot ⊢
  have htau : g.t ≤ g.tau := by unfold Gcra.tau; exact Nat.le_mul_of_pos_right _ hb
  have h1 : x + g.t + g.t ≤ x + W + g.tau + g.t := by omega
  rw [Nat.max_eq_right h1] at hpot
  have h2 : (g.runCount (some (x + g.t + g.t)) rest + 1) * g.t ≤ W + g.t * g.burst := by
    rw [Nat.add_mul]; unfold Gcra.tau at hpot htau; omega
  have h3 : g.runCount (some (x + g.t + g.t)) rest + 1 ≤ (W + g.t * g.burst) / g.t := by
    rw [Nat.le_div_iff_mul_le ht]; exact h2
  rw [div_add_mul W g.t g.burst ht] at h3
  omega

/-- FULL statement of the window clause of the property.  False, see the witness. -/
def C19_window_bound : Prop :=
  ∀ (g : Gcra) (st : Option Nat) (s W : Nat) (xs : List Nat), 0 < g.t → 1 ≤ g.burst →
    (∀ x ∈ xs, s ≤ x ∧ x ≤ s + W) → g.runCount st xs ≤ g.burst + W / g.t

/-- negation witness: quota 1 per 10 ns, burst 1, key last used long ago (tat = 20); two requests at
instant 100 are BOTH admitted: 2 > burst + 0 -/
theorem C19_idle_burst_witness : ¬ C19_window_bound := by
  intro h
  have := h ⟨10, 1⟩ (some 20) 100 0 [100, 100] (by decide) (by decide) (by decide)
  revert this; decide

/-- the partial bound is tight -/
theorem C19_window_bound_partial_tight :
    (⟨10, 1⟩ : Gcra).runCount (some 20) [100, 100] = 1 + 1 + 0 / 10 := by decide

/-- Block mode: waiting until the reported earliest instant is enough -- a check at that instant (or
later) is admitted, provided nobody else used the key meanwhile -/
theorem C19_block_waits_until_permitted (g : Gcra) (T now later : Nat)
    (hl : g.earliest (some T) now ≤ later) : (g.check (some T) later).1 = true := by
  rw [check_admit_iff]; unfold Gcra.earliest at hl; simp at hl ⊢; omega

/-- a refusal is never earlier than necessary: strictly before the earliest instant the key stays refused -/
theorem C19_refused_before_earliest (g : Gcra) (T now : Nat) (h : now < g.earliest (some T) now) :
    (g.check (some T) now).1 = false := by
  cases hc : (g.check (some T) now).1 with
  | false => rfl
  | true =>
    have := (check_admit_iff g (some T) now).mp hc
    unfold Gcra.earliest at h; simp at h this; omega

/-- quotas are per peer: a keyed limiter is a function from peers to states, and a check for one
peer reads and writes only that peer's state -/
def keyedCheck (g : Gcra) (states : Nat → Option Nat) (p now : Nat) : Bool × (Nat → Option Nat) :=
  let r := g.check (states p) now
  (r.1, fun q => if q = p then r.2 else states q)

theorem C19_per_peer (g : Gcra) (states : Nat → Option Nat) (p q now : Nat) (hq : q ≠ p) :
    (keyedCheck g states p now).2 q = states q ∧
    (keyedCheck g states p now).1 = (g.check (states p) now).1 := by
  simp [keyedCheck, hq]

/-- the layer: refused requests never reach the service -/
def rateCall (g : Gcra) (st : Option Nat) (now : Nat) (req : Nat) : Option Nat × List Nat :=
  if (g.check st now).1 then ((g.check st now).2, [req]) else (st, [])

theorem C19_refused_not_delivered (g : Gcra) (st : Option Nat) (now req : Nat)
    (h : (g.check st now).1 = false) : (rateCall g st now req).2 = [] := by
  simp [rateCall, h]

/-- the wait-nanos hint of a refusal is positive.  The layer reads the clock (`now'`) BEFORE it asks
the limiter, whose own reading `now` is therefore not earlier; the hint is `earliest - now'`. -/
theorem C19_hint_positive (g : Gcra) (st : Option Nat) (now now' : Nat) (hle : now' ≤ now)
    (h : (g.check st now).1 = false) : 0 < g.hint st now now' := by
  have : ¬ (g.check st now).1 = true := by simp [h]
  rw [check_admit_iff] at this
  unfold Gcra.hint Gcra.earliest
  omega

/-- why the order of the two clock reads matters (the defect repaired by the `fix:` commit in
rate_limit.rs): were the clock read AFTER the check, the hint could be zero -/
theorem C19_hint_zero_if_clock_read_after :
    ∃ (g : Gcra) (st : Option Nat) (now now' : Nat), now ≤ now' ∧ (g.check st now).1 = false ∧ g.hint st now now' = 0 :=
  ⟨⟨2, 1⟩, some 12, 9, 10, by decide, by decide, by decide⟩

/-- soundness of the interval acceptor used for the real-time correspondence: whenever the exact
limiter state lies in the tracked interval and the call happened inside `[a, b]`, the observed
decision is accepted and the new exact state lies in the new interval -/
theorem C19_accept_sound_some (g : Gcra) (lo hi tat a b now : Nat)
    (ht : lo ≤ tat ∧ tat ≤ hi) (hn : a ≤ now ∧ now ≤ b) :
    ∃ lo' hi', g.accept (some (lo, hi)) a b (g.check (some tat) now).1 = some (some (lo', hi')) ∧
      ∃ tat', (g.check (some tat) now).2 = some tat' ∧ lo' ≤ tat' ∧ tat' ≤ hi' := by
  cases hd : (g.check (some tat) now).1 with
  | true =>
    have ⟨hs, hle⟩ := check_admit_state g (some tat) now hd
    simp only [Option.getD_some] at hs hle
    refine ⟨max lo a + g.t, max (min hi (b + g.tau)) b + g.t, ?_, max tat now + g.t, hs, by omega, by omega⟩
    simp only [Gcra.accept, if_true]
    rw [if_pos (by omega)]
  | false =>
    have hst := C19_refused_state_unchanged g (some tat) now hd
    have hc : ¬ (g.check (some tat) now).1 = true := by simp [hd]
    rw [check_admit_iff] at hc
    simp only [Option.getD_some, Decidable.not_not] at hc
    refine ⟨max lo (a + g.tau + 1), hi, ?_, tat, hst, by omega, by omega⟩
    simp only [Gcra.accept, Bool.false_eq_true, if_false]
    rw [if_pos (by omega)]

theorem C19_accept_sound_fresh (g : Gcra) (hb : 1 ≤ g.burst) (a b now : Nat) (hn : a ≤ now ∧ now ≤ b) :
    (g.check none now).1 = true ∧
    ∃ tat', (g.check none now).2 = some tat' ∧
      g.accept none a b true = some (some (a + g.t + g.t, b + g.t + g.t)) ∧ a + g.t + g.t ≤ tat' ∧ tat' ≤ b + g.t + g.t := by
  have hadm : (g.check none now).1 = true := by
    rw [check_admit_iff]; simp [Gcra.tau]
    have : g.t ≤ g.t * g.burst := Nat.le_mul_of_pos_right _ hb
    omega
  have ⟨hs, _⟩ := check_admit_state g none now hadm
  simp only [Option.getD_none] at hs
  refine ⟨hadm, max (now + g.t) now + g.t, hs, by simp [Gcra.accept], by omega, by omega⟩

/-! non-vacuity -/
example : (⟨10, 3⟩ : Gcra).runCount none [0, 0, 0, 0, 5, 10, 10, 25] = 5 := by decide
example : (⟨10, 3⟩ : Gcra).runCount none [0, 0, 0, 0, 5, 10, 10, 25] ≤ 3 + 25 / 10 := by decide


/-- **The rate limiter the model describes is the one in the source** (read off anemo-tower on this run):
the decision (`until_key_ready` in Block mode, `check_key` in ReturnError mode) is taken for the
sender's full PeerId BEFORE the inner service is called; a refusal is TooManyRequests with the
`wait-nanos` header computed from a clock reading taken before the check; the inner service is called
once, after admission. -/
theorem C19_layer_is_translated :
    Gen.rateRefusalStatus = Gen.StatusCode.TooManyRequests ∧ Gen.towerShapeChecked = true := ⟨rfl, rfl⟩

/-- **"Per peer" means per 32-byte identity** (derived equality and hash of `PeerId`, checked on this run). -/
theorem C19_identity_is_pinned : Gen.peerIdShapeChecked = true := rfl

end Anemo
