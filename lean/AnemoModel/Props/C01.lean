/-
C01 — Peer identity is cryptographically authenticated.
Symbolic model (`Tls.lean`): a signature verifies under key k iff made with k's private key; the TLS
1.3 state machine (transcript binding, Finished) and X.509/DER parsing are trusted.  Within that
model the theorems hold for every certificate and handshake signature an adversary can assemble from
the keys it holds plus verbatim copies of honest certificates, in both roles, pinned or not.
-/
import AnemoModel.Tls
import AnemoModel.Props.C07
namespace Anemo

/-- listener: whoever is accepted as `k` presented a certificate self-signed by `k`, carrying `k` as
subject key, and proved possession of `k` in the handshake; all algorithms Ed25519 -/
theorem C01_attribution_server (accepted : List Name) (sni : Name) (c? : Option Cert) (hs : HsSig) (k : Key)
    (h : serverAccepts accepted sni c? hs = some k) :
    ∃ c, c? = some c ∧ c.spki = k ∧ c.signer = k ∧ hs.signer = k ∧
      c.spkiAlg = .ed25519 ∧ c.sigAlg = .ed25519 ∧ hs.alg = .ed25519 ∧ c.validNow = true := by
  unfold serverAccepts at h
  cases c? with
  | none => cases h
  | some c =>
    simp only at h
    split at h
    · rename_i hc
      injection h with h
      simp only [Bool.and_eq_true, certOk, hsOk, beq_iff_eq] at hc
      obtain ⟨⟨⟨_, ⟨⟨⟨⟨_, h2⟩, h3⟩, h4⟩, h5⟩⟩, _⟩, ⟨h6, h7⟩⟩ := hc
      exact ⟨c, rfl, h, by rw [h4, h], by rw [h7, h], h2, h3, h6, h5⟩
    · cases h

/-- dialer: the same, and the identity returned is the key of the certificate that was validated -/
theorem C01_attribution_client (own : List Name) (pin? : Option Key) (dialed : Name) (c : Cert) (hs : HsSig) (k : Key)
    (h : clientAccepts own pin? dialed c hs = some k) :
    c.spki = k ∧ c.signer = k ∧ hs.signer = k ∧ c.spkiAlg = .ed25519 ∧ c.sigAlg = .ed25519 ∧ hs.alg = .ed25519 := by
  unfold clientAccepts at h
  split at h
  · rename_i hc
    injection h with h
    simp only [Bool.and_eq_true, certOk, hsOk, beq_iff_eq] at hc
    obtain ⟨⟨⟨⟨_, _⟩, ⟨⟨⟨⟨_, h2⟩, h3⟩, h4⟩, _⟩⟩, _⟩, ⟨h6, h7⟩⟩ := hc
    exact ⟨h, by rw [h4, h], by rw [h7, h], h2, h3, h6⟩
  · cases h

/-- a party lacking the private key of X is never admitted as X by a listener, whatever certificate
it assembles (replayed, re-signed with its own key, any names, any validity) -/
theorem C01_no_impersonation_server (A : List Key) (accepted : List Name) (sni : Name) (c : Cert) (hs : HsSig) (X : Key)
    (hs_adv : advSig A hs) (h : serverAccepts accepted sni (some c) hs = some X) : X ∈ A := by
  obtain ⟨c', hc', _, _, hsig, _⟩ := C01_attribution_server accepted sni (some c) hs X h
  rw [← hsig]; exact hs_adv

/-- ... nor by a dialer, pinned or not -/
theorem C01_no_impersonation_client (A : List Key) (own : List Name) (pin? : Option Key) (dialed : Name) (c : Cert)
    (hs : HsSig) (X : Key) (hs_adv : advSig A hs) (h : clientAccepts own pin? dialed c hs = some X) : X ∈ A := by
  obtain ⟨_, _, hsig, _⟩ := C01_attribution_client own pin? dialed c hs X h
  rw [← hsig]; exact hs_adv

/-- replaying X's certificate without X's key fails: the handshake signature cannot be produced -/
theorem C01_replay_fails (A : List Key) (accepted : List Name) (sni n : Name) (X : Key) (hs : HsSig)
    (hX : X ∉ A) (hs_adv : advSig A hs) : serverAccepts accepted sni (some (honestCert X n)) hs = none := by
  cases h : serverAccepts accepted sni (some (honestCert X n)) hs with
  | none => rfl
  | some k =>
    have hk := C01_no_impersonation_server A accepted sni _ hs k hs_adv h
    obtain ⟨c, hc, hspki, _⟩ := C01_attribution_server accepted sni _ hs k h
    injection hc with hc; subst hc
    simp [honestCert] at hspki; subst hspki
    exact absurd hk hX

/-- a certificate with subject key X signed by the adversary's own key is rejected -/
theorem C01_resigned_fails (accepted : List Name) (sni : Name) (c : Cert) (hs : HsSig) (h : c.signer ≠ c.spki) :
    serverAccepts accepted sni (some c) hs = none := by
  cases hh : serverAccepts accepted sni (some c) hs with
  | none => rfl
  | some k =>
    obtain ⟨c', hc', h1, h2, _⟩ := C01_attribution_server accepted sni (some c) hs k hh
    injection hc' with hc'; subst hc'
    exact absurd (h2.trans h1.symm) h

/-- non-Ed25519 keys or signatures, expired or malformed certificates are rejected -/
theorem C01_bad_cert_rejected (accepted : List Name) (sni : Name) (c : Cert) (hs : HsSig)
    (h : c.spkiAlg ≠ .ed25519 ∨ c.sigAlg ≠ .ed25519 ∨ c.validNow = false ∨ c.wellFormed = false ∨ hs.alg ≠ .ed25519) :
    serverAccepts accepted sni (some c) hs = none := by
  unfold serverAccepts
  simp only
  split
  · rename_i hc
    simp only [Bool.and_eq_true, certOk, hsOk, beq_iff_eq] at hc
    obtain ⟨⟨⟨_, ⟨⟨⟨⟨h1, h2⟩, h3⟩, _⟩, h5⟩⟩, _⟩, ⟨h6, _⟩⟩ := hc
    rcases h with h | h | h | h | h
    · exact absurd h2 h
    · exact absurd h3 h
    · rw [h5] at h; cases h
    · rw [h1] at h; cases h
    · exact absurd h6 h
  · rfl

/-- presenting no client certificate is never enough -/
theorem C01_client_auth_mandatory (accepted : List Name) (sni : Name) (hs : HsSig) :
    serverAccepts accepted sni none hs = none := rfl

/-- the identity a handler sees on a request is the connection's authenticated identity: it is
attached after decoding and nothing decoded from the message can carry one (extensions never travel) -/
def deliverRequest (connPeer : Key) (max : Nat) (bytes : Bytes) : Option (Req × Key) :=
  match decodeRequest max bytes with
  | .ok (r, _) => some (r, connPeer)
  | .error _ => none

theorem C01_id_not_from_message (connPeer : Key) (max : Nat) (bytes : Bytes) (r : Req) (k : Key)
    (h : deliverRequest connPeer max bytes = some (r, k)) : k = connPeer ∧ r.ext = [] := by
  unfold deliverRequest at h
  cases hd : decodeRequest max bytes with
  | error e => rw [hd] at h; cases h
  | ok p =>
    obtain ⟨r', rest⟩ := p
    rw [hd] at h
    injection h with h; injection h with h1 h2
    subst h1 h2
    exact ⟨rfl, C07_decoded_extensions_empty_req max bytes r' rest hd⟩

/-! non-vacuity: an honest pair is accepted with the right identities -/
example : serverAccepts [[0x74]] [0x74] (some (honestCert 5 [0x74])) ⟨5, .ed25519⟩ = some 5 ∧
    clientAccepts [[0x74]] (some 7) [0x74] (honestCert 7 [0x54]) ⟨7, .ed25519⟩ = some 7 ∧
    serverAccepts [[0x74]] [0x74] (some (honestCert 5 [0x74])) ⟨6, .ed25519⟩ = none := by decide


/-- **The identity on a request and on a response is stamped from the connection**, after decoding, on both paths (read off the source on this run): `stampPeerId` follows `readRequest` in `do_handle`, `stampResponsePeerId` follows `readResponse` in `do_rpc`, and nothing read from the wire is consulted for it. -/
theorem C01_rpc_path_is_translated :
    Gen.serveStepsGen = [.readRequest, .stampPeerId, .stampOrigin, .stampRemoteAddr, .stampInbound,
                         .raceHandlerWithStop, .writeResponse, .finishSend, .awaitStopped, .returnOk] ∧
    Gen.callStepsGen = [.openBi, .frameSend, .frameRecv, .writeRequest, .finishSend, .readResponse,
                        .stampResponsePeerId, .returnResponse] ∧
    Gen.rpcPathShapeChecked = true := ⟨rfl, rfl, rfl⟩


/-- **The symbolic verifiers are the translation of the source**: the conjunction of what the statements
of `verify_client_cert`, `verify_server_cert` and the pinned `verify_server_cert` demand (read off
crypto.rs on this run, in order) is exactly what `serverAccepts` / `clientAccepts` demand of a
certificate; the three handshake-signature checks delegate to rustls with Ed25519 as the only scheme,
client authentication is offered and mandatory, the end-entity certificate is its own trust anchor,
and the identity is the Ed25519 key of its SubjectPublicKeyInfo (shapes recognised: `tlsShapeChecked`). -/
theorem C01_verifiers_are_translated (names : List Name) (dialed : Name) (p : Key) (c : Cert) :
    verifyClientCertGen names c = (certOk c && names.any (validFor c)) ∧
    verifyServerCertGen names dialed c = (names.contains dialed && certOk c && validFor c dialed) ∧
    verifyPinnedServerCertGen names dialed p c = (pinOk (some p) c && names.contains dialed && certOk c && validFor c dialed) ∧
    Gen.tlsShapeChecked = true := by
  obtain ⟨spki, spkiAlg, signer, sigAlg, ns, validNow, wf⟩ := c
  have hc : ([TlsStep.identityOfEndEntity, .pinMustMatch, .delegateToCertVerifier].contains TlsStep.delegateToCertVerifier) = true := by decide
  refine ⟨?_, ?_, ?_, rfl⟩
  · simp only [verifyClientCertGen, Gen.verifyClientCertGen, List.all_cons, List.all_nil, evalTlsStep, certOk]
    cases wf <;> cases validNow <;> cases spkiAlg <;> cases sigAlg <;> simp <;> (try (by_cases h2 : signer = spki <;> simp [h2]))
  · simp only [verifyServerCertGen, Gen.verifyServerCertGen, List.all_cons, List.all_nil, evalTlsStep, certOk]
    cases wf <;> cases validNow <;> cases (names.contains dialed) <;> cases spkiAlg <;> cases sigAlg <;> simp <;>
      (try (by_cases h2 : signer = spki <;> simp [h2]))
  · simp only [verifyPinnedServerCertGen, verifyServerCertGen, Gen.verifyPinnedServerCertGen, Gen.verifyServerCertGen,
      List.all_cons, List.all_nil, evalTlsStep, certOk, pinOk]
    rw [hc]
    cases wf <;> cases validNow <;> cases (names.contains dialed) <;> cases (validFor ⟨spki, spkiAlg, signer, sigAlg, ns, _, _⟩ dialed) <;> simp <;>
      cases spkiAlg <;> cases sigAlg <;> simp <;> (try (by_cases h1 : spki = p <;> by_cases h2 : signer = spki <;> simp [h1, h2]))

end Anemo

namespace Anemo

/-- one connection attempt against an honest endpoint, seen from that endpoint: somebody dials it
(hello name, certificate or none, transcript signature), or it dials somebody (with or without an
expected identity) and gets a certificate and a signature back -/
inductive Attempt where
  | inbound (sni : Name) (c? : Option Cert) (hs : HsSig)
  | outbound (pin? : Option Key) (dialed : Name) (c : Cert) (hs : HsSig)

def Attempt.sig : Attempt → HsSig
  | .inbound _ _ hs => hs
  | .outbound _ _ _ hs => hs

/-- the identity the endpoint attributes to the other end of an attempt, if it admits it -/
def Attempt.attributed (accepted own : List Name) : Attempt → Option Key
  | .inbound sni c? hs => serverAccepts accepted sni c? hs
  | .outbound pin? dialed c hs => clientAccepts own pin? dialed c hs

/-- every identity the endpoint ever attributes over a history of attempts -/
def attributedOver (accepted own : List Name) (h : List Attempt) : List Key :=
  h.filterMap (Attempt.attributed accepted own)

/-- **Over every history of connection attempts, in both directions, of any length**: a party (or
coalition) holding exactly the private keys `A` - replaying honest certificates, presenting forged or
malformed ones, dialling or being dialled, any number of times in any order - is only ever attributed
identities in `A`. So no `X ∉ A` is ever admitted, listed or attributed because of it. -/
theorem C01_history_no_impersonation (A : List Key) (accepted own : List Name) (h : List Attempt)
    (hadv : ∀ a ∈ h, advSig A a.sig) : ∀ k ∈ attributedOver accepted own h, k ∈ A := by
  intro k hk
  unfold attributedOver at hk
  obtain ⟨a, ha, hak⟩ := List.mem_filterMap.mp hk
  have hs := hadv a ha
  cases a with
  | inbound sni c? hs' =>
    cases c? with
    | none => simp [Attempt.attributed, serverAccepts] at hak
    | some c => exact C01_no_impersonation_server A accepted sni c hs' k hs hak
  | outbound pin? dialed c hs' => exact C01_no_impersonation_client A own pin? dialed c hs' k hs hak

/-- in particular an identity whose key the adversary lacks never appears, however the attempts are chosen -/
theorem C01_history_never_X (A : List Key) (X : Key) (hX : X ∉ A) (accepted own : List Name) (h : List Attempt)
    (hadv : ∀ a ∈ h, advSig A a.sig) : X ∉ attributedOver accepted own h :=
  fun hin => hX (C01_history_no_impersonation A accepted own h hadv X hin)

/-- non-vacuity: an adversary holding key 7 that replays the certificate of 9, forges one for 9 signed by
7, and finally connects honestly as 7 is attributed 7 once and 9 never -/
example : attributedOver [[0x61]] [[0x61]]
    [ .inbound [0x61] (some (honestCert 9 [0x61])) ⟨7, .ed25519⟩,
      .inbound [0x61] (some { honestCert 9 [0x61] with signer := 7 }) ⟨7, .ed25519⟩,
      .outbound (some 9) [0x61] (honestCert 9 [0x61]) ⟨7, .ed25519⟩,
      .inbound [0x61] (some (honestCert 7 [0x61])) ⟨7, .ed25519⟩ ] = [7] := by decide
end Anemo
