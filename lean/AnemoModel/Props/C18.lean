/-
C18 — Per-peer in-flight limit holds and never leaks capacity.
Invariants over EVERY history of arrivals, completions (successful or failed alike: the permit is
released when the inner future ends) and cancellations (the future is dropped while waiting or
running), any number of peers, any limit (including 0), both wait modes.
-/
import AnemoModel.Tower
namespace Anemo

/-! ### facts about `promote` -/
theorem promote_bound (limit : Nat) (running waiting : List Nat) (h : running.length ≤ limit) :
    (promote limit running waiting).1.running.length ≤ limit := by
  induction waiting generalizing running with
  | nil => simpa [promote]
  | cons w ws ih =>
    simp only [promote]
    split
    · exact ih _ (by simp; omega)
    · simpa

/-- work conserving: after promotion a waiter remains only if every slot is taken -/
theorem promote_full (limit : Nat) (running waiting : List Nat) :
    (promote limit running waiting).1.waiting ≠ [] → limit ≤ (promote limit running waiting).1.running.length := by
  induction waiting generalizing running with
  | nil => simp [promote]
  | cons w ws ih =>
    simp only [promote]
    split
    · exact ih _
    · intro _; simp; omega

theorem promote_members (limit : Nat) (running waiting : List Nat) (x : Nat) :
    (x ∈ (promote limit running waiting).1.running ∨ x ∈ (promote limit running waiting).1.waiting) ↔
      (x ∈ running ∨ x ∈ waiting) := by
  induction waiting generalizing running with
  | nil => simp [promote]
  | cons w ws ih =>
    simp only [promote]
    split
    · rw [ih]; simp [or_assoc]
    · exact Iff.rfl

/-- promotion is FIFO: the started requests are a prefix of the waiting queue, in order -/
theorem promote_fifo (limit : Nat) (running waiting : List Nat) :
    (promote limit running waiting).2 ++ (promote limit running waiting).1.waiting = waiting ∧
    (promote limit running waiting).1.running = running ++ (promote limit running waiting).2 := by
  induction waiting generalizing running with
  | nil => simp [promote]
  | cons w ws ih =>
    simp only [promote]
    split
    · have := ih (running ++ [w]); simp [this.1]; rw [this.2]; simp
    · simp

/-! ### the invariant -/
structure Inflight.Inv (s : Inflight) : Prop where
  bound : ∀ p, (s.peers p).running.length ≤ s.limit
  full : ∀ p, (s.peers p).waiting ≠ [] → s.limit ≤ (s.peers p).running.length
  noWaitIfReturnError : s.block = false → ∀ p, (s.peers p).waiting = []

theorem step_limit (s : Inflight) (op : IOp) : (s.step op).1.limit = s.limit ∧ (s.step op).1.block = s.block := by
  cases op with
  | arrive r p =>
    cases p with
    | none => simp [Inflight.step]
    | some p =>
      simp only [Inflight.step]
      split
      · simp [setPeer]
      · split <;> simp [setPeer]
  | finish r p => simp [Inflight.step, setPeer]
  | cancel r p => simp [Inflight.step, setPeer]

theorem step_inv (s : Inflight) (op : IOp) (h : s.Inv) : (s.step op).1.Inv := by
  cases op with
  | arrive r p =>
    cases p with
    | none => simpa [Inflight.step] using h
    | some p =>
      simp only [Inflight.step]
      by_cases hb : s.block = true
      · rw [if_pos hb]
        refine ⟨?_, ?_, ?_⟩
        · intro q; simp only [setPeer]
          by_cases hq : q = p
          · simp only [hq, if_true]; exact promote_bound _ _ _ (h.bound p)
          · simp only [hq, if_false]; exact h.bound q
        · intro q; simp only [setPeer]
          by_cases hq : q = p
          · simp only [hq, if_true]; exact promote_full _ _ _
          · simp only [hq, if_false]; exact h.full q
        · intro hf; simp [setPeer, hb] at hf
      · rw [if_neg hb]
        have hbf : s.block = false := by simpa using hb
        by_cases hl : (s.peers p).running.length < s.limit
        · rw [if_pos hl]
          refine ⟨?_, ?_, ?_⟩
          · intro q; simp only [setPeer]
            by_cases hq : q = p
            · simp only [hq, if_true, List.length_append, List.length_singleton]; omega
            · simp only [hq, if_false]; exact h.bound q
          · intro q; simp only [setPeer]
            by_cases hq : q = p
            · simp only [hq, if_true]; intro hw; exact absurd (h.noWaitIfReturnError hbf p) hw
            · simp only [hq, if_false]; exact h.full q
          · intro _ q; simp only [setPeer]
            by_cases hq : q = p
            · simp only [hq, if_true]; exact h.noWaitIfReturnError hbf p
            · simp only [hq, if_false]; exact h.noWaitIfReturnError hbf q
        · rw [if_neg hl]; exact h
  | finish r p | cancel r p =>
    simp only [Inflight.step]
    have hfl : ((s.peers p).running.filter (· ≠ r)).length ≤ s.limit :=
      Nat.le_trans (List.length_filter_le _ _) (h.bound p)
    refine ⟨?_, ?_, ?_⟩
    · intro q; simp only [setPeer]
      by_cases hq : q = p
      · simp only [hq, if_true]; exact promote_bound _ _ _ hfl
      · simp only [hq, if_false]; exact h.bound q
    · intro q; simp only [setPeer]
      by_cases hq : q = p
      · simp only [hq, if_true]; exact promote_full _ _ _
      · simp only [hq, if_false]; exact h.full q
    · intro hbf q; simp only [setPeer] at hbf ⊢
      by_cases hq : q = p
      · simp only [hq, if_true]
        have hw := h.noWaitIfReturnError hbf p
        rw [hw]; simp [promote]
      · simp only [hq, if_false]; exact h.noWaitIfReturnError hbf q

def Inflight.init (limit : Nat) (block : Bool) : Inflight := { limit := limit, block := block }

theorem init_inv (limit : Nat) (block : Bool) : (Inflight.init limit block).Inv :=
  ⟨by intro p; simp [Inflight.init], by intro p; simp [Inflight.init], by intro _ p; simp [Inflight.init]⟩

theorem run_inv (s : Inflight) (ops : List IOp) (h : s.Inv) : (s.run ops).Inv := by
  induction ops generalizing s with
  | nil => exact h
  | cons op t ih => exact ih _ (step_inv s op h)

theorem run_limit (s : Inflight) (ops : List IOp) : (s.run ops).limit = s.limit ∧ (s.run ops).block = s.block := by
  induction ops generalizing s with
  | nil => exact ⟨rfl, rfl⟩
  | cons op t ih =>
    have := ih (s.step op).1
    have h2 := step_limit s op
    exact ⟨this.1.trans h2.1, this.2.trans h2.2⟩

/-- at every instant, for every peer, the requests executing inside the wrapped service never exceed the maximum -/
theorem C18_bound (limit : Nat) (block : Bool) (ops : List IOp) (p : Nat) :
    (((Inflight.init limit block).run ops).peers p).running.length ≤ limit := by
  have := (run_inv _ ops (init_inv limit block)).bound p
  rwa [(run_limit _ ops).1] at this

/-- Block mode is work conserving: a request waits only while all of its peer's slots are taken
(so a waiter starts as soon as a slot frees), and waiters start in arrival order (`promote_fifo`) -/
theorem C18_block_progress (limit : Nat) (block : Bool) (ops : List IOp) (p : Nat) :
    (((Inflight.init limit block).run ops).peers p).waiting ≠ [] →
      (((Inflight.init limit block).run ops).peers p).running.length = limit := by
  intro hw
  have h := run_inv _ ops (init_inv limit block)
  have h1 := h.bound p
  have h2 := h.full p hw
  rw [(run_limit _ ops).1] at h1 h2
  have e : (Inflight.init limit block).limit = limit := rfl
  rw [e] at h1 h2
  omega

theorem C18_fifo (limit : Nat) (running waiting : List Nat) :
    (promote limit running waiting).2 ++ (promote limit running waiting).1.waiting = waiting :=
  (promote_fifo limit running waiting).1

/-- ReturnError mode: a request is refused exactly when all of its peer's slots are taken at arrival;
a refused request never runs and changes nothing; nobody ever waits -/
theorem C18_return_error_exact (s : Inflight) (h : s.Inv) (hb : s.block = false) (r p : Nat) :
    ((s.step (.arrive r (some p))).2.1 = .refused r ↔ (s.peers p).running.length = s.limit) ∧
    ((s.step (.arrive r (some p))).2.1 = .refused r → (s.step (.arrive r (some p))).1.peers = s.peers ∧ (s.step (.arrive r (some p))).2.2 = []) ∧
    ((s.peers p).running.length < s.limit → (s.step (.arrive r (some p))).2.1 = .started r ∧ (s.step (.arrive r (some p))).2.2 = [r]) := by
  have hbound := h.bound p
  have hstep : s.step (.arrive r (some p)) =
      if (s.peers p).running.length < s.limit then
        (setPeer s p { (s.peers p) with running := (s.peers p).running ++ [r] }, .started r, [r])
      else (s, .refused r, []) := by
    simp only [Inflight.step, hb, Bool.false_eq_true, if_false]
  rw [hstep]
  by_cases hl : (s.peers p).running.length < s.limit
  · rw [if_pos hl]
    refine ⟨⟨fun h => (by cases h), fun h => (by omega)⟩, fun h => (by cases h), fun _ => ⟨rfl, rfl⟩⟩
  · rw [if_neg hl]
    exact ⟨⟨fun _ => (by omega), fun _ => rfl⟩, fun _ => ⟨rfl, rfl⟩, fun h => absurd h hl⟩

/-- a request without an authenticated sender is answered with an internal error and never reaches the service -/
theorem C18_missing_peer (s : Inflight) (r : Nat) :
    s.step (.arrive r none) = (s, .noPeer r, []) := rfl

/-- one peer's traffic never touches another peer's slots -/
theorem C18_peer_isolation (s : Inflight) (op : IOp) (q : Nat)
    (hq : match op with | .arrive _ (some p) => q ≠ p | .arrive _ none => True | .finish _ p => q ≠ p | .cancel _ p => q ≠ p) :
    (s.step op).1.peers q = s.peers q := by
  cases op with
  | arrive r p =>
    cases p with
    | none => rfl
    | some p =>
      simp only at hq
      simp only [Inflight.step]
      split
      · simp [setPeer, hq]
      · split <;> simp [setPeer, hq]
  | finish r p => simp only at hq; simp [Inflight.step, setPeer, hq]
  | cancel r p => simp only at hq; simp [Inflight.step, setPeer, hq]

/-- a request that finishes, fails or is cancelled is gone from its peer's slots: its permit is free -/
theorem C18_end_frees (s : Inflight) (r p : Nat) :
    r ∉ ((s.step (.finish r p)).1.peers p).running ∧ r ∉ ((s.step (.finish r p)).1.peers p).waiting ∧
    r ∉ ((s.step (.cancel r p)).1.peers p).running ∧ r ∉ ((s.step (.cancel r p)).1.peers p).waiting := by
  have key : ∀ x, x ∈ (promote s.limit ((s.peers p).running.filter (· ≠ r)) ((s.peers p).waiting.filter (· ≠ r))).1.running ∨
      x ∈ (promote s.limit ((s.peers p).running.filter (· ≠ r)) ((s.peers p).waiting.filter (· ≠ r))).1.waiting → x ≠ r := by
    intro x hx
    rw [promote_members] at hx
    rcases hx with hx | hx <;> simpa using (List.mem_filter.mp hx).2
  simp only [Inflight.step, setPeer, if_true]
  exact ⟨fun h => key r (Or.inl h) rfl, fun h => key r (Or.inr h) rfl, fun h => key r (Or.inl h) rfl, fun h => key r (Or.inr h) rfl⟩

/-- no leak: whatever occupies or waits for a slot is a request that arrived and has not ended -/
theorem occupied_subset_pending (p : Nat) (s : Inflight) (ops : List IOp) (acc : List Nat)
    (h : ∀ x, (x ∈ (s.peers p).running ∨ x ∈ (s.peers p).waiting) → x ∈ acc) :
    ∀ x, (x ∈ ((s.run ops).peers p).running ∨ x ∈ ((s.run ops).peers p).waiting) → x ∈ pendingOf p s.block ops acc := by
  induction ops generalizing s acc with
  | nil => simpa [Inflight.run, pendingOf] using h
  | cons op t ih =>
    have hblk := (step_limit s op).2
    cases op with
    | arrive r q =>
      cases q with
      | none =>
        simp only [Inflight.run, List.foldl_cons, pendingOf]
        exact ih (s.step (.arrive r none)).1 acc (by simpa [Inflight.step] using h)
      | some q =>
        simp only [Inflight.run, List.foldl_cons, pendingOf]
        have := ih (s.step (.arrive r (some q))).1 (if q = p then acc ++ [r] else acc) ?_
        · rw [hblk] at this; exact this
        · intro x hx
          simp only [Inflight.step] at hx
          by_cases hqp : q = p
          · subst hqp
            simp only [if_true]
            split at hx
            · simp only [setPeer, if_true] at hx
              rw [promote_members] at hx
              rcases hx with hx | hx
              · exact List.mem_append_left _ (h x (Or.inl hx))
              · rcases List.mem_append.mp hx with hx | hx
                · exact List.mem_append_left _ (h x (Or.inr hx))
                · exact List.mem_append_right _ hx
            · split at hx
              · simp only [setPeer, if_true] at hx
                rcases hx with hx | hx
                · rcases List.mem_append.mp hx with hx | hx
                  · exact List.mem_append_left _ (h x (Or.inl hx))
                  · exact List.mem_append_right _ hx
                · exact List.mem_append_left _ (h x (Or.inr hx))
              · exact List.mem_append_left _ (h x hx)
          · have hpq : p ≠ q := fun e => hqp e.symm
            simp only [hqp, if_false]
            split at hx
            · simp only [setPeer, hpq, if_false] at hx; exact h x hx
            · split at hx
              · simp only [setPeer, hpq, if_false] at hx; exact h x hx
              · exact h x hx
    | finish r q | cancel r q =>
      simp only [Inflight.run, List.foldl_cons, pendingOf]
      first
      | (have := ih (s.step (.finish r q)).1 (if q = p then acc.filter (· ≠ r) else acc) ?_
         · rw [hblk] at this; exact this
         · intro x hx
           simp only [Inflight.step] at hx
           by_cases hqp : q = p
           · subst hqp
             simp only [if_true, setPeer] at hx ⊢
             rw [promote_members] at hx
             rcases hx with hx | hx
             · have := List.mem_filter.mp hx
               exact List.mem_filter.mpr ⟨h x (Or.inl this.1), this.2⟩
             · have := List.mem_filter.mp hx
               exact List.mem_filter.mpr ⟨h x (Or.inr this.1), this.2⟩
           · have hpq : p ≠ q := fun e => hqp e.symm
             simp only [hqp, if_false, setPeer, hpq] at hx ⊢
             exact h x hx)
      | (have := ih (s.step (.cancel r q)).1 (if q = p then acc.filter (· ≠ r) else acc) ?_
         · rw [hblk] at this; exact this
         · intro x hx
           simp only [Inflight.step] at hx
           by_cases hqp : q = p
           · subst hqp
             simp only [if_true, setPeer] at hx ⊢
             rw [promote_members] at hx
             rcases hx with hx | hx
             · have := List.mem_filter.mp hx
               exact List.mem_filter.mpr ⟨h x (Or.inl this.1), this.2⟩
             · have := List.mem_filter.mp hx
               exact List.mem_filter.mpr ⟨h x (Or.inr this.1), this.2⟩
           · have hpq : p ≠ q := fun e => hqp e.symm
             simp only [hqp, if_false, setPeer, hpq] at hx ⊢
             exact h x hx)

/-- capacity never leaks: once every request of a peer that arrived has finished, failed or been
cancelled, all of that peer's slots are free again and nobody waits -/
theorem C18_no_leak (limit : Nat) (block : Bool) (ops : List IOp) (p : Nat)
    (hall : pendingOf p block ops [] = []) :
    (((Inflight.init limit block).run ops).peers p).running = [] ∧
    (((Inflight.init limit block).run ops).peers p).waiting = [] := by
  have := occupied_subset_pending p (Inflight.init limit block) ops [] (by simp [Inflight.init])
  simp only [Inflight.init] at this hall ⊢
  rw [hall] at this
  constructor
  · apply List.eq_nil_iff_forall_not_mem.mpr; intro x hx; exact absurd (this x (Or.inl hx)) (by simp)
  · apply List.eq_nil_iff_forall_not_mem.mpr; intro x hx; exact absurd (this x (Or.inr hx)) (by simp)

/-- conservation: free permits + running = limit (permits are what the semaphore holds) -/
theorem C18_conservation (limit : Nat) (block : Bool) (ops : List IOp) (p : Nat) :
    (limit - (((Inflight.init limit block).run ops).peers p).running.length) +
      (((Inflight.init limit block).run ops).peers p).running.length = limit := by
  have := C18_bound limit block ops p; omega

/-! non-vacuity: limit 2, block mode, three arrivals, a finish promotes the waiter, a cancel frees the rest -/
example :
    let s := (Inflight.init 2 true).run [.arrive 1 (some 7), .arrive 2 (some 7), .arrive 3 (some 7), .arrive 4 (some 8)]
    (s.peers 7).running = [1, 2] ∧ (s.peers 7).waiting = [3] ∧ (s.peers 8).running = [4] ∧
    ((s.step (.finish 1 7)).1.peers 7).running = [2, 3] ∧ (s.step (.finish 1 7)).2.2 = [3] := by decide
example : pendingOf 7 true [.arrive 1 (some 7), .arrive 2 (some 7), .finish 1 7, .cancel 2 7] [] = [] := by decide


theorem pendingOf_append (p : Nat) (block : Bool) (a b : List IOp) (acc : List Nat) :
    pendingOf p block (a ++ b) acc = pendingOf p block b (pendingOf p block a acc) := by
  induction a generalizing acc with
  | nil => rfl
  | cons op t ih =>
    cases op with
    | arrive r q => cases q <;> simp [pendingOf, ih]
    | finish r q => simp [pendingOf, ih]
    | cancel r q => simp [pendingOf, ih]

/-- cancelling everything in `l` empties any accumulator whose members are all in `l` -/
theorem pendingOf_cancel_all (p : Nat) (block : Bool) (l acc : List Nat) (h : ∀ x ∈ acc, x ∈ l) :
    pendingOf p block (l.map (fun r => IOp.cancel r p)) acc = [] := by
  induction l generalizing acc with
  | nil =>
    simp only [List.map_nil, pendingOf]
    apply List.eq_nil_iff_forall_not_mem.mpr
    intro x hx; exact absurd (h x hx) (by simp)
  | cons r t ih =>
    simp only [List.map_cons, pendingOf, if_true]
    apply ih
    intro x hx
    have hm := List.mem_filter.mp hx
    have hne : x ≠ r := by simpa using hm.2
    rcases List.mem_cons.mp (h x hm.1) with e | e
    · exact absurd e hne
    · exact e

/-- **When a connection goes away its slots come back.**  Whatever happened before (any history, any
limit, either mode), once the connection handler has dropped the futures of all of the peer's requests
that are still pending -- which is what the end of a connection does (`inflight_requests.shutdown()`,
pinned by the translator) -- none of the peer's slots is taken and nobody waits: a peer that reconnects
finds its full quota. -/
theorem C18_connection_loss_frees (limit : Nat) (block : Bool) (ops : List IOp) (p : Nat) :
    let lost := (pendingOf p block ops []).map (fun r => IOp.cancel r p)
    (((Inflight.init limit block).run (ops ++ lost)).peers p).running = [] ∧
    (((Inflight.init limit block).run (ops ++ lost)).peers p).waiting = [] := by
  intro lost
  apply C18_no_leak
  rw [pendingOf_append]
  exact pendingOf_cancel_all p block _ _ (fun x hx => hx)

example : (((Inflight.init 1 true).run ([.arrive 1 (some 7), .arrive 2 (some 7)] ++ [.cancel 1 7, .cancel 2 7])).peers 7).running = [] := by decide

/-- **The in-flight limiter the model describes is the one in the source** (read off anemo-tower on this
run): one semaphore per sender created on first use with `max_inflight` permits; the permit is an RAII
guard held across `inner.call(req).await` (so completion, failure and cancellation all return it);
`Block` waits for a permit, `ReturnError` refuses with TooManyRequests when none is free; a request
without sender identity is refused with an internal error before anything else. -/
theorem C18_layer_is_translated :
    Gen.inflightRefusalStatus = Gen.StatusCode.TooManyRequests ∧ Gen.towerShapeChecked = true := ⟨rfl, rfl⟩

/-- **"Per peer" means per 32-byte identity** (derived equality and hash of `PeerId`, checked on this run), and
the slot of a request that is cancelled is freed because its future is dropped: by the layer when the
caller goes away, and by the connection handler (translator items `rpcpath`, `registry`: the handler
is raced against the caller's stop signal; in-flight request tasks are shut down when the connection
ends) when the connection does. -/
theorem C18_identity_is_pinned : Gen.peerIdShapeChecked = true ∧ Gen.rpcPathShapeChecked = true := ⟨rfl, rfl⟩

end Anemo
