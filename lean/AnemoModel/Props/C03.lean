/-
C03 — Dialing with an expected identity only ever reaches that identity.
Pin logic over the symbolic TLS model, plus the ordering of the post-TLS ack protocol: the listener
registers the dialer only after the dialer consumed the ack, and the dialer's connect() reports
success only after it registered the listener.
-/
import AnemoModel.Props.C01
import AnemoModel.Props.C14
namespace Anemo

/-- a dial naming the identity it expects succeeds only with exactly that identity ... -/
theorem C03_pin_sound (own : List Name) (X : Key) (dialed : Name) (c : Cert) (hs : HsSig) (k : Key)
    (h : clientAccepts own (some X) dialed c hs = some k) : k = X := by
  unfold clientAccepts at h
  split at h
  · rename_i hc
    injection h with h
    simp only [Bool.and_eq_true, pinOk, beq_iff_eq] at hc
    exact h.symm.trans hc.1.1.1.1.2
  · cases h

/-- ... and only if the endpoint reached holds that identity's private key (an impostor replaying the
expected certificate, or presenting any certificate it can assemble, fails) -/
theorem C03_reaches_key_holder (A : List Key) (own : List Name) (X : Key) (dialed : Name) (c : Cert) (hs : HsSig) (k : Key)
    (hs_adv : advSig A hs) (h : clientAccepts own (some X) dialed c hs = some k) : X ∈ A := by
  have hk := C03_pin_sound own X dialed c hs k h
  subst hk
  exact C01_no_impersonation_client A own (some k) dialed c hs k hs_adv h

/-- any successful dial (pinned or not) returns the identity of the party actually reached -/
theorem C03_returns_party_reached (own : List Name) (pin? : Option Key) (dialed : Name) (c : Cert) (hs : HsSig) (k : Key)
    (h : clientAccepts own pin? dialed c hs = some k) : hs.signer = k :=
  (C01_attribution_client own pin? dialed c hs k h).2.2.1

/-- a mismatching certificate key is refused before anything else is looked at -/
theorem C03_mismatch_refused (own : List Name) (X : Key) (dialed : Name) (c : Cert) (hs : HsSig) (h : c.spki ≠ X) :
    clientAccepts own (some X) dialed c hs = none := by
  cases hh : clientAccepts own (some X) dialed c hs with
  | none => rfl
  | some k =>
    have h1 := C03_pin_sound own X dialed c hs k hh
    have h2 := (C01_attribution_client own (some X) dialed c hs k hh).1
    exact absurd (h2.trans h1) h

/-! ### ordering of the ack protocol -/

theorem validRun_requires (pinOk : Bool) (done l1 l2 : List DialEv) (e : DialEv)
    (h : validRun pinOk done (l1 ++ e :: l2) = true) : ∀ r ∈ e.requires, r ∈ done ++ l1 := by
  induction l1 generalizing done with
  | nil =>
    simp only [List.nil_append, validRun, Bool.and_eq_true, List.all_eq_true, decide_eq_true_eq] at h
    intro r hr; simpa using h.1.1.1 r hr
  | cons x t ih =>
    simp only [List.cons_append, validRun, Bool.and_eq_true] at h
    intro r hr
    have := ih (done ++ [x]) h.2 r hr
    simpa [List.append_assoc] using this

theorem validRun_no_dTls (done run : List DialEv) (h : validRun false done run = true) : DialEv.dTls ∉ run := by
  induction run generalizing done with
  | nil => simp
  | cons x t ih =>
    simp only [validRun, Bool.and_eq_true, Bool.false_or, bne_iff_ne, ne_eq] at h
    intro hm
    rcases List.mem_cons.mp hm with e | e
    · exact h.1.2 e.symm
    · exact ih _ h.2 e

/-- on a pin mismatch the dialer aborts inside TLS: the listener's handshake never completes and
neither side ever registers, announces or serves the other because of this dial -/
theorem C03_no_side_effects_on_mismatch (run : List DialEv) (h : validRun false [] run = true) :
    DialEv.lTls ∉ run ∧ DialEv.lRegister ∉ run ∧ DialEv.dRegister ∉ run ∧ DialEv.dReply ∉ run := by
  have hno := validRun_no_dTls [] run h
  have step : ∀ (e r : DialEv), r ∈ e.requires → r ∉ run → e ∉ run := by
    intro e r hr hnr hm
    obtain ⟨l1, l2, rfl⟩ := List.append_of_mem hm
    have := validRun_requires false [] l1 l2 e h r hr
    simp at this
    exact hnr (List.mem_append_left _ this)
  have h1 : DialEv.lTls ∉ run := step .lTls .dTls (by decide) hno
  have h2 : DialEv.lAdmit ∉ run := step .lAdmit .lTls (by decide) h1
  have h3 : DialEv.lSendAck ∉ run := step .lSendAck .lAdmit (by decide) h2
  have h4 : DialEv.dReadAck ∉ run := step .dReadAck .lSendAck (by decide) h3
  have h5 : DialEv.lStopped ∉ run := step .lStopped .dReadAck (by decide) h4
  have h6 : DialEv.lRegister ∉ run := step .lRegister .lStopped (by decide) h5
  have h7 : DialEv.dRegister ∉ run := step .dRegister .dReadAck (by decide) h4
  have h8 : DialEv.dReply ∉ run := step .dReply .dRegister (by decide) h7
  exact ⟨h1, h6, h7, h8⟩

/-- in every run the listener registers the dialer only after the dialer has consumed the ack
(so a dialer that rejects the listener is never listed by it) -/
theorem C03_listener_registers_after_dialer (pinOk : Bool) (l1 l2 : List DialEv)
    (h : validRun pinOk [] (l1 ++ DialEv.lRegister :: l2) = true) : DialEv.dReadAck ∈ l1 := by
  have h1 : DialEv.lStopped ∈ l1 := by simpa using validRun_requires pinOk [] l1 l2 .lRegister h .lStopped (by decide)
  obtain ⟨a, b, rfl⟩ := List.append_of_mem h1
  have h2 := validRun_requires pinOk [] a (b ++ DialEv.lRegister :: l2) .lStopped (by simpa [List.append_assoc] using h) .dReadAck (by decide)
  simp at h2
  exact List.mem_append_left _ h2

/-- a successful dial returns only after the party is in the caller's connected set -/
theorem C03_result_in_set (pinOk : Bool) (l1 l2 : List DialEv)
    (h : validRun pinOk [] (l1 ++ DialEv.dReply :: l2) = true) : DialEv.dRegister ∈ l1 := by
  simpa using validRun_requires pinOk [] l1 l2 .dReply h .dRegister (by decide)

/-! non-vacuity: the honest run is valid; the mismatch run stops before anything is registered -/
example : validRun true [] [.dTls, .lTls, .lAdmit, .lSendAck, .dReadAck, .dRegister, .dReply, .lStopped, .lRegister] = true := by decide
example : validRun false [] [.dTls] = false := by decide


/-- **The symbolic verifiers are the translation of the source**: the conjunction of what the statements
of `verify_client_cert`, `verify_server_cert` and the pinned `verify_server_cert` demand (read off
crypto.rs on this run, in order) is exactly what `serverAccepts` / `clientAccepts` demand of a
certificate; the three handshake-signature checks delegate to rustls with Ed25519 as the only scheme,
client authentication is offered and mandatory, the end-entity certificate is its own trust anchor,
and the identity is the Ed25519 key of its SubjectPublicKeyInfo (shapes recognised: `tlsShapeChecked`). -/
theorem C03_verifiers_are_translated (names : List Name) (dialed : Name) (p : Key) (c : Cert) :
    verifyClientCertGen names c = (certOk c && names.any (validFor c)) ∧
    verifyServerCertGen names dialed c = (names.contains dialed && certOk c && validFor c dialed) ∧
    verifyPinnedServerCertGen names dialed p c = (pinOk (some p) c && names.contains dialed && certOk c && validFor c dialed) ∧
    Gen.tlsShapeChecked = true := by
  obtain ⟨spki, spkiAlg, signer, sigAlg, ns, validNow, wf⟩ := c
  have hc : ([TlsStep.identityOfEndEntity, .pinMustMatch, .delegateToCertVerifier].contains TlsStep.delegateToCertVerifier) = true := by decide
  refine ⟨?_, ?_, ?_, rfl⟩
  · simp only [verifyClientCertGen, Gen.verifyClientCertGen, List.all_cons, List.all_nil, evalTlsStep, certOk]
    cases wf <;> cases validNow <;> cases spkiAlg <;> cases sigAlg <;> simp <;> (try (by_cases h2 : signer = spki <;> simp [h2]))
  · simp only [verifyServerCertGen, Gen.verifyServerCertGen, List.all_cons, List.all_nil, evalTlsStep, certOk]
    cases wf <;> cases validNow <;> cases (names.contains dialed) <;> cases spkiAlg <;> cases sigAlg <;> simp <;>
      (try (by_cases h2 : signer = spki <;> simp [h2]))
  · simp only [verifyPinnedServerCertGen, verifyServerCertGen, Gen.verifyPinnedServerCertGen, Gen.verifyServerCertGen,
      List.all_cons, List.all_nil, evalTlsStep, certOk, pinOk]
    rw [hc]
    cases wf <;> cases validNow <;> cases (names.contains dialed) <;> cases (validFor ⟨spki, spkiAlg, signer, sigAlg, ns, _, _⟩ dialed) <;> simp <;>
      cases spkiAlg <;> cases sigAlg <;> simp <;> (try (by_cases h1 : spki = p <;> by_cases h2 : signer = spki <;> simp [h1, h2]))

end Anemo

namespace Anemo
/-- **The dial path and the pinned client configuration are the ones the event-order model was written for** (word for word, checked on this run): `dial_peer_task` (connect with the pinned configuration when an identity is named, then the acknowledgement), `handle_connecting_result` (register, then answer the caller with the connection's identity; answer the error otherwise), `add_peer`, and `client_config_with_expected_server_identity` (a fresh configuration per dial whose verifier carries the named identity). -/
theorem C03_dial_path_is_pinned : Gen.dialingShapeChecked = true ∧ Gen.tlsConfigShapeChecked = true := ⟨rfl, rfl⟩
end Anemo

namespace Anemo

/-- **A pinned dial is the plain dial gated by the key, nothing more, nothing less**: against an honest
listener holding `kl`, dialling with expected identity `X` gives exactly what the un-pinned dial gives
when `X = kl`, and fails when `X ≠ kl` - the pin neither admits anything the plain dial refuses nor
refuses the right party (so `C03_pin_sound` is not vacuous: the right party IS reached). -/
theorem C03_pin_iff (d l : EndpointNames) (kd kl X : Key) :
    honestConnect d kd l kl (some X) = if X = kl then honestConnect d kd l kl none else none := by
  unfold honestConnect
  cases hf : l.accepted.find? (dnsEq d.primary) with
  | none => simp
  | some served =>
    by_cases hx : X = kl
    · subst hx
      simp [clientAccepts, pinOk, honestCert]
    · have hx' : ¬ kl = X := fun e => hx e.symm
      simp [clientAccepts, pinOk, honestCert, hx, hx']

/-- the identities a successful pinned dial produces: the dialer gets `X` itself, the listener the dialer's key -/
theorem C03_pinned_result (d l : EndpointNames) (kd kl X : Key) (r : Key × Key)
    (h : honestConnect d kd l kl (some X) = some r) : X = kl ∧ r = (kd, X) := by
  rw [C03_pin_iff] at h
  by_cases hx : X = kl
  · subst hx
    simp at h
    exact ⟨rfl, C14_connect_ids d l kd X r h⟩
  · simp [hx] at h

example : honestConnect ⟨[0x61], none⟩ 1 ⟨[0x61], none⟩ 2 (some 2) = some (1, 2) ∧
    honestConnect ⟨[0x61], none⟩ 1 ⟨[0x61], none⟩ 2 (some 3) = none := by decide
end Anemo
