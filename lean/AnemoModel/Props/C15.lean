/-
C15 — Message size limits are exact, symmetric and confined to the RPC.
The limit that governs a frame is `effMax cfg = min (cfg.getD 8 MiB) (2^32-1)`: with no maximum
configured tokio-util's builder default of 8 MiB applies.  The property's last clause ("with no
maximum configured, no size limit is imposed") is therefore FALSE of the code as it stands; the
full statement is kept below as `C15_no_limit_when_unset`, its negation is proved with a concrete
witness (`C15_default_limit_witness`, replayed on the implementation by the check) and the part
that does hold is `C15_no_limit_when_unset_partial`.
-/
import AnemoModel.Lemmas.Rpc
import AnemoModel.Props.C07
namespace Anemo
open Gen

/-! ### sender side: refused before the oversized frame is written, exactly above the limit -/

theorem C15_send_exact (max : Nat) (ver : Version) (hdr body : Bytes) :
    (writeMsg max ver hdr body).2 = none ↔ hdr.length ≤ max ∧ body.length ≤ max := by
  unfold writeMsg
  by_cases h1 : hdr.length ≤ max
  · rw [frame_ok _ _ h1]
    by_cases h2 : body.length ≤ max
    · rw [frame_ok _ _ h2]; simp [h1, h2]
    · rw [frame_err _ _ (by omega)]; simp [h2]
  · rw [frame_err _ _ (by omega)]; simp [h1]

/-- complete description of what the writer puts on the stream -/
theorem C15_write_eq (max : Nat) (ver : Version) (hdr body : Bytes) :
    writeMsg max ver hdr body =
      if hdr.length ≤ max then
        if body.length ≤ max then
          (preamble ver ++ (be32 hdr.length ++ hdr) ++ (be32 body.length ++ body), none)
        else (preamble ver ++ (be32 hdr.length ++ hdr), some .frameTooBig)
      else (preamble ver, some .frameTooBig) := by
  unfold writeMsg
  by_cases h1 : hdr.length ≤ max
  · rw [frame_ok _ _ h1, if_pos h1]
    by_cases h2 : body.length ≤ max
    · rw [frame_ok _ _ h2, if_pos h2]
    · rw [frame_err _ _ (by omega), if_neg h2]
  · rw [frame_err _ _ (by omega), if_neg h1]

theorem C15_encodeRequest_eq (max : Nat) (r : Req) :
    encodeRequest max r =
      if (encReqHeader r).length ≤ max ∧ r.body.length ≤ max then
        .ok (preamble r.version ++ (be32 (encReqHeader r).length ++ encReqHeader r) ++ (be32 r.body.length ++ r.body))
      else .error .frameTooBig := by
  unfold encodeRequest writeRequest
  rw [C15_write_eq]
  by_cases h1 : (encReqHeader r).length ≤ max <;> by_cases h2 : r.body.length ≤ max <;> simp [h1, h2]

theorem C15_encodeResponse_eq (max : Nat) (r : Resp) :
    encodeResponse max r =
      if (encRespHeader r).length ≤ max ∧ r.body.length ≤ max then
        .ok (preamble r.version ++ (be32 (encRespHeader r).length ++ encRespHeader r) ++ (be32 r.body.length ++ r.body))
      else .error .frameTooBig := by
  unfold encodeResponse writeResponse
  rw [C15_write_eq]
  by_cases h1 : (encRespHeader r).length ≤ max <;> by_cases h2 : r.body.length ≤ max <;> simp [h1, h2]

/-! ### receiver side: refused on arrival, exactly above the local limit, whatever the sender allowed -/

theorem C15_recv_exact_request (wmax max : Nat) (r : Req) (bytes rest : Bytes)
    (hwmax : wmax ≤ lenFieldMax) (hmax : max ≤ lenFieldMax) (hwf : ReqWF r)
    (henc : encodeRequest wmax r = .ok bytes) :
    decodeRequest max (bytes ++ rest) =
      if (encReqHeader r).length ≤ max ∧ r.body.length ≤ max then
        .ok ({ route := r.route, headers := normHeaders r.headers, body := r.body, version := r.version, ext := [] }, rest)
      else .error .frameTooBig := by
  have hw : writeMsg wmax r.version (encReqHeader r) r.body = (bytes, none) := by
    unfold encodeRequest writeRequest at henc
    cases hw : writeMsg wmax r.version (encReqHeader r) r.body with
    | mk bs e => rw [hw] at henc; cases e <;> simp at henc; subst henc; rfl
  obtain ⟨h1, _, _⟩ := (writeMsg_ok_iff _ _ _ _ _).mp hw
  have hl4 := lenFieldMax_lt
  have hp := parseReqHeader_enc r hwf.1 hwf.2 (by omega)
  have := decodeMsg_written parseReqHeader _ wmax max r.version _ r.body bytes rest hwmax hmax hw
    (C07_preamble_roundtrip r.version) hp
  unfold decodeRequest
  rw [this]
  by_cases hc : (encReqHeader r).length ≤ max ∧ r.body.length ≤ max
  · rw [if_pos hc, if_pos hc]
  · rw [if_neg hc, if_neg hc]

theorem C15_recv_exact_response (wmax max : Nat) (r : Resp) (bytes rest : Bytes)
    (hwmax : wmax ≤ lenFieldMax) (hmax : max ≤ lenFieldMax) (hwf : RespWF r)
    (henc : encodeResponse wmax r = .ok bytes) :
    decodeResponse max (bytes ++ rest) =
      if (encRespHeader r).length ≤ max ∧ r.body.length ≤ max then
        .ok ({ status := r.status, headers := normHeaders r.headers, body := r.body, version := r.version, ext := [] }, rest)
      else .error .frameTooBig := by
  have hw : writeMsg wmax r.version (encRespHeader r) r.body = (bytes, none) := by
    unfold encodeResponse writeResponse at henc
    cases hw : writeMsg wmax r.version (encRespHeader r) r.body with
    | mk bs e => rw [hw] at henc; cases e <;> simp at henc; subst henc; rfl
  obtain ⟨h1, _, _⟩ := (writeMsg_ok_iff _ _ _ _ _).mp hw
  have hl4 := lenFieldMax_lt
  have hp := parseRespHeader_enc r hwf (C07_status_table_fwd r.status) (C07_status_fits_u16 r.status) (by omega)
  have := decodeMsg_written parseRespHeader _ wmax max r.version _ r.body bytes rest hwmax hmax hw
    (C07_preamble_roundtrip r.version) hp
  unfold decodeResponse
  rw [this]
  by_cases hc : (encRespHeader r).length ≤ max ∧ r.body.length ≤ max
  · rw [if_pos hc, if_pos hc]
  · rw [if_neg hc, if_neg hc]

/-- anything up to and including the maximum is delivered intact (boundary case `= max` included) -/
theorem C15_intact_up_to_max (max : Nat) (r : Req) (hmax : max ≤ lenFieldMax) (hwf : ReqWF r)
    (hh : (encReqHeader r).length ≤ max) (hb : r.body.length = max) :
    ∃ bytes, encodeRequest max r = .ok bytes ∧
      decodeRequest max bytes = .ok ({ route := r.route, headers := normHeaders r.headers, body := r.body,
                                       version := r.version, ext := [] }, []) := by
  have henc := C15_encodeRequest_eq max r
  rw [if_pos ⟨hh, by omega⟩] at henc
  refine ⟨_, henc, ?_⟩
  have := C15_recv_exact_request max max r _ [] hmax hmax hwf henc
  rw [if_pos ⟨hh, by omega⟩, List.append_nil] at this
  exact this

/-! ### the whole RPC: error for exactly the RPCs with an oversized frame in either direction -/

def reqDelivered (r : Req) : Req :=
  { route := r.route, headers := normHeaders r.headers, body := r.body, version := r.version, ext := [] }
def respDelivered (r : Resp) : Resp :=
  { status := r.status, headers := normHeaders r.headers, body := r.body, version := r.version, ext := [] }

theorem C15_rpc_outcome (cm sm : Nat) (req : Req) (handler : Req → Resp)
    (hcm : cm ≤ lenFieldMax) (hsm : sm ≤ lenFieldMax) (hwf : ReqWF req)
    (hwfr : RespWF (handler (reqDelivered req))) :
    rpcRoundTrip cm sm req handler =
      let resp := handler (reqDelivered req)
      if ¬ ((encReqHeader req).length ≤ cm ∧ req.body.length ≤ cm) then .error (.callerSend .frameTooBig)
      else if ¬ ((encReqHeader req).length ≤ sm ∧ req.body.length ≤ sm) then .error (.calleeRecv .frameTooBig)
      else if ¬ ((encRespHeader resp).length ≤ sm ∧ resp.body.length ≤ sm) then .error (.calleeSend .frameTooBig)
      else if ¬ ((encRespHeader resp).length ≤ cm ∧ resp.body.length ≤ cm) then .error (.callerRecv .frameTooBig)
      else .ok (respDelivered resp) := by
  simp only
  by_cases h1 : (encReqHeader req).length ≤ cm ∧ req.body.length ≤ cm
  · have e1 := C15_encodeRequest_eq cm req
    rw [if_pos h1] at e1
    rw [if_neg (fun h => h h1)]
    have d1 := C15_recv_exact_request cm sm req _ [] hcm hsm hwf e1
    rw [List.append_nil] at d1
    by_cases h2 : (encReqHeader req).length ≤ sm ∧ req.body.length ≤ sm
    · rw [if_pos h2] at d1
      rw [if_neg (fun h => h h2)]
      by_cases h3 : (encRespHeader (handler (reqDelivered req))).length ≤ sm ∧ (handler (reqDelivered req)).body.length ≤ sm
      · have e2 := C15_encodeResponse_eq sm (handler (reqDelivered req))
        rw [if_pos h3] at e2
        rw [if_neg (fun h => h h3)]
        have d2 := C15_recv_exact_response sm cm (handler (reqDelivered req)) _ [] hsm hcm hwfr e2
        rw [List.append_nil] at d2
        by_cases h4 : (encRespHeader (handler (reqDelivered req))).length ≤ cm ∧ (handler (reqDelivered req)).body.length ≤ cm
        · rw [if_pos h4] at d2
          rw [if_neg (fun h => h h4)]
          exact rpc_ok cm sm req handler _ _ _ _ _ _ e1 d1 e2 d2
        · rw [if_neg h4] at d2
          rw [if_pos h4]
          exact rpc_err4 cm sm req handler _ _ _ _ _ e1 d1 e2 d2
      · have e2 := C15_encodeResponse_eq sm (handler (reqDelivered req))
        rw [if_neg h3] at e2
        rw [if_pos h3]
        exact rpc_err3 cm sm req handler _ _ _ _ e1 d1 e2
    · rw [if_neg h2] at d1
      rw [if_pos h2]
      exact rpc_err2 cm sm req handler _ _ e1 d1
  · have e1 := C15_encodeRequest_eq cm req
    rw [if_neg h1] at e1
    rw [if_pos h1]
    exact rpc_err1 cm sm req handler _ e1

/-- success exactly when all four frames fit under both limits -/
theorem C15_rpc_ok_iff (cm sm : Nat) (req : Req) (handler : Req → Resp)
    (hcm : cm ≤ lenFieldMax) (hsm : sm ≤ lenFieldMax) (hwf : ReqWF req)
    (hwfr : RespWF (handler (reqDelivered req))) :
    (∃ r, rpcRoundTrip cm sm req handler = .ok r) ↔
      (encReqHeader req).length ≤ min cm sm ∧ req.body.length ≤ min cm sm ∧
      (encRespHeader (handler (reqDelivered req))).length ≤ min cm sm ∧
      (handler (reqDelivered req)).body.length ≤ min cm sm := by
  rw [C15_rpc_outcome cm sm req handler hcm hsm hwf hwfr]
  simp only
  constructor
  · rintro ⟨r, h⟩
    split at h
    · cases h
    · split at h
      · cases h
      · split at h
        · cases h
        · split at h
          · cases h
          · rename_i a b c d
            simp only [Decidable.not_not] at a b c d
            omega
  · intro h
    refine ⟨respDelivered (handler (reqDelivered req)), ?_⟩
    rw [if_neg (by simp; omega), if_neg (by simp; omega), if_neg (by simp; omega), if_neg (by simp; omega)]

/-- the length-only outcome function used by the line protocol agrees with the byte-level model -/
theorem C15_size_outcome_agrees (cm sm : Nat) (req : Req) (handler : Req → Resp)
    (hcm : cm ≤ lenFieldMax) (hsm : sm ≤ lenFieldMax) (hwf : ReqWF req)
    (hwfr : RespWF (handler (reqDelivered req))) :
    (rpcSizeOutcome cm sm (encReqHeader req).length req.body.length
        (encRespHeader (handler (reqDelivered req))).length (handler (reqDelivered req)).body.length = .ok)
      ↔ ∃ r, rpcRoundTrip cm sm req handler = .ok r := by
  rw [C15_rpc_ok_iff cm sm req handler hcm hsm hwf hwfr]
  unfold rpcSizeOutcome
  constructor
  · intro h
    split at h
    · cases h
    · split at h
      · cases h
      · split at h
        · cases h
        · split at h
          · cases h
          · omega
  · intro h
    rw [if_neg (by omega), if_neg (by omega), if_neg (by omega), if_neg (by omega)]

/-- the length-only writer used by the line protocol agrees with the byte-level writer -/
theorem C15_size_write_agrees (max : Nat) (ver : Version) (hdr body : Bytes) :
    ((writeMsg max ver hdr body).1.length, (writeMsg max ver hdr body).2.isNone) =
      sizeWrite max hdr.length body.length := by
  rw [C15_write_eq]
  unfold sizeWrite
  have hp := preamble_length ver
  by_cases h1 : hdr.length ≤ max
  · by_cases h2 : body.length ≤ max
    · simp [h1, h2, hp]; omega
    · simp [h1, h2, hp]
  · simp [h1, hp]

/-- the length-only reader agrees with the byte-level reader on what an (unlimited) sender wrote -/
theorem C15_size_read_agrees (wmax max : Nat) (r : Req) (bytes : Bytes)
    (hwmax : wmax ≤ lenFieldMax) (hmax : max ≤ lenFieldMax) (hwf : ReqWF r)
    (henc : encodeRequest wmax r = .ok bytes) :
    (∃ x, decodeRequest max bytes = .ok x) ↔ sizeRead max (encReqHeader r).length r.body.length = true := by
  have := C15_recv_exact_request wmax max r bytes [] hwmax hmax hwf henc
  rw [List.append_nil] at this
  rw [this]
  unfold sizeRead
  by_cases hc : (encReqHeader r).length ≤ max ∧ r.body.length ≤ max
  · rw [if_pos hc]; simp [hc.1, hc.2]
  · rw [if_neg hc]
    constructor
    · rintro ⟨x, hx⟩; cases hx
    · intro h; simp at h; exact absurd h hc

/-! ### the default when no maximum is configured -/

/-- FULL statement of the last clause of the property (no limit when unset).  False, see below. -/
def C15_no_limit_when_unset : Prop :=
  ∀ body : Bytes, body.length ≤ lenFieldMax → ∃ bs, frame (effMax none) body = .ok bs

/-- negation witness: a body of 8 MiB + 1 bytes is refused although no maximum is configured -/
theorem C15_default_limit_witness : ¬ C15_no_limit_when_unset := by
  intro h
  have key : ∀ n, n = 8 * 1024 * 1024 + 1 → False := by
    intro n hn
    obtain ⟨bs, hbs⟩ := h (List.replicate n 0) (by rw [List.length_replicate, hn]; decide)
    unfold frame at hbs
    rw [List.length_replicate, if_pos (by rw [hn]; decide)] at hbs
    cases hbs
  exact key _ rfl

theorem C15_no_limit_when_unset_partial (body : Bytes) (h : body.length ≤ 8 * 1024 * 1024) :
    ∃ bs, frame (effMax none) body = .ok bs := by
  refine ⟨_, frame_ok _ _ ?_⟩
  have : effMax none = 8 * 1024 * 1024 := by decide
  omega

theorem C15_effMax_le (cfg : Option Nat) : effMax cfg ≤ lenFieldMax := by
  unfold effMax; omega

theorem C15_effMax_some (n : Nat) (h : n ≤ lenFieldMax) : effMax (some n) = n := by
  unfold effMax; simp; omega

/-! ### non-vacuity -/
example : rpcSizeOutcome 10 10 10 10 10 10 = .ok ∧ rpcSizeOutcome 10 10 11 0 0 0 = .callerSend ∧
    rpcSizeOutcome 100 10 11 0 0 0 = .calleeRecv ∧ rpcSizeOutcome 100 10 0 0 0 11 = .calleeSend ∧
    rpcSizeOutcome 10 100 0 0 11 0 = .callerRecv := by decide


/-- **The framing the model describes is the one the source performs**, read off wire.rs on this run:
writing = version frame, then ONE length-delimited frame holding the bincode (fixed-int) serialisation
of the raw header (`route, headers` / `status, headers`, in that order; extensions are dropped), then
ONE frame holding the body; reading = version frame, header frame or "unexpected EOF", bincode
deserialisation, header conversion (the status code is checked), body frame or "unexpected EOF".
Shapes recognised (`wireShapeChecked`): the version frame (`anemo`, u16 big-endian, a zero byte;
read with `read_exact`), the codec (4-byte big-endian length, `max_frame_length` only when configured),
the connection handshake (the listener sends, the dialer reads), the raw header structs and their
conversions (names and values copied as they are, extensions start empty). -/
theorem C15_framing_is_translated :
    Gen.writeRequestGen = [.versionFrame, .splitParts, .rawHeader, .newBuffer, .bincodeFixintHeader, .sendHeaderFrame, .sendBodyFrame, .returnOk] ∧
    Gen.writeResponseGen = [.versionFrame, .splitParts, .rawHeaderDropExtensions, .newBuffer, .bincodeFixintHeader, .sendHeaderFrame, .sendBodyFrame, .returnOk] ∧
    Gen.readRequestGen = [.versionFrame, .recvHeaderFrameOrEof, .bincodeFixintHeader, .headerFromRaw, .recvBodyFrameOrEof, .assemble, .returnMessage] ∧
    Gen.readResponseGen = [.versionFrame, .recvHeaderFrameOrEof, .bincodeFixintHeader, .headerFromRawChecked, .recvBodyFrameOrEof, .assemble, .returnMessage] ∧
    Gen.wireShapeChecked = true := ⟨rfl, rfl, rfl, rfl, rfl⟩

end Anemo
