/-
C06 — A connected hostile peer cannot crash or stall the network.
What is proved is confinement and totality in the model of the serving code: whatever a peer does
on one stream (any bytes, FIN, RESET, STOP at any point) changes only that stream's machine; the
decoders are total functions, so every byte string leads to a reply, a wait for more bytes or a
clean end of that stream -- the model has no "panic" outcome to reach; unidirectional streams and
datagrams change nothing; only a connection-level error ends the connection loop.
Panic-freedom of the Rust code and of third-party parsers is NOT proved: it is exercised by the
byte-level fuzz stream (shared with C07) and by hostile raw-QUIC sessions on the fabric.
-/
import AnemoModel.Props.C02
import AnemoModel.Lemmas.Peers
namespace Anemo
open Gen

/-- whatever happens on stream `s`, every other stream is untouched -/
theorem C06_confined (max : Nat) (c : ConnState) (s : Nat) (hostile : List SrvEvent) (j : Nat) (hj : j ≠ s) :
    (Conn.run max c (hostile.map fun e => (s, e))).streams j = c.streams j := by
  rw [C02_isolation]
  have : (List.filter (fun x => decide (x.1 = j)) (hostile.map fun e => (s, e))) = [] := by
    apply List.filter_eq_nil_iff.mpr
    intro x hx
    obtain ⟨e, _, rfl⟩ := List.mem_map.mp hx
    have hne : ¬ s = j := fun h => hj h.symm
    simp [hne]
  rw [this]; rfl

/-- honest traffic on other streams proceeds exactly as if the hostile stream did not exist:
interleave the two event lists in any way -/
theorem C06_honest_unaffected (max : Nat) (c : ConnState) (evs : List (Nat × SrvEvent)) (s j : Nat) (hj : j ≠ s) :
    (Conn.run max c evs).streams j = (Conn.run max c (evs.filter (fun x => x.1 ≠ s))).streams j := by
  rw [C02_isolation, C02_isolation, List.filter_filter]
  have : evs.filter (fun x => decide (x.1 = j)) = evs.filter (fun x => decide (x.1 = j) && decide (x.1 ≠ s)) := by
    apply List.filter_congr
    intro x _
    by_cases h : x.1 = j
    · simp [h, hj]
    · simp [h]
  rw [this]

/-- a garbage / malformed / oversized request never reaches a handler and ends only its own stream -/
theorem C06_malformed_local (max : Nat) (sched : Bool) (buf bs : Bytes) (sp : Bool) (e : WireErr)
    (hd : decodeRequest max (buf ++ bs) = .error e) (hn : e.needsMore = false) :
    Srv.step max sched (.reading buf sp) (.data bs) = (.over, [.resetSend, .ended false]) := by
  simp [Srv.step, hd, hn]

/-- a truncated request (FIN or RESET before it is complete) never reaches a handler -/
theorem C06_truncated_local (max : Nat) (sched : Bool) (buf : Bytes) (sp : Bool) :
    Srv.step max sched (.reading buf sp) .fin = (.over, [.resetSend, .ended false]) ∧
    Srv.step max sched (.reading buf sp) .reset = (.over, [.resetSend, .ended false]) := ⟨rfl, rfl⟩

/-- an oversized frame is one of the immediate, stream-local errors -/
theorem C06_oversize_local : WireErr.needsMore .frameTooBig = false ∧ WireErr.needsMore .badHeader = false ∧
    WireErr.needsMore .badPreamble = false ∧ (∀ v, WireErr.needsMore (.badVersion v) = false) := ⟨rfl, rfl, rfl, fun _ => rfl⟩

/-- unidirectional streams, datagrams, new request streams and finished request tasks never end the
connection loop; only a connection error does -/
theorem C06_uni_dgram_ignored (evs : List LoopEvent) (h : ∀ e ∈ evs, e ≠ .connError) :
    evs.foldl Loop.step .serving = .serving := by
  induction evs with
  | nil => rfl
  | cons e t ih =>
    have he : e ≠ .connError := h e (by simp)
    have : Loop.step .serving e = .serving := by cases e <;> first | rfl | exact absurd rfl he
    simp only [List.foldl_cons, this]
    exact ih (fun x hx => h x (by simp [hx]))

/-- after any hostile event sequence the stream machine is in one of its four phases and has emitted
at most one invocation: there is nothing else it can do (totality by construction) -/
theorem C06_total (max : Nat) (sched : Bool) (es : List SrvEvent) :
    ((Srv.run max sched (.reading [] false) es).2.filter isInvoke).length ≤ 1 :=
  C02_at_most_once max sched _ es


/-- the actions on stream `j` are the same with and without everything that happens on stream `s` -/
theorem C06_honest_actions_unaffected (max : Nat) (c : ConnState) (evs : List (Nat × SrvEvent)) (s j : Nat) (hj : j ≠ s) :
    ((Conn.trace max c evs).filter (fun x => x.1 = j)).map (·.2) =
    ((Conn.trace max c (evs.filter (fun x => x.1 ≠ s))).filter (fun x => x.1 = j)).map (·.2) := by
  apply C02_no_swap
  rw [List.filter_filter]
  apply List.filter_congr
  intro x _
  by_cases h : x.1 = j
  · simp [h, hj]
  · simp [h]

/-- **Peer isolation of the registry**: after ANY history of registry operations -- connections of a
hostile peer arriving, replacing each other, ending abruptly, in any interleaving with everybody
else's -- the entry of peer `q` is the one reached by the operations about `q` alone. -/
theorem C06_registry_isolation (own : PeerId) (ops : List Op) (s s' : Active) (q : PeerId)
    (hs : lookupConn s.conns q = lookupConn s'.conns q) :
    lookupConn (s.run own ops).conns q = lookupConn (s'.run own (ops.filter (fun o => o.peer = q))).conns q :=
  Active.run_lookup_project own ops s s' q hs

/-- **... and so are the events**: the subscriber sees, about peer `q`, exactly the events the operations
about `q` alone would have produced -- a hostile peer cannot fabricate, suppress or reorder them. -/
theorem C06_events_isolation (own : PeerId) (ops : List Op) (s s' : Active) (q : PeerId)
    (hs : lookupConn s.conns q = lookupConn s'.conns q) (hl : eventsOf q s.log = eventsOf q s'.log) :
    eventsOf q (s.run own ops).log = eventsOf q (s'.run own (ops.filter (fun o => o.peer = q))).log := by
  induction ops generalizing s s' with
  | nil => simpa [Active.run] using hl
  | cons op t ih =>
    by_cases h : op.peer = q
    · simp only [Active.run, List.foldl_cons, List.filter_cons, h, decide_true, if_true]
      exact ih _ _ (step_lookup_same own s s' op q h hs) (step_log_same own s s' op q hs hl h)
    · simp only [Active.run, List.foldl_cons, List.filter_cons, h, decide_false]
      exact ih _ _ (by rw [step_lookup_ne own s op q h]; exact hs) (by rw [step_log_ne own s op q h]; exact hl)

/-! non-vacuity: a hostile peer 9 connects, is replaced, drops; peer 3's entry and events are those of its own history -/
example :
    let ops : List Op := [.add ⟨1, 3, .inbound⟩, .add ⟨2, 9, .inbound⟩, .add ⟨3, 9, .inbound⟩, .removeStable 9 3 .reset, .remove 9 .requested]
    lookupConn (Active.run 5 {} ops).conns 3 = some ⟨1, 3, .inbound⟩ ∧ eventsOf 3 (Active.run 5 {} ops).log = [.newPeer 3] := by decide

/-- **What a hostile peer can reach is the per-stream sequence** the confinement theorems are about (read off the source on this run): one task per bidirectional stream running read - stamp - serve raced with stop - write - finish - wait; unidirectional streams are dropped, datagrams ignored. -/
theorem C06_rpc_path_is_translated :
    Gen.serveStepsGen = [.readRequest, .stampPeerId, .stampOrigin, .stampRemoteAddr, .stampInbound,
                         .raceHandlerWithStop, .writeResponse, .finishSend, .awaitStopped, .returnOk] ∧
    Gen.callStepsGen = [.openBi, .frameSend, .frameRecv, .writeRequest, .finishSend, .readResponse,
                        .stampResponsePeerId, .returnResponse] ∧
    Gen.rpcPathShapeChecked = true := ⟨rfl, rfl, rfl⟩

end Anemo
