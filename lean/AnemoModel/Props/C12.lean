/-
C12 — Abandoned RPCs are cancelled remotely and leak nothing.
Abandoning a call drops its future: the SendStream wrapper resets the request direction if it was
not finished, and dropping the RecvStream stops the response direction (`abandonSignals`).  Proved
over the serving machine: whatever phase it is in when those signals arrive, it ends (`over`), a
running handler is dropped at that very step, a request that was not complete never reaches a
handler, and nothing on other streams changes.  Stream credit is conserved by open/close pairs.
That QUIC actually delivers RESET/STOP and returns stream credit is trusted and exercised by long
abandon histories on the fabric.
-/
import AnemoModel.Props.C02
namespace Anemo
open Gen

/-- a handler that is running when the caller abandons is dropped at once, not run to completion -/
theorem C12_handler_dropped (max : Nat) (sched : Bool) :
    Srv.step max sched .handling .stopSending = (.over, [.dropHandler, .resetSend, .ended false]) := rfl

/-- abandoning while the request is still being transmitted: the handler is never started -/
theorem C12_abandon_while_sending (max : Nat) (sched : Bool) (buf : Bytes) (sp : Bool) (rest : List SrvEvent) :
    (Srv.run max sched (.reading buf sp) (abandonSignals .sending ++ rest)).1 = .over ∧
    ((Srv.run max sched (.reading buf sp) (abandonSignals .sending ++ rest)).2.filter isInvoke) = [] := by
  have h1 : Srv.step max sched (.reading buf sp) .reset = (.over, [.resetSend, .ended false]) := rfl
  have hrun : Srv.run max sched (.reading buf sp) (abandonSignals .sending ++ rest) = (.over, [.resetSend, .ended false]) := by
    simp only [abandonSignals, List.cons_append, List.nil_append]
    rw [Srv.run, h1, srv_over_run]
    rfl
  rw [hrun]
  exact ⟨rfl, by simp [List.filter, isInvoke]⟩

/-- abandoning after the request was sent, in whatever phase the server is: it ends, and if the
handler had started it is dropped (or had already answered) -/
theorem C12_abandon_while_awaiting (max : Nat) (sched : Bool) :
    (Srv.step max sched .handling .stopSending).1 = .over ∧
    (Srv.step max sched .flushing .stopSending).1 = .over ∧
    (∀ buf, (Srv.step max sched (.reading buf false) .stopSending).1 = .reading buf true) := by
  refine ⟨?_, ?_, ?_⟩
  · rfl
  · rfl
  · intro buf; rfl

/-- ... and if the stop signal overtook the last request bytes, the handler is dropped as soon as the
request completes (started at most once, never left running) -/
theorem C12_stop_before_complete (max : Nat) (sched : Bool) (buf bs : Bytes) (r : Req) (rest : Bytes)
    (hd : decodeRequest max (buf ++ bs) = .ok (r, rest)) :
    (Srv.step max sched (.reading buf true) (.data bs)).1 = .over ∧
    (∀ a ∈ (Srv.step max sched (.reading buf true) (.data bs)).2, isInvoke a = true →
        SrvAction.dropHandler ∈ (Srv.step max sched (.reading buf true) (.data bs)).2) := by
  have hs : Srv.step max sched (.reading buf true) (.data bs) =
      (.over, (if sched then [.invoke r, .dropHandler] else []) ++ [.resetSend, .ended false]) := by
    simp only [Srv.step, hd, if_true]
  rw [hs]
  refine ⟨rfl, ?_⟩
  cases sched <;> simp [isInvoke]

/-- abandoning one RPC never affects other RPCs in flight (isolation of stream machines) -/
theorem C12_siblings_unaffected (max : Nat) (c : ConnState) (s j : Nat) (hj : j ≠ s) (ph : CliPhase) :
    (Conn.run max c ((abandonSignals ph).map fun e => (s, e))).streams j = c.streams j := by
  rw [C02_isolation]
  have : (List.filter (fun x => decide (x.1 = j)) ((abandonSignals ph).map fun e => (s, e))) = [] := by
    apply List.filter_eq_nil_iff.mpr
    intro x hx
    obtain ⟨e, _, rfl⟩ := List.mem_map.mp hx
    have hne : ¬ s = j := fun h => hj h.symm
    simp [hne]
  rw [this]; rfl

/-! ### stream credit -/
def Credit.runOps : List Bool → Credit → Option Credit          -- true = open a stream, false = a stream closes
  | [], c => some c
  | true :: t, c => match c.openStream with
    | some c' => Credit.runOps t c'
    | none => none
  | false :: t, c => Credit.runOps t c.closeStream

/-- credit is conserved: `open_` never exceeds the limit, and after any history in which every opened
stream was closed (completed or abandoned alike) all credit is back -/
theorem C12_credit_conserved (ops : List Bool) (c c' : Credit) (hc : c.open_ ≤ c.max)
    (hrun : Credit.runOps ops c = some c')
    (hbal : ∀ k, (ops.take k).count false ≤ c.open_ + (ops.take k).count true) :
    c'.max = c.max ∧ c'.open_ ≤ c'.max ∧ c'.open_ + ops.count false = c.open_ + ops.count true := by
  induction ops generalizing c with
  | nil => simp [Credit.runOps] at hrun; subst hrun; simp [hc]
  | cons op t ih =>
    cases op with
    | true =>
      simp only [Credit.runOps, Credit.openStream] at hrun
      by_cases hlt : c.open_ < c.max
      · rw [if_pos hlt] at hrun
        have hb : ∀ k, (t.take k).count false ≤ (c.open_ + 1) + (t.take k).count true := by
          intro k; have := hbal (k + 1); simp [List.take_succ_cons] at this; omega
        have := ih { c with open_ := c.open_ + 1 } (by simp; omega) hrun hb
        simp at this ⊢; omega
      · rw [if_neg hlt] at hrun; cases hrun
    | false =>
      simp only [Credit.runOps, Credit.closeStream] at hrun
      have h1 := hbal 1
      simp at h1
      have hb : ∀ k, (t.take k).count false ≤ (c.open_ - 1) + (t.take k).count true := by
        intro k; have := hbal (k + 1); simp [List.take_succ_cons] at this; omega
      have := ih { c with open_ := c.open_ - 1 } (by simp; omega) hrun hb
      simp at this ⊢; omega

/-- in particular: any number of abandoned RPCs, each closing its stream, never exhausts capacity -/
theorem C12_capacity_restored (n max : Nat) (hpos : 0 < max) :
    Credit.runOps ((List.replicate n [true, false]).flatten) ⟨max, 0⟩ = some ⟨max, 0⟩ := by
  induction n with
  | zero => rfl
  | succ k ih =>
    simp only [List.replicate_succ, List.flatten_cons, List.cons_append, List.nil_append, Credit.runOps,
      Credit.openStream]
    rw [if_pos (by simpa using hpos)]
    simpa [Credit.closeStream] using ih

/-! non-vacuity -/
example : (Srv.run (effMax none) true (.reading [] false) (abandonSignals .sending)).1 = .over := by decide


def isEnded : SrvAction → Bool
  | .ended _ => true
  | _ => false

theorem step_ended (max : Nat) (sched : Bool) (p : SrvPhase) (e : SrvEvent) (hp : p ≠ .over) :
    ((Srv.step max sched p e).1 = .over → ((Srv.step max sched p e).2.filter isEnded).length = 1) ∧
    ((Srv.step max sched p e).1 ≠ .over → ((Srv.step max sched p e).2.filter isEnded).length = 0) := by
  cases p with
  | over => exact absurd rfl hp
  | reading buf sp =>
    cases e with
    | data bs =>
      simp only [Srv.step]
      cases hd : decodeRequest max (buf ++ bs) with
      | ok pr =>
        obtain ⟨r, rest⟩ := pr
        cases sp <;> cases sched <;> simp [isEnded, List.filter]
      | error err =>
        cases hn : err.needsMore <;> simp [hn, isEnded, List.filter]
    | fin => simp [Srv.step, isEnded, List.filter]
    | reset => simp [Srv.step, isEnded, List.filter]
    | stopSending => simp [Srv.step]
    | readAll => simp [Srv.step]
    | handlerDone r => simp [Srv.step]
  | handling =>
    cases e with
    | handlerDone r =>
      simp only [Srv.step]
      cases encodeResponse max r <;> simp [isEnded, List.filter]
    | stopSending => simp [Srv.step, isEnded, List.filter]
    | data bs => simp [Srv.step]
    | fin => simp [Srv.step]
    | reset => simp [Srv.step]
    | readAll => simp [Srv.step]
  | flushing =>
    cases e <;> simp [Srv.step, isEnded, List.filter]

/-- **Every request stream is wound up exactly once, or not yet**: over any event sequence at all (any
bytes, FIN/RESET/STOP at any point, any scheduler choice) the serving machine reports the end of the
stream -- the point where the task returns and every per-request resource (handler future, stream
halves, slot) is dropped -- exactly once if it has reached its final phase, and never before. -/
theorem C12_ends_exactly_once (max : Nat) (sched : Bool) (p : SrvPhase) (es : List SrvEvent) (hp : p ≠ .over) :
    ((Srv.run max sched p es).1 = .over → ((Srv.run max sched p es).2.filter isEnded).length = 1) ∧
    ((Srv.run max sched p es).1 ≠ .over → ((Srv.run max sched p es).2.filter isEnded).length = 0) := by
  induction es generalizing p with
  | nil => simp [Srv.run, hp]
  | cons e t ih =>
    simp only [Srv.run, List.filter_append, List.length_append]
    have hs := step_ended max sched p e hp
    by_cases ho : (Srv.step max sched p e).1 = .over
    · have h0 : Srv.run max sched (Srv.step max sched p e).1 t = (.over, []) := by rw [ho]; exact srv_over_run max sched t
      rw [h0]
      simp [hs.1 ho]
    · have := ih _ ho
      rw [hs.2 ho]
      simpa using this

/-- once wound up, nothing more happens on the stream whatever the peer sends -/
theorem C12_over_is_final (max : Nat) (sched : Bool) (es : List SrvEvent) :
    Srv.run max sched .over es = (.over, []) := srv_over_run max sched es

example : ((Srv.run (effMax none) true (.reading [] false) (abandonSignals .sending)).2.filter isEnded).length = 1 := by decide

/-- **Abandonment is observed where the model says**: the service call (readiness and call in one `oneshot` future) is raced, unconditionally, against the caller stopping the response stream, and the caller side is one stream per call that is reset when the call future is dropped (read off the source on this run). -/
theorem C12_rpc_path_is_translated :
    Gen.serveStepsGen = [.readRequest, .stampPeerId, .stampOrigin, .stampRemoteAddr, .stampInbound,
                         .raceHandlerWithStop, .writeResponse, .finishSend, .awaitStopped, .returnOk] ∧
    Gen.callStepsGen = [.openBi, .frameSend, .frameRecv, .writeRequest, .finishSend, .readResponse,
                        .stampResponsePeerId, .returnResponse] ∧
    Gen.rpcPathShapeChecked = true := ⟨rfl, rfl, rfl⟩

end Anemo

namespace Anemo

/-- **No open is ever refused while at most `max` streams are simultaneously open** - over every history
of opens and closes, of any length, where a close is the end of a stream however it ended (completed,
abandoned before, while or after transmission, timed out): abandoned RPCs count exactly like completed
ones, none of them keeps credit, so a later RPC is never blocked by earlier abandoned ones. -/
theorem C12_never_refused (ops : List Bool) (c : Credit) (hc : c.open_ ≤ c.max)
    (hbal : ∀ k, (ops.take k).count false ≤ c.open_ + (ops.take k).count true)
    (hcap : ∀ k, c.open_ + (ops.take k).count true ≤ c.max + (ops.take k).count false) :
    ∃ c', Credit.runOps ops c = some c' := by
  induction ops generalizing c with
  | nil => exact ⟨c, rfl⟩
  | cons op t ih =>
    cases op with
    | true =>
      have h1 := hcap 1
      simp at h1
      have hlt : c.open_ < c.max := by omega
      simp only [Credit.runOps, Credit.openStream, if_pos hlt]
      apply ih { c with open_ := c.open_ + 1 } (by simp; omega)
      · intro k; have := hbal (k + 1); simp [List.take_succ_cons] at this ⊢; omega
      · intro k; have := hcap (k + 1); simp [List.take_succ_cons] at this ⊢; omega
    | false =>
      have h1 := hbal 1
      simp at h1
      simp only [Credit.runOps, Credit.closeStream]
      apply ih { c with open_ := c.open_ - 1 } (by simp; omega)
      · intro k; have := hbal (k + 1); simp [List.take_succ_cons] at this ⊢; omega
      · intro k; have := hcap (k + 1); simp [List.take_succ_cons] at this ⊢; omega

/-- the converse, so the hypothesis is exactly the right one: an open IS refused when `max` streams are
open (a leaked stream - one that never closes - would therefore eventually block everybody) -/
theorem C12_refused_at_capacity (t : List Bool) (c : Credit) (h : c.open_ = c.max) :
    Credit.runOps (true :: t) c = none := by
  simp [Credit.runOps, Credit.openStream, h]

example : Credit.runOps [true, true, false, true, false, false, true] ⟨2, 0⟩ = some ⟨2, 1⟩ := by rfl
example : Credit.runOps [true, true, true] ⟨2, 0⟩ = none := by rfl
end Anemo
