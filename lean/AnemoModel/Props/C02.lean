/-
C02 — RPC delivery integrity, pairing and at-most-once handling.
* at most once: the serving machine of a stream emits at most one `invoke`, whatever events arrive
  (any bytes, FIN, RESET, STOP, in any order, any scheduler choice);
* integrity: a caller gets `ok r` only if the handler ran on exactly the request it sent (as delivered:
  header map normalised, extensions dropped) and `r` is exactly what the handler returned -- for every
  route / header map / body that fits the frame limits (from C15's end-to-end characterisation);
* delivery is independent of how QUIC chops the request into chunks;
* isolation: a connection is a family of independent stream machines, so no interleaving of events
  on other streams can alter what a stream sees (responses cannot be swapped or merged).
QUIC stream reliability/ordering is trusted; loss, duplication and reordering of datagrams are below
that abstraction and are exercised by the fabric runs.
-/
import AnemoModel.Lemmas.Stream
import AnemoModel.Props.C15
namespace Anemo
open Gen

/-- no request is delivered to a handler more than once -/
theorem C02_at_most_once (max : Nat) (sched : Bool) (p : SrvPhase) (es : List SrvEvent) :
    ((Srv.run max sched p es).2.filter isInvoke).length ≤ 1 := by
  induction es generalizing p with
  | nil => simp [Srv.run]
  | cons e t ih =>
    cases p with
    | reading buf sp =>
      simp only [Srv.run, List.filter_append, List.length_append]
      cases e with
      | data bs =>
        simp only [Srv.step]
        cases hd : decodeRequest max (buf ++ bs) with
        | ok pr =>
          obtain ⟨r, rest⟩ := pr
          simp only
          by_cases hsp : sp = true
          · rw [if_pos hsp]
            rw [srv_not_reading_no_invoke max sched .over t (by intro b s h; cases h)]
            cases sched <;> simp [List.filter, isInvoke]
          · rw [if_neg hsp]
            rw [srv_not_reading_no_invoke max sched .handling t (by intro b s h; cases h)]
            simp [List.filter, isInvoke]
        | error e =>
          simp only
          by_cases hn : e.needsMore = true
          · rw [if_pos hn]; simpa using ih (.reading (buf ++ bs) sp)
          · rw [if_neg hn]
            rw [srv_not_reading_no_invoke max sched .over t (by intro b s h; cases h)]
            simp [isInvoke]
      | fin => simp [Srv.step, isInvoke, srv_not_reading_no_invoke max sched .over t (by intro b s h; cases h)]
      | reset => simp [Srv.step, isInvoke, srv_not_reading_no_invoke max sched .over t (by intro b s h; cases h)]
      | stopSending => simpa [Srv.step] using ih (.reading buf true)
      | readAll => simpa [Srv.step] using ih (.reading buf sp)
      | handlerDone r => simpa [Srv.step] using ih (.reading buf sp)
    | handling => rw [srv_not_reading_no_invoke max sched .handling _ (by intro b s h; cases h)]; simp
    | flushing => rw [srv_not_reading_no_invoke max sched .flushing _ (by intro b s h; cases h)]; simp
    | over => rw [srv_not_reading_no_invoke max sched .over _ (by intro b s h; cases h)]; simp

/-- a successful RPC returns exactly the handler's response for exactly the request sent -/
theorem C02_integrity (cm sm : Nat) (req : Req) (handler : Req → Resp) (r : Resp)
    (hcm : cm ≤ lenFieldMax) (hsm : sm ≤ lenFieldMax) (hwf : ReqWF req)
    (hwfr : RespWF (handler (reqDelivered req)))
    (hok : rpcRoundTrip cm sm req handler = .ok r) :
    r = respDelivered (handler (reqDelivered req)) := by
  rw [C15_rpc_outcome cm sm req handler hcm hsm hwf hwfr] at hok
  simp only at hok
  split at hok
  · cases hok
  · split at hok
    · cases hok
    · split at hok
      · cases hok
      · split at hok
        · cases hok
        · injection hok with h; exact h.symm

/-- what the handler sees is the request that was sent: route, body, version exactly, the header map
as a map (keys distinct => identical list), no extensions from the wire -/
theorem C02_request_as_sent (r : Req) (hnd : (r.headers.map (·.1)).Nodup) :
    reqDelivered r = { r with ext := [] } := by
  simp [reqDelivered, normHeaders_nodup _ hnd]

/-- the serving machine hands the handler the request that was sent however the stream delivers it
in pieces: while only a strict prefix has arrived it keeps waiting, and when the last byte arrives it
invokes the handler with the request as delivered -/
theorem C02_chunking_waits (max : Nat) (sched : Bool) (req : Req) (bytes : Bytes) (k : Nat)
    (hmax : max ≤ lenFieldMax) (hwf : ReqWF req) (henc : encodeRequest max req = .ok bytes) (hk : k < bytes.length) :
    Srv.step max sched (.reading [] false) (.data (bytes.take k)) = (.reading (bytes.take k) false, []) := by
  have hw : writeMsg max req.version (encReqHeader req) req.body = (bytes, none) := by
    unfold encodeRequest writeRequest at henc
    cases hw : writeMsg max req.version (encReqHeader req) req.body with
    | mk bs e => rw [hw] at henc; cases e <;> simp at henc; subst henc; rfl
  obtain ⟨h1, _, _⟩ := (writeMsg_ok_iff _ _ _ _ _).mp hw
  have hl4 := lenFieldMax_lt
  have hp := parseReqHeader_enc req hwf.1 hwf.2 (by omega)
  obtain ⟨e, he, hn⟩ := decodeMsg_prefix_needsMore parseReqHeader _ max req.version _ req.body bytes k hmax hw
    (C07_preamble_roundtrip req.version) hp hk
  have hd : decodeRequest max (bytes.take k) = .error e := by unfold decodeRequest; rw [he]
  simp only [Srv.step, List.nil_append, hd, hn, if_true]

theorem C02_complete_invokes (max : Nat) (sched : Bool) (req : Req) (bytes buf rest : Bytes)
    (hmax : max ≤ lenFieldMax) (hwf : ReqWF req) (henc : encodeRequest max req = .ok bytes) (more : Bytes)
    (hbuf : buf ++ more = bytes ++ rest) :
    Srv.step max sched (.reading buf false) (.data more) = (.handling, [.invoke (reqDelivered req)]) := by
  have := C07_roundtrip_request max req bytes rest hmax hwf henc
  simp only [Srv.step, hbuf, this]
  rfl

/-- isolation: events on other streams never touch a stream's machine -/
theorem C02_isolation_step (max : Nat) (c : ConnState) (sid j : Nat) (e : SrvEvent) (hj : j ≠ sid) :
    (Conn.step max c sid e).1.streams j = c.streams j := by
  simp [Conn.step, hj]

/-- the state of stream `j` after ANY interleaving of events on all streams is the state its own
machine reaches on its own events alone -/
theorem C02_isolation (max : Nat) (c : ConnState) (evs : List (Nat × SrvEvent)) (j : Nat) :
    (Conn.run max c evs).streams j =
      (Srv.run max true (c.streams j) ((evs.filter (fun x => x.1 = j)).map (·.2))).1 := by
  induction evs generalizing c with
  | nil => rfl
  | cons x t ih =>
    obtain ⟨sid, e⟩ := x
    simp only [Conn.run]
    rw [ih]
    by_cases h : sid = j
    · subst h
      simp [Conn.step, Srv.run]
    · have hj : j ≠ sid := fun e => h e.symm
      simp [h, C02_isolation_step max c sid j e hj]

/-- waiting on a strict prefix, from any buffer -/
theorem srv_prefix_waits (max : Nat) (sched : Bool) (req : Req) (bytes buf more : Bytes) (k : Nat)
    (hmax : max ≤ lenFieldMax) (hwf : ReqWF req) (henc : encodeRequest max req = .ok bytes) (hk : k < bytes.length)
    (hb : buf ++ more = bytes.take k) :
    Srv.step max sched (.reading buf false) (.data more) = (.reading (buf ++ more) false, []) := by
  have hw : writeMsg max req.version (encReqHeader req) req.body = (bytes, none) := by
    unfold encodeRequest writeRequest at henc
    cases hw : writeMsg max req.version (encReqHeader req) req.body with
    | mk bs e => rw [hw] at henc; cases e <;> simp at henc; subst henc; rfl
  obtain ⟨h1, _, _⟩ := (writeMsg_ok_iff _ _ _ _ _).mp hw
  have hl4 := lenFieldMax_lt
  have hp := parseReqHeader_enc req hwf.1 hwf.2 (by omega)
  obtain ⟨e, he, hn⟩ := decodeMsg_prefix_needsMore parseReqHeader _ max req.version _ req.body bytes k hmax hw
    (C07_preamble_roundtrip req.version) hp hk
  have hd : decodeRequest max (buf ++ more) = .error e := by unfold decodeRequest; rw [hb, he]
  simp only [Srv.step, hd, hn, if_true]

/-- an encoded request is never empty (it starts with the 8-byte preamble) -/
theorem encodeRequest_nonempty (max : Nat) (req : Req) (bytes : Bytes) (henc : encodeRequest max req = .ok bytes) :
    0 < bytes.length := by
  have hw : writeMsg max req.version (encReqHeader req) req.body = (bytes, none) := by
    unfold encodeRequest writeRequest at henc
    cases hw : writeMsg max req.version (encReqHeader req) req.body with
    | mk bs e => rw [hw] at henc; cases e <;> simp at henc; subst henc; rfl
  obtain ⟨_, _, h3⟩ := (writeMsg_ok_iff _ _ _ _ _).mp hw
  have := preamble_length req.version
  rw [h3]; simp only [List.length_append]; omega

/-- **Chunking-independence, in full**: however the transport cuts the request bytes into pieces
(any number of pieces, any sizes, empty ones included), the handler is invoked exactly once, with the
request as delivered, when -- and only when -- the last byte is in. -/
theorem C02_chunked_delivery (max : Nat) (sched : Bool) (req : Req) (bytes : Bytes)
    (hmax : max ≤ lenFieldMax) (hwf : ReqWF req) (henc : encodeRequest max req = .ok bytes)
    (chunks : List Bytes) (buf : Bytes) (hlt : buf.length < bytes.length) (hcat : buf ++ chunks.flatten = bytes) :
    Srv.run max sched (.reading buf false) (chunks.map .data) = (.handling, [.invoke (reqDelivered req)]) := by
  induction chunks generalizing buf with
  | nil => simp at hcat; subst hcat; omega
  | cons ch t ih =>
    simp only [List.map_cons, Srv.run]
    by_cases hl : (buf ++ ch).length < bytes.length
    · have hb : buf ++ ch = bytes.take (buf ++ ch).length := by
        rw [← hcat]; simp [List.flatten_cons, ← List.append_assoc]
      rw [srv_prefix_waits max sched req bytes buf ch _ hmax hwf henc hl hb]
      simp only [List.nil_append]
      exact ih (buf ++ ch) hl (by simpa [List.flatten_cons, List.append_assoc] using hcat)
    · have hlen : (buf ++ ch ++ t.flatten).length = bytes.length := by
        rw [← hcat]; simp [List.flatten_cons, List.append_assoc]
      have ht : t.flatten = [] := by
        apply List.eq_nil_of_length_eq_zero
        simp only [List.length_append] at hlen hl ⊢; omega
      have hbc : buf ++ ch = bytes ++ [] := by
        rw [← hcat]; simp [List.flatten_cons, ht]
      rw [C02_complete_invokes max sched req bytes buf [] hmax hwf henc ch hbc]
      simp only [srv_handling_data, List.append_nil]

/-- the actions on stream `j` in ANY interleaving of events on all streams are exactly the actions of
its own machine on its own events -/
theorem C02_actions_project (max : Nat) (c : ConnState) (evs : List (Nat × SrvEvent)) (j : Nat) :
    ((Conn.trace max c evs).filter (fun x => x.1 = j)).map (·.2) =
      (Srv.run max true (c.streams j) ((evs.filter (fun x => x.1 = j)).map (·.2))).2 := by
  induction evs generalizing c with
  | nil => rfl
  | cons x t ih =>
    obtain ⟨sid, e⟩ := x
    simp only [Conn.trace, List.filter_append, List.map_append]
    rw [ih]
    by_cases h : sid = j
    · subst h
      simp [Conn.step, Srv.run, List.filter_map, Function.comp_def]
    · have hj : j ≠ sid := fun e => h e.symm
      simp [h, C02_isolation_step max c sid j e hj, List.filter_map, Function.comp_def]

/-- responses are never swapped or merged: two histories that agree on stream `j` produce the same
actions (invocation, bytes written, finish, end) on stream `j` -/
theorem C02_no_swap (max : Nat) (c : ConnState) (evs evs' : List (Nat × SrvEvent)) (j : Nat)
    (h : evs.filter (fun x => x.1 = j) = evs'.filter (fun x => x.1 = j)) :
    ((Conn.trace max c evs).filter (fun x => x.1 = j)).map (·.2) =
    ((Conn.trace max c evs').filter (fun x => x.1 = j)).map (·.2) := by
  rw [C02_actions_project, C02_actions_project, h]

/-- **Concurrent RPCs are paired correctly.**  Take ANY interleaving of events on all the streams of a
connection.  If the events of stream `j` are: the bytes of request `req` in any chunking, then the
handler's answer `r`, then the caller reading it, the actions on stream `j` are exactly: invoke the
handler once with `req` as delivered, write the encoding of `r`, finish, end cleanly -- whatever the
other streams carry and in whatever order their handlers complete. -/
theorem C02_concurrent_pairing (max : Nat) (c : ConnState) (evs : List (Nat × SrvEvent)) (j : Nat)
    (req : Req) (bytes : Bytes) (chunks : List Bytes) (r : Resp) (rbytes : Bytes)
    (hmax : max ≤ lenFieldMax) (hwf : ReqWF req) (henc : encodeRequest max req = .ok bytes)
    (hresp : encodeResponse max r = .ok rbytes)
    (hfresh : c.streams j = .reading [] false)
    (hcat : chunks.flatten = bytes)
    (hj : (evs.filter (fun x => x.1 = j)).map (·.2) = chunks.map .data ++ [.handlerDone r, .readAll]) :
    ((Conn.trace max c evs).filter (fun x => x.1 = j)).map (·.2) =
      [.invoke (reqDelivered req), .write rbytes, .finish, .ended true] := by
  rw [C02_actions_project, hj, hfresh, srv_run_append,
    C02_chunked_delivery max true req bytes hmax hwf henc chunks []
      (by simpa using encodeRequest_nonempty max req bytes henc) (by simpa using hcat)]
  simp [Srv.run, Srv.step, hresp]

/-! non-vacuity -/
example : ((Srv.run (effMax none) true (.reading [] false)
    [.data [0x61,0x6e,0x65,0x6d,0x6f,0,1,0, 0,0,0,0x11], .data [1,0,0,0,0,0,0,0,0x2f, 0,0,0,0,0,0,0,0, 0,0,0,0],
     .handlerDone ⟨.Success, [], [7], .V1, []⟩, .readAll]).2.filter isInvoke).length = 1 := by decide

/-- two requests interleaved chunk by chunk on streams 4 and 8, handlers completing in the opposite order -/
example :
    let a : Bytes := [0x61,0x6e,0x65,0x6d,0x6f,0,1,0, 0,0,0,0x11]
    let b : Bytes := [1,0,0,0,0,0,0,0,0x2f, 0,0,0,0,0,0,0,0, 0,0,0,0]
    let tr := Conn.trace (effMax none) {} [(4, .data a), (8, .data a), (8, .data b), (4, .data b),
       (8, .handlerDone ⟨.Success, [], [8], .V1, []⟩), (4, .handlerDone ⟨.Success, [], [4], .V1, []⟩), (4, .readAll), (8, .readAll)]
    ((tr.filter (fun x => x.1 = 4)).map (·.2)).length = 4 ∧ ((tr.filter (fun x => x.1 = 8)).map (·.2)).length = 4 := by decide

/-- **The serving and calling sequences are the ones the stream machine models**, read off the source on
this run: `do_handle` = read the request; stamp it with the connection's PeerId, origin, remote address
and direction; run the service (`oneshot`: readiness and call inside ONE future) raced, unconditionally,
against the caller stopping the response stream; write the response; finish; wait until the peer has
read it.  `do_rpc` = open a stream; frame both halves with the configured codec; write the request;
finish; read ONE response; stamp it with the connection's PeerId; return it.  Around them (shapes
recognised, `rpcPathShapeChecked`): `Network::rpc` is one lookup and one call (no retry), `Peer::call`
stamps the request and wraps `do_rpc` in the outbound layer, the accept loop drops unidirectional
streams, spawns one task per bidirectional stream and ignores datagrams. -/
theorem C02_rpc_path_is_translated :
    Gen.serveStepsGen = [.readRequest, .stampPeerId, .stampOrigin, .stampRemoteAddr, .stampInbound,
                         .raceHandlerWithStop, .writeResponse, .finishSend, .awaitStopped, .returnOk] ∧
    Gen.callStepsGen = [.openBi, .frameSend, .frameRecv, .writeRequest, .finishSend, .readResponse,
                        .stampResponsePeerId, .returnResponse] ∧
    Gen.rpcPathShapeChecked = true := ⟨rfl, rfl, rfl⟩

end Anemo
