/-
C10 — Inbound admission follows peer affinity and the connection limit.
Decision logic for every affinity / limit / count, and the listener as a machine over every history
of non-overlapping arrivals, explicit dials, disconnects and known-peer edits.
-/
import AnemoModel.Manager
namespace Anemo
open Gen

/-- the hand-written decision is the one regenerated from `handle_incoming_task` on every run -/
theorem C10_admit_is_source (aff : Option Affinity) (limit : Option Nat) (active : Nat) :
    admits aff limit active = admitGen aff limit active := by
  cases aff with
  | none =>
    cases limit with
    | none => rfl
    | some l =>
      simp only [admits, admitGen]
      by_cases h : active < l
      · have : ¬ active ≥ l := by omega
        simp [h, this]
      · have : active ≥ l := by omega
        simp [h, this]
  | some a => cases a <;> cases limit <;> rfl

/-- a peer configured Never is never admitted -/
theorem C10_never (limit : Option Nat) (n : Nat) : admits (some .never) limit n = false := by
  cases limit <;> rfl

/-- High and Allowed are always admitted, regardless of the limit -/
theorem C10_high_allowed_bypass (limit : Option Nat) (n : Nat) :
    admits (some .high) limit n = true ∧ admits (some .allowed) limit n = true := by
  cases limit <;> exact ⟨rfl, rfl⟩

/-- any other peer is admitted exactly when no limit is configured or the number of established
connections is below it -/
theorem C10_other_iff_below_limit (l n : Nat) :
    admits none none n = true ∧ (admits none (some l) n = true ↔ n < l) := by
  simp [admits]

/-- the count consulted is the number of ALL established connections, inbound and outbound alike:
the decision for an arrival is `admits` on the size of the connected set -/
theorem C10_arrival_decision (s : Listener) (p : Nat) :
    (s.step (.arrive p)).2 = some (admits (lookupAff s.known p) s.limit s.connected.length) := by
  simp only [Listener.step]
  split <;> simp_all

/-- a rejected arrival changes nothing -/
theorem C10_reject_no_effect (s : Listener) (p : Nat) (h : (s.step (.arrive p)).2 = some false) :
    (s.step (.arrive p)).1 = s := by
  simp only [Listener.step] at h ⊢
  split
  · rename_i ha; rw [if_pos ha] at h; cases h
  · rfl

/-- explicit and background dials never consult the limit or the affinity: they always register -/
theorem C10_outbound_unlimited (s : Listener) (p : Nat) :
    p ∈ (s.step (.dialOut p)).1.connected := by
  simp only [Listener.step, insertSet]
  split
  · assumption
  · simp

theorem insertSet_nodup (l : List Nat) (p : Nat) (h : l.Nodup) : (insertSet l p).Nodup := by
  unfold insertSet
  split
  · exact h
  · rename_i hp
    rw [List.nodup_append]
    exact ⟨h, by simp, fun a ha b hb => by simp at hb; subst hb; intro e; subst e; exact hp ha⟩

/-- the connected set stays duplicate-free over every history, so its size is the number of
connected peers ... -/
theorem C10_connected_nodup (s : Listener) (ops : List LOp) (h : s.connected.Nodup) :
    (ops.foldl (fun s op => (s.step op).1) s).connected.Nodup := by
  induction ops generalizing s with
  | nil => exact h
  | cons op t ih =>
    apply ih
    cases op with
    | arrive p =>
      simp only [Listener.step]; split
      · exact insertSet_nodup _ _ h
      · exact h
    | dialOut p => exact insertSet_nodup _ _ h
    | disconnect p => exact h.filter _
    | setKnown p a => exact h
    | removeKnown p => exact h

/-- ... and a disconnect of a connected peer lowers the count by exactly one (making room again) -/
theorem filter_ne_length (l : List Nat) (p : Nat) (hnd : l.Nodup) (hp : p ∈ l) :
    (l.filter (· ≠ p)).length + 1 = l.length := by
  induction l with
  | nil => simp at hp
  | cons x t ih =>
    have ⟨hx_notin, ht⟩ := List.nodup_cons.mp hnd
    by_cases hx : x = p
    · subst hx
      have : t.filter (· ≠ x) = t := by
        apply List.filter_eq_self.mpr
        intro a ha
        have : a ≠ x := fun e => hx_notin (e ▸ ha)
        simpa using this
      rw [List.filter_cons]
      simp only [ne_eq, not_true_eq_false, decide_false, Bool.false_eq_true, if_false]
      rw [this]; rfl
    · have hpt : p ∈ t := by
        rcases List.mem_cons.mp hp with e | e
        · exact absurd e.symm hx
        · exact e
      rw [List.filter_cons]
      have : decide (x ≠ p) = true := by simpa using hx
      rw [if_pos this, List.length_cons, List.length_cons, ih ht hpt]

theorem C10_disconnect_frees_one (s : Listener) (p : Nat) (hnd : s.connected.Nodup) (hp : p ∈ s.connected) :
    (s.step (.disconnect p)).1.connected.length + 1 = s.connected.length := by
  simp only [Listener.step]
  exact filter_ne_length _ p hnd hp

/-- editing the known-peer table takes effect for the next arrival: the last entry for a peer decides -/
theorem C10_known_last_wins (known : List (Nat × Affinity)) (p : Nat) (a : Affinity) :
    lookupAff (known ++ [(p, a)]) p = some a := by
  induction known with
  | nil => simp [lookupAff]
  | cons e t ih => obtain ⟨q, b⟩ := e; simp [lookupAff, ih]

/-! non-vacuity: limit 1; unknown X admitted, unknown Y rejected, Allowed Z admitted over the limit,
explicit dial over the limit registers, after disconnects an unknown peer is admitted again -/
example :
    let s0 : Listener := { limit := some 1 }
    let r1 := s0.step (.arrive 10)
    let r2 := r1.1.step (.arrive 11)
    let r3 := (r2.1.step (.setKnown 12 .allowed)).1.step (.arrive 12)
    let r4 := r3.1.step (.dialOut 13)
    r1.2 = some true ∧ r2.2 = some false ∧ r3.2 = some true ∧ r4.1.connected = [10, 12, 13] ∧
    ((((r4.1.step (.disconnect 10)).1.step (.disconnect 12)).1.step (.disconnect 13)).1.step (.arrive 11)).2 = some true := by
  decide

end Anemo

namespace Anemo
theorem lookupAff_all_never (known : List (Nat × Affinity)) (h : ∀ e ∈ known, e.2 = .never) (p : Nat) :
    lookupAff known p = none ∨ lookupAff known p = some .never := by
  induction known with
  | nil => left; rfl
  | cons e t ih =>
    obtain ⟨q, a⟩ := e
    have ha : a = .never := h (q, a) (by simp)
    have iht := ih (fun e he => h e (by simp [he]))
    simp only [lookupAff]
    rcases iht with h1 | h1
    · rw [h1]; by_cases hq : q = p <;> simp [hq, ha]
    · rw [h1]; right; rfl

/-- operations that involve no exempt peer: arrivals, disconnects, `Never` entries, removals -/
def LOp.stranger : LOp → Bool
  | .arrive _ => true
  | .disconnect _ => true
  | .setKnown _ a => a == .never
  | .removeKnown _ => true
  | .dialOut _ => false

theorem insertSet_length_le (l : List Nat) (p : Nat) : (insertSet l p).length ≤ l.length + 1 := by
  unfold insertSet; split <;> simp

def Listener.Strangers (l : Nat) (s : Listener) : Prop :=
  s.limit = some l ∧ (∀ e ∈ s.known, e.2 = .never) ∧ s.connected.length ≤ l

theorem stranger_step (l : Nat) (s : Listener) (op : LOp) (h : s.Strangers l) (hop : op.stranger = true) :
    (s.step op).1.Strangers l := by
  obtain ⟨hl, hk, hlen⟩ := h
  cases op with
  | arrive p =>
    simp only [Listener.step]
    split
    · rename_i ha
      refine ⟨hl, hk, ?_⟩
      have hlt : s.connected.length < l := by
        rcases lookupAff_all_never s.known hk p with h1 | h1 <;> simp [h1, hl, admits] at ha
        exact ha
      have := insertSet_length_le s.connected p
      simp only; omega
    · exact ⟨hl, hk, hlen⟩
  | dialOut p => simp [LOp.stranger] at hop
  | disconnect p =>
    exact ⟨hl, hk, Nat.le_trans (List.length_filter_le _ _) hlen⟩
  | setKnown p a =>
    have ha : a = .never := by simpa [LOp.stranger] using hop
    refine ⟨hl, ?_, hlen⟩
    intro e he
    simp only [Listener.step, List.mem_append, List.mem_singleton] at he
    rcases he with he | he
    · exact hk e he
    · rw [he]; exact ha
  | removeKnown p =>
    refine ⟨hl, ?_, hlen⟩
    intro e he
    simp only [Listener.step] at he
    exact hk e (List.mem_filter.mp he).1

/-- **The limit holds over every history**: while nobody is exempt (no High / Allowed entry, no
outbound dial), however arrivals, disconnects and table edits interleave, the number of established
connections never exceeds the limit. -/
theorem C10_limit_invariant (l : Nat) (ops : List LOp) (s : Listener) (h : s.Strangers l)
    (hops : ∀ op ∈ ops, op.stranger = true) :
    (ops.foldl (fun s op => (s.step op).1) s).connected.length ≤ l := by
  induction ops generalizing s with
  | nil => exact h.2.2
  | cons op t ih =>
    simp only [List.foldl_cons]
    exact ih _ (stranger_step l s op h (hops op (by simp))) (fun o ho => hops o (by simp [ho]))

example : ({ limit := some 2 } : Listener).Strangers 2 := ⟨rfl, by simp, by simp⟩

/-- **Admission is decided where the model says, and nowhere else** (word for word, checked on this run): `handle_incoming_task` completes the handshake, applies the translated decision (`admitGen`) to the established-connection count of the active set, and only then runs the acknowledgement; `handle_connecting_result` / `add_peer` register without a second decision. -/
theorem C10_admission_path_is_pinned : Gen.dialingShapeChecked = true := rfl
end Anemo

namespace Anemo

/-- does this operation, in this state, add a connection that the limit does not govern: an outbound
dial, or an admitted arrival of a peer that has a table entry (High / Allowed; Never is not admitted) -/
def exemptAdd (s : Listener) : LOp → Bool
  | .dialOut _ => true
  | .arrive p => (lookupAff s.known p).isSome && admits (lookupAff s.known p) s.limit s.connected.length
  | _ => false

/-- run a history, counting the exempt additions on the way -/
def runCounting : Listener → List LOp → Listener × Nat
  | s, [] => (s, 0)
  | s, op :: t =>
    let r := runCounting (s.step op).1 t
    (r.1, r.2 + (if exemptAdd s op then 1 else 0))

theorem runCounting_fst (s : Listener) (ops : List LOp) :
    (runCounting s ops).1 = ops.foldl (fun s op => (s.step op).1) s := by
  induction ops generalizing s with
  | nil => rfl
  | cons op t ih => simp [runCounting, ih]

theorem listener_step_limit (s : Listener) (op : LOp) : (s.step op).1.limit = s.limit := by
  cases op <;> simp [Listener.step] <;> split <;> rfl

/-- **The limit over EVERY history, exempt peers and outbound dials included**: however arrivals,
dials, disconnects and table edits interleave, the established connections never exceed the limit (or
what was already there) by more than the number of connections the limit does not govern - those the
application dialled itself and those admitted from peers with a High / Allowed entry. Every other
connection in excess is impossible; with no exempt addition this is `C10_limit_invariant`. -/
theorem C10_excess_only_exempt (l : Nat) (ops : List LOp) (s : Listener) (hl : s.limit = some l) :
    (runCounting s ops).1.connected.length ≤ max l s.connected.length + (runCounting s ops).2 := by
  induction ops generalizing s with
  | nil => simp [runCounting]; omega
  | cons op t ih =>
    have hl' : (s.step op).1.limit = some l := by rw [listener_step_limit]; exact hl
    have := ih (s.step op).1 hl'
    simp only [runCounting]
    have key : max l (s.step op).1.connected.length ≤ max l s.connected.length + (if exemptAdd s op then 1 else 0) := by
      cases op with
      | arrive p =>
        simp only [Listener.step, exemptAdd]
        by_cases ha : admits (lookupAff s.known p) s.limit s.connected.length = true
        · simp only [ha, if_true]
          have hins := insertSet_length_le s.connected p
          cases hk : lookupAff s.known p with
          | none =>
            have hlt : s.connected.length < l := by simpa [hk, hl, admits] using ha
            simp; omega
          | some a => simp; omega
        · simp [ha]
      | dialOut p =>
        have hins := insertSet_length_le s.connected p
        simp only [Listener.step, exemptAdd, if_true]; omega
      | disconnect p =>
        show max l (s.connected.filter (· ≠ p)).length ≤ max l s.connected.length + (if false = true then 1 else 0)
        have := List.length_filter_le (· ≠ p) s.connected
        simp only [Bool.false_eq_true, if_false]; omega
      | setKnown p a => simp [Listener.step, exemptAdd]
      | removeKnown p => simp [Listener.step, exemptAdd]
    omega

example : (runCounting { limit := some 1 } [.arrive 10, .arrive 11, .setKnown 12 .allowed, .arrive 12, .dialOut 13]).2 = 2 ∧
    (runCounting { limit := some 1 } [.arrive 10, .arrive 11, .setKnown 12 .allowed, .arrive 12, .dialOut 13]).1.connected = [10, 12, 13] := by
  decide
end Anemo
