/-
C14 — Networks with different names never connect.
Names are DNS names: matching a name against a certificate is ASCII-case-insensitive (webpki), which
the model states explicitly (`dnsEq`); "different networks" therefore means names that differ as DNS
names.  Cryptography/TLS trusted as in C01.
-/
import AnemoModel.Props.C01
namespace Anemo

theorem dnsEq_refl (a : Name) : dnsEq a a = true := by simp [dnsEq]
theorem dnsEq_symm (a b : Name) : dnsEq a b = dnsEq b a := by
  unfold dnsEq
  by_cases h : a.map lower = b.map lower
  · rw [h]
  · have h' : ¬ b.map lower = a.map lower := fun e => h e.symm
    rw [beq_eq_false_iff_ne.mpr h, beq_eq_false_iff_ne.mpr h']

/-- two honest endpoints connect exactly when the dialer's primary name is one the listener accepts
(its primary or alternate name), whatever their keys -/
theorem C14_connect_iff (d l : EndpointNames) (kd kl : Key) :
    (honestConnect d kd l kl none).isSome = l.accepted.any (dnsEq d.primary) := by
  unfold honestConnect
  cases hf : l.accepted.find? (dnsEq d.primary) with
  | none =>
    have : l.accepted.any (dnsEq d.primary) = false := by
      cases ha : l.accepted.any (dnsEq d.primary) with
      | false => rfl
      | true =>
        obtain ⟨x, hx, hpx⟩ := List.any_eq_true.mp ha
        have := List.find?_eq_none.mp hf x hx
        simp [hpx] at this
    simp [this]
  | some served =>
    have hserved : dnsEq d.primary served = true := by simpa using List.find?_some hf
    have hmem : served ∈ l.accepted := List.mem_of_find?_eq_some hf
    have hany : l.accepted.any (dnsEq d.primary) = true := List.any_eq_true.mpr ⟨served, hmem, hserved⟩
    have hc : clientAccepts [d.primary] none d.primary (honestCert kl served) ⟨kl, .ed25519⟩ = some kl := by
      simp [clientAccepts, pinOk, certOk, validFor, hsOk, honestCert, hserved]
    have hs : serverAccepts l.accepted d.primary (some (honestCert kd d.primary)) ⟨kd, .ed25519⟩ = some kd := by
      have hv : l.accepted.any (validFor (honestCert kd d.primary)) = true := by
        apply List.any_eq_true.mpr
        refine ⟨served, hmem, ?_⟩
        simp [validFor, honestCert, dnsEq_symm served d.primary, hserved]
      simp [serverAccepts, certOk, hsOk, honestCert, hany, hv]
      simpa [honestCert] using hv
    simp only [hc, hs, hany]
    rfl

/-- and then each side attributes the other's key -/
theorem C14_connect_ids (d l : EndpointNames) (kd kl : Key) (r : Key × Key)
    (h : honestConnect d kd l kl none = some r) : r = (kd, kl) := by
  unfold honestConnect at h
  cases hf : l.accepted.find? (dnsEq d.primary) with
  | none => rw [hf] at h; cases h
  | some served =>
    rw [hf] at h
    simp only at h
    cases hc : clientAccepts [d.primary] none d.primary (honestCert kl served) ⟨kl, .ed25519⟩ with
    | none => rw [hc] at h; cases h
    | some a =>
      cases hs : serverAccepts l.accepted d.primary (some (honestCert kd d.primary)) ⟨kd, .ed25519⟩ with
      | none => rw [hc, hs] at h; cases h
      | some b =>
        rw [hc, hs] at h
        injection h with h
        have ha := (C01_attribution_client _ _ _ _ _ a hc).1
        obtain ⟨c, hcc, hb, _⟩ := C01_attribution_server _ _ _ _ b hs
        injection hcc with hcc; subst hcc
        simp [honestCert] at ha hb
        rw [← h, ← ha, ← hb]

/-- endpoints configured for different networks never connect, in either direction -/
theorem C14_disjoint_never (a b : EndpointNames) (ka kb : Key) (pa pb : Option Key)
    (hab : b.accepted.any (dnsEq a.primary) = false) (hba : a.accepted.any (dnsEq b.primary) = false) :
    honestConnect a ka b kb pa = none ∧ honestConnect b kb a ka pb = none := by
  have none_of : ∀ (d l : EndpointNames) (kd kl : Key) (p : Option Key),
      l.accepted.any (dnsEq d.primary) = false → honestConnect d kd l kl p = none := by
    intro d l kd kl p h
    unfold honestConnect
    have : l.accepted.find? (dnsEq d.primary) = none := by
      apply List.find?_eq_none.mpr
      intro x hx hpx
      have := List.any_eq_true.mpr ⟨x, hx, hpx⟩
      rw [h] at this; cases this
    rw [this]
  exact ⟨none_of a b ka kb pa hab, none_of b a kb ka pb hba⟩

/-- a peer that claims an accepted network name in the TLS hello (SNI) while presenting a certificate
issued for a name the listener does not accept is rejected, whatever it claims -/
theorem C14_cert_name_checked (accepted : List Name) (sni : Name) (c : Cert) (hs : HsSig)
    (h : accepted.any (validFor c) = false) : serverAccepts accepted sni (some c) hs = none := by
  simp [serverAccepts, h]

/-- an unknown network name in the hello is rejected whatever certificate follows -/
theorem C14_sni_checked (accepted : List Name) (sni : Name) (c? : Option Cert) (hs : HsSig)
    (h : accepted.any (dnsEq sni) = false) : serverAccepts accepted sni c? hs = none := by
  cases c? <;> simp [serverAccepts, h]

/-- the dialer accepts a server certificate only for the name it dialled, which must be its own name -/
theorem C14_dialer_checks_name (own : List Name) (pin? : Option Key) (dialed : Name) (c : Cert) (hs : HsSig)
    (h : own.contains dialed = false ∨ validFor c dialed = false) : clientAccepts own pin? dialed c hs = none := by
  unfold clientAccepts
  rcases h with h | h
  · have : (pinOk pin? c && own.contains dialed && certOk c && validFor c dialed && hsOk c hs) = false := by
      rw [h]; simp
    rw [this]; rfl
  · have : (pinOk pin? c && own.contains dialed && certOk c && validFor c dialed && hsOk c hs) = false := by simp [h]
    rw [this]; rfl

/-! non-vacuity -/
example : (honestConnect ⟨[0x61], none⟩ 1 ⟨[0x62], some [0x41]⟩ 2 none) = some (1, 2) ∧
    (honestConnect ⟨[0x62], some [0x61]⟩ 2 ⟨[0x61], none⟩ 1 none) = none := by decide


/-- **The symbolic verifiers are the translation of the source**: the conjunction of what the statements
of `verify_client_cert`, `verify_server_cert` and the pinned `verify_server_cert` demand (read off
crypto.rs on this run, in order) is exactly what `serverAccepts` / `clientAccepts` demand of a
certificate; the three handshake-signature checks delegate to rustls with Ed25519 as the only scheme,
client authentication is offered and mandatory, the end-entity certificate is its own trust anchor,
and the identity is the Ed25519 key of its SubjectPublicKeyInfo (shapes recognised: `tlsShapeChecked`). -/
theorem C14_verifiers_are_translated (names : List Name) (dialed : Name) (p : Key) (c : Cert) :
    verifyClientCertGen names c = (certOk c && names.any (validFor c)) ∧
    verifyServerCertGen names dialed c = (names.contains dialed && certOk c && validFor c dialed) ∧
    verifyPinnedServerCertGen names dialed p c = (pinOk (some p) c && names.contains dialed && certOk c && validFor c dialed) ∧
    Gen.tlsShapeChecked = true := by
  obtain ⟨spki, spkiAlg, signer, sigAlg, ns, validNow, wf⟩ := c
  have hc : ([TlsStep.identityOfEndEntity, .pinMustMatch, .delegateToCertVerifier].contains TlsStep.delegateToCertVerifier) = true := by decide
  refine ⟨?_, ?_, ?_, rfl⟩
  · simp only [verifyClientCertGen, Gen.verifyClientCertGen, List.all_cons, List.all_nil, evalTlsStep, certOk]
    cases wf <;> cases validNow <;> cases spkiAlg <;> cases sigAlg <;> simp <;> (try (by_cases h2 : signer = spki <;> simp [h2]))
  · simp only [verifyServerCertGen, Gen.verifyServerCertGen, List.all_cons, List.all_nil, evalTlsStep, certOk]
    cases wf <;> cases validNow <;> cases (names.contains dialed) <;> cases spkiAlg <;> cases sigAlg <;> simp <;>
      (try (by_cases h2 : signer = spki <;> simp [h2]))
  · simp only [verifyPinnedServerCertGen, verifyServerCertGen, Gen.verifyPinnedServerCertGen, Gen.verifyServerCertGen,
      List.all_cons, List.all_nil, evalTlsStep, certOk, pinOk]
    rw [hc]
    cases wf <;> cases validNow <;> cases (names.contains dialed) <;> cases (validFor ⟨spki, spkiAlg, signer, sigAlg, ns, _, _⟩ dialed) <;> simp <;>
      cases spkiAlg <;> cases sigAlg <;> simp <;> (try (by_cases h1 : spki = p <;> by_cases h2 : signer = spki <;> simp [h1, h2]))

end Anemo

namespace Anemo
/-- **Names are wired as the model says** (word for word, checked on this run): `build` makes one certificate per name (primary first, then the alternate), the verifier accepts exactly those names, the server resolves its certificate by SNI among exactly those names (no fallback), the client configurations present the PRIMARY certificate, and `connect_with_client_config` dials with the primary name. -/
theorem C14_names_are_pinned : Gen.tlsConfigShapeChecked = true ∧ Gen.endpointShapeChecked = true := ⟨rfl, rfl⟩
end Anemo

namespace Anemo

theorem dnsEq_trans (a b c : Name) (h1 : dnsEq a b = true) (h2 : dnsEq b c = true) : dnsEq a c = true := by
  unfold dnsEq at *
  simp only [beq_iff_eq] at *
  rw [h1, h2]

/-- **Whatever the dialer is** (honest or not, any certificate, any handshake signature): if the
listener admits it, the name in its hello is one the listener accepts AND its certificate is valid
for a name the listener accepts - both, so claiming one network while holding a certificate for
another never gets in. -/
theorem C14_admitted_dialer_is_in_network (accepted : List Name) (sni : Name) (c? : Option Cert) (hs : HsSig) (k : Key)
    (h : serverAccepts accepted sni c? hs = some k) :
    accepted.any (dnsEq sni) = true ∧ ∃ c, c? = some c ∧ accepted.any (validFor c) = true ∧ certOk c = true := by
  cases c? with
  | none => simp [serverAccepts] at h
  | some c =>
    unfold serverAccepts at h
    simp only at h
    split at h
    · rename_i hc
      simp only [Bool.and_eq_true] at hc
      exact ⟨hc.1.1.1, c, rfl, hc.1.2, hc.1.1.2⟩
    · cases h

/-- **Whatever the listener is**: a dialer completes a connection only with a certificate valid for
the name it dialled, and that name is its own; with `connect_with_client_config` dialling the primary
name (`C14_names_are_pinned`) the party reached holds a certificate for the dialer's own network. -/
theorem C14_reached_listener_is_in_network (own : List Name) (pin? : Option Key) (dialed : Name) (c : Cert) (hs : HsSig) (k : Key)
    (h : clientAccepts own pin? dialed c hs = some k) :
    own.contains dialed = true ∧ validFor c dialed = true ∧ certOk c = true := by
  unfold clientAccepts at h
  split at h
  · rename_i hc
    simp only [Bool.and_eq_true] at hc
    exact ⟨hc.1.1.1.2, hc.1.2, hc.1.1.2⟩
  · cases h

/-- endpoints with a single name each: "can connect" is symmetric ... -/
theorem C14_single_name_symmetric (a b : Name) (ka kb : Key) :
    (honestConnect ⟨a, none⟩ ka ⟨b, none⟩ kb none).isSome = (honestConnect ⟨b, none⟩ kb ⟨a, none⟩ ka none).isSome := by
  rw [C14_connect_iff, C14_connect_iff]
  simp [EndpointNames.accepted, dnsEq_symm a b]

/-- ... and transitive, so single-name networks PARTITION the endpoints: the classes are the DNS
names, and no connection ever crosses two classes (in a population of any size) -/
theorem C14_single_name_partition (a b c : Name) (ka kb kc : Key)
    (hab : (honestConnect ⟨a, none⟩ ka ⟨b, none⟩ kb none).isSome = true)
    (hbc : (honestConnect ⟨b, none⟩ kb ⟨c, none⟩ kc none).isSome = true) :
    (honestConnect ⟨a, none⟩ ka ⟨c, none⟩ kc none).isSome = true := by
  rw [C14_connect_iff] at *
  simp [EndpointNames.accepted] at *
  exact dnsEq_trans a b c hab hbc

/-- the alternate name opens exactly ONE direction: a listener with alternate name `x` admits dialers
of network `x`, but itself still dials as its primary network only -/
theorem C14_alternate_is_inbound_only (p x : Name) (kd kl : Key) (h : dnsEq x p = false) :
    (honestConnect ⟨x, none⟩ kd ⟨p, some x⟩ kl none).isSome = true ∧
    (honestConnect ⟨p, some x⟩ kl ⟨x, none⟩ kd none).isSome = false := by
  rw [C14_connect_iff, C14_connect_iff]
  simp [EndpointNames.accepted, dnsEq_refl, dnsEq_symm p x, h]

example : (honestConnect ⟨[0x61], none⟩ 1 ⟨[0x41], none⟩ 2 none).isSome = true := by decide
end Anemo
