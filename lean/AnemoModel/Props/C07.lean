/-
C07 — Wire format: exact layout, lossless round trip, total decoder.
Property theorems only (helper lemmas live in Lemmas/Wire.lean).  All statements are over the
generated tables (`Gen.ANEMO`, `Gen.Version`, `Gen.StatusCode`) and the hand-written codec model
that the correspondence check ties to crates/anemo/src/network/wire.rs byte for byte.

Well-formedness (`ReqWF` / `RespWF`) is exactly what the Rust types guarantee: `String` is valid
UTF-8.  Nothing is assumed about sizes beyond "the encoder accepted the message".
Totality of the decoders is by construction: they are total functions into `Except WireErr _`.
-/
import AnemoModel.Lemmas.Wire
namespace Anemo
open Gen

def ReqWF (r : Req) : Prop := StrWF r.route ∧ HeadersUtf8 r.headers
def RespWF (r : Resp) : Prop := HeadersUtf8 r.headers

/-! ### status and version tables (generated from the enum and from `new`) -/

theorem C07_status_table_fwd (s : StatusCode) : StatusCode.new s.toU16 = some s := by
  cases s <;> rfl

theorem C07_status_table_bwd (c : Nat) (s : StatusCode) (h : StatusCode.new c = some s) : s.toU16 = c := by
  unfold StatusCode.new at h
  split at h <;> first | (injection h with h; subst h; rfl) | (simp at h)

theorem C07_version_table_fwd (v : Version) : Version.new v.toU16 = some v := by
  cases v <;> rfl

theorem C07_version_table_bwd (c : Nat) (v : Version) (h : Version.new c = some v) : v.toU16 = c := by
  unfold Version.new at h
  split at h <;> first | (injection h with h; subst h; rfl) | (simp at h)

theorem C07_status_fits_u16 (s : StatusCode) : s.toU16 < 256^2 := by
  cases s <;> decide

/-! ### preamble: layout and exact acceptance -/

/-- interoperability pin: the 8 bytes every revision must put first -/
theorem C07_layout_preamble : preamble .V1 = [0x61, 0x6e, 0x65, 0x6d, 0x6f, 0x00, 0x01, 0x00] := by
  decide

theorem C07_preamble_roundtrip (v : Version) (rest : Bytes) :
    decodeVersionFrame (preamble v ++ rest) = .ok (v, rest) := by
  cases v <;> simp [decodeVersionFrame, preamble, ANEMO, beN, Version.toU16, Version.new]

/-- accepted exactly when the stream starts with `anemo`, two version bytes naming a known version
(big endian) and a zero byte; everything after those 8 bytes is left unread -/
theorem C07_preamble_exact (bs : Bytes) (v : Version) (rest : Bytes) :
    decodeVersionFrame bs = .ok (v, rest) ↔
      ∃ b5 b6 : UInt8, bs = ANEMO ++ [b5, b6, 0] ++ rest ∧
        Version.new (b5.toNat * 256 + b6.toNat) = some v := by
  unfold decodeVersionFrame
  split
  · rename_i b0 b1 b2 b3 b4 b5 b6 b7 r
    -- what an equation with the canonical shape says about the eight leading bytes
    have key : ∀ c5 c6 : UInt8, b0 :: b1 :: b2 :: b3 :: b4 :: b5 :: b6 :: b7 :: r = ANEMO ++ [c5, c6, 0] ++ rest →
        [b0, b1, b2, b3, b4] = ANEMO ∧ b5 = c5 ∧ b6 = c6 ∧ b7 = 0 ∧ r = rest := by
      intro c5 c6 he
      simp [ANEMO] at he ⊢
      obtain ⟨h0, h1, h2, h3, h4, h5, h6, h7, h8⟩ := he
      exact ⟨⟨h0, h1, h2, h3, h4⟩, h5, h6, h7, h8⟩
    by_cases hp : [b0, b1, b2, b3, b4] = ANEMO
    · by_cases h7 : b7 = 0
      · subst h7
        simp only [hp, bne_self_eq_false, Bool.or_self, Bool.false_eq_true, if_false]
        cases hv : Version.new (b5.toNat * 256 + b6.toNat) with
        | none =>
          constructor
          · intro h; cases h
          · rintro ⟨c5, c6, he, hc⟩
            obtain ⟨_, rfl, rfl, _, _⟩ := key c5 c6 he
            rw [hv] at hc; cases hc
        | some v' =>
          constructor
          · intro h
            injection h with h
            injection h with h1 h2
            subst h1 h2
            exact ⟨b5, b6, by rw [← hp]; rfl, hv⟩
          · rintro ⟨c5, c6, he, hc⟩
            obtain ⟨_, rfl, rfl, _, rfl⟩ := key c5 c6 he
            rw [hv] at hc <;> (injection hc with hc; rw [hc])
      · have : (b7 != 0) = true := by simpa using h7
        simp only [this, Bool.or_true, if_true]
        constructor
        · intro h; cases h
        · rintro ⟨c5, c6, he, _⟩
          exact absurd (key c5 c6 he).2.2.2.1 h7
    · have : ([b0, b1, b2, b3, b4] != ANEMO) = true := by simpa using hp
      simp only [this, Bool.true_or, if_true]
      constructor
      · intro h; cases h
      · rintro ⟨c5, c6, he, _⟩
        exact absurd (key c5 c6 he).1 hp
  · rename_i hno
    constructor
    · intro h; cases h
    · rintro ⟨c5, c6, he, _⟩
      simp [ANEMO] at he
      exact (hno _ _ _ _ _ _ _ _ _ he).elim

theorem C07_bad_preamble (p : Bytes) (b5 b6 b7 : UInt8) (rest : Bytes) (hl : p.length = 5)
    (h : p ≠ ANEMO ∨ b7 ≠ 0) :
    decodeVersionFrame (p ++ [b5, b6, b7] ++ rest) = .error .badPreamble := by
  match p, hl with
  | [a0, a1, a2, a3, a4], _ =>
    simp only [List.cons_append, List.nil_append, decodeVersionFrame]
    rcases h with h | h
    · have : ([a0, a1, a2, a3, a4] != ANEMO) = true := by simpa using h
      simp [this]
    · have : (b7 != 0) = true := by simpa using h
      simp [this]

theorem C07_bad_version (rest : Bytes) (c : Nat) (hc : c < 256^2) (hv : Version.new c = none) :
    decodeVersionFrame (ANEMO ++ be16 c ++ [0] ++ rest) = .error (.badVersion c) := by
  have e1 : c / 256 % 256 = c / 256 := Nat.mod_eq_of_lt (by omega)
  have e2 : c / 256 * 256 + c % 256 = c := by omega
  simp [decodeVersionFrame, ANEMO, beN, UInt8.toNat_ofNat', e1, e2, hv]

/-! ### layout of whole messages -/

/-- a request is written as preamble ++ frame(header) ++ frame(body), exactly when both fit;
the header is `le64 |route| ++ route ++ le64 |headers| ++ (le64 |k| ++ k ++ le64 |v| ++ v)*` -/
theorem C07_layout_request (max : Nat) (r : Req) (bytes : Bytes) :
    encodeRequest max r = .ok bytes ↔
      (encReqHeader r).length ≤ max ∧ r.body.length ≤ max ∧
      bytes = preamble r.version ++ (be32 (encReqHeader r).length ++ encReqHeader r)
                ++ (be32 r.body.length ++ r.body) := by
  rw [← writeMsg_ok_iff]
  unfold encodeRequest writeRequest
  cases writeMsg max r.version (encReqHeader r) r.body with
  | mk bs e => cases e <;> simp

theorem C07_layout_response (max : Nat) (r : Resp) (bytes : Bytes) :
    encodeResponse max r = .ok bytes ↔
      (encRespHeader r).length ≤ max ∧ r.body.length ≤ max ∧
      bytes = preamble r.version ++ (be32 (encRespHeader r).length ++ encRespHeader r)
                ++ (be32 r.body.length ++ r.body) := by
  rw [← writeMsg_ok_iff]
  unfold encodeResponse writeResponse
  cases writeMsg max r.version (encRespHeader r) r.body with
  | mk bs e => cases e <;> simp

theorem C07_layout_req_header (r : Req) :
    encReqHeader r = le64 r.route.length ++ r.route ++ (le64 r.headers.length ++ encMap r.headers) := rfl

theorem C07_layout_resp_header (r : Resp) :
    encRespHeader r = le16 r.status.toU16 ++ (le64 r.headers.length ++ encMap r.headers) := rfl

/-- golden vector: route "/", header a=b, body "hi" (also pinned against the real encoder in corpus/C07) -/
theorem C07_golden_request :
    writeRequest (effMax none) { route := [0x2f], headers := [([0x61], [0x62])], body := [0x68, 0x69] }
      = ([0x61,0x6e,0x65,0x6d,0x6f,0x00,0x01,0x00, 0x00,0x00,0x00,0x23,
             0x01,0,0,0,0,0,0,0, 0x2f, 0x01,0,0,0,0,0,0,0,
             0x01,0,0,0,0,0,0,0, 0x61, 0x01,0,0,0,0,0,0,0, 0x62,
             0x00,0x00,0x00,0x02, 0x68,0x69], none) := by
  decide

/-! ### round trip -/

private theorem encodeRequest_write (max : Nat) (r : Req) (bytes : Bytes) (h : encodeRequest max r = .ok bytes) :
    writeMsg max r.version (encReqHeader r) r.body = (bytes, none) := by
  unfold encodeRequest writeRequest at h
  cases hw : writeMsg max r.version (encReqHeader r) r.body with
  | mk bs e => rw [hw] at h; cases e <;> simp at h; subst h; rfl

private theorem encodeResponse_write (max : Nat) (r : Resp) (bytes : Bytes) (h : encodeResponse max r = .ok bytes) :
    writeMsg max r.version (encRespHeader r) r.body = (bytes, none) := by
  unfold encodeResponse writeResponse at h
  cases hw : writeMsg max r.version (encRespHeader r) r.body with
  | mk bs e => rw [hw] at h; cases e <;> simp at h; subst h; rfl

/-- Encoding then decoding reproduces route, headers (as the last-wins map of the entries, in
whatever order the encoder iterated them), body and version; extensions are dropped; the bytes
that follow the message are left unread. -/
theorem C07_roundtrip_request (max : Nat) (r : Req) (bytes rest : Bytes)
    (hmax : max ≤ lenFieldMax) (hwf : ReqWF r) (henc : encodeRequest max r = .ok bytes) :
    decodeRequest max (bytes ++ rest)
      = .ok ({ route := r.route, headers := normHeaders r.headers, body := r.body,
               version := r.version, ext := [] }, rest) := by
  have hw := encodeRequest_write max r bytes henc
  obtain ⟨h1, _, _⟩ := (writeMsg_ok_iff _ _ _ _ _).mp hw
  have hl4 := lenFieldMax_lt
  have hp := parseReqHeader_enc r hwf.1 hwf.2 (by omega)
  have := decodeMsg_writeMsg parseReqHeader _ max r.version _ r.body bytes rest hmax hw
    (C07_preamble_roundtrip r.version) hp
  unfold decodeRequest
  rw [this]

theorem C07_roundtrip_response (max : Nat) (r : Resp) (bytes rest : Bytes)
    (hmax : max ≤ lenFieldMax) (hwf : RespWF r) (henc : encodeResponse max r = .ok bytes) :
    decodeResponse max (bytes ++ rest)
      = .ok ({ status := r.status, headers := normHeaders r.headers, body := r.body,
               version := r.version, ext := [] }, rest) := by
  have hw := encodeResponse_write max r bytes henc
  obtain ⟨h1, _, _⟩ := (writeMsg_ok_iff _ _ _ _ _).mp hw
  have hl4 := lenFieldMax_lt
  have hp := parseRespHeader_enc r hwf (C07_status_table_fwd r.status) (C07_status_fits_u16 r.status) (by omega)
  have := decodeMsg_writeMsg parseRespHeader _ max r.version _ r.body bytes rest hmax hw
    (C07_preamble_roundtrip r.version) hp
  unfold decodeResponse
  rw [this]

/-- with distinct keys (what a `HashMap` holds) the header list comes back unchanged, for every
ordering of the entries -/
theorem C07_roundtrip_request_exact (max : Nat) (r : Req) (bytes rest : Bytes)
    (hmax : max ≤ lenFieldMax) (hwf : ReqWF r) (hnd : (r.headers.map (·.1)).Nodup)
    (henc : encodeRequest max r = .ok bytes) :
    decodeRequest max (bytes ++ rest) = .ok ({ r with ext := [] }, rest) := by
  rw [C07_roundtrip_request max r bytes rest hmax hwf henc, normHeaders_nodup _ hnd]

theorem C07_roundtrip_response_exact (max : Nat) (r : Resp) (bytes rest : Bytes)
    (hmax : max ≤ lenFieldMax) (hwf : RespWF r) (hnd : (r.headers.map (·.1)).Nodup)
    (henc : encodeResponse max r = .ok bytes) :
    decodeResponse max (bytes ++ rest) = .ok ({ r with ext := [] }, rest) := by
  rw [C07_roundtrip_response max r bytes rest hmax hwf henc, normHeaders_nodup _ hnd]

/-- the decoded map agrees with last-wins insertion of the encoded entries -/
theorem C07_headers_last_wins (acc : Headers) (k v k' : Bytes) :
    hLookup (hInsert acc k v) k' = if k = k' then some v else hLookup acc k' :=
  hLookup_hInsert acc k v k'

/-! ### extensions never travel -/
theorem C07_extensions_dont_travel_req (max : Nat) (r : Req) (e : List Nat) :
    writeRequest max { r with ext := e } = writeRequest max r := rfl

theorem C07_extensions_dont_travel_resp (max : Nat) (r : Resp) (e : List Nat) :
    writeResponse max { r with ext := e } = writeResponse max r := rfl

theorem C07_decoded_extensions_empty_req (max : Nat) (bs : Bytes) (r : Req) (rest : Bytes)
    (h : decodeRequest max bs = .ok (r, rest)) : r.ext = [] := by
  unfold decodeRequest at h
  split at h
  · simp at h
  · injection h with h; injection h with h _; subst h; rfl

theorem C07_decoded_extensions_empty_resp (max : Nat) (bs : Bytes) (r : Resp) (rest : Bytes)
    (h : decodeResponse max bs = .ok (r, rest)) : r.ext = [] := by
  unfold decodeResponse at h
  split at h
  · simp at h
  · injection h with h; injection h with h _; subst h; rfl

/-! ### rejection -/

/-- every strict prefix of a valid message is rejected with an error -/
theorem C07_prefix_rejected_request (max : Nat) (r : Req) (bytes : Bytes) (k : Nat)
    (hmax : max ≤ lenFieldMax) (henc : encodeRequest max r = .ok bytes) (hk : k < bytes.length) :
    ∃ e, decodeRequest max (bytes.take k) = .error e := by
  obtain ⟨e, he⟩ := decodeMsg_prefix parseReqHeader max r.version _ r.body bytes k hmax
    (encodeRequest_write max r bytes henc) (C07_preamble_roundtrip r.version) hk
  exact ⟨e, by unfold decodeRequest; rw [he]⟩

theorem C07_prefix_rejected_response (max : Nat) (r : Resp) (bytes : Bytes) (k : Nat)
    (hmax : max ≤ lenFieldMax) (henc : encodeResponse max r = .ok bytes) (hk : k < bytes.length) :
    ∃ e, decodeResponse max (bytes.take k) = .error e := by
  obtain ⟨e, he⟩ := decodeMsg_prefix parseRespHeader max r.version _ r.body bytes k hmax
    (encodeResponse_write max r bytes henc) (C07_preamble_roundtrip r.version) hk
  exact ⟨e, by unfold decodeResponse; rw [he]⟩

/-- an unknown status code in an otherwise well-formed header frame is rejected (before the body
is looked at) -/
theorem C07_bad_status (hb : Bytes) (c : Nat) (h : Headers)
    (hd : decRespHeader hb = some (c, h)) (hc : StatusCode.new c = none) :
    parseRespHeader hb = .error (.badStatus c) := by
  unfold parseRespHeader; rw [hd]; simp only; rw [hc]

/-- a response decodes only with a status from the table -/
theorem C07_decoded_status_known (max : Nat) (bs : Bytes) (r : Resp) (rest : Bytes)
    (_h : decodeResponse max bs = .ok (r, rest)) : StatusCode.new r.status.toU16 = some r.status :=
  C07_status_table_fwd r.status

/-! ### non-vacuity: the hypotheses are met by concrete, non-trivial messages -/
example : ReqWF { route := [0x2f, 0xc3, 0xa9], headers := [([0x61], [0x62]), ([], [0xe2, 0x82, 0xac])], body := [1, 2, 3] } := by
  refine ⟨by unfold StrWF; decide, ?_⟩
  intro kv hkv
  simp at hkv
  rcases hkv with rfl | rfl <;> decide

example : ∃ bytes, encodeRequest (effMax none)
    { route := [0x2f], headers := [([0x61], [0x62])], body := [0x68, 0x69] } = .ok bytes ∧ 8 < bytes.length :=
  ⟨_, by unfold encodeRequest; rw [C07_golden_request], by decide⟩

example : effMax none ≤ lenFieldMax ∧ effMax (some 5) ≤ lenFieldMax ∧ effMax (some (2^40)) ≤ lenFieldMax := by decide

example : StatusCode.new 418 = none ∧ Version.new 2 = none := by decide


/-- **The framing the model describes is the one the source performs**, read off wire.rs on this run:
writing = version frame, then ONE length-delimited frame holding the bincode (fixed-int) serialisation
of the raw header (`route, headers` / `status, headers`, in that order; extensions are dropped), then
ONE frame holding the body; reading = version frame, header frame or "unexpected EOF", bincode
deserialisation, header conversion (the status code is checked), body frame or "unexpected EOF".
Shapes recognised (`wireShapeChecked`): the version frame (`anemo`, u16 big-endian, a zero byte;
read with `read_exact`), the codec (4-byte big-endian length, `max_frame_length` only when configured),
the connection handshake (the listener sends, the dialer reads), the raw header structs and their
conversions (names and values copied as they are, extensions start empty). -/
theorem C07_framing_is_translated :
    Gen.writeRequestGen = [.versionFrame, .splitParts, .rawHeader, .newBuffer, .bincodeFixintHeader, .sendHeaderFrame, .sendBodyFrame, .returnOk] ∧
    Gen.writeResponseGen = [.versionFrame, .splitParts, .rawHeaderDropExtensions, .newBuffer, .bincodeFixintHeader, .sendHeaderFrame, .sendBodyFrame, .returnOk] ∧
    Gen.readRequestGen = [.versionFrame, .recvHeaderFrameOrEof, .bincodeFixintHeader, .headerFromRaw, .recvBodyFrameOrEof, .assemble, .returnMessage] ∧
    Gen.readResponseGen = [.versionFrame, .recvHeaderFrameOrEof, .bincodeFixintHeader, .headerFromRawChecked, .recvBodyFrameOrEof, .assemble, .returnMessage] ∧
    Gen.wireShapeChecked = true := ⟨rfl, rfl, rfl, rfl, rfl⟩

end Anemo
