import AnemoModel.Rpc
import AnemoModel.Lemmas.Wire
namespace Anemo
open Gen

theorem unframe_tooBig (max : Nat) (p rest : Bytes) (hp : max < p.length) (hlt : p.length < 256^4) :
    unframe max (be32 p.length ++ p ++ rest) = .error .frameTooBig := by
  have hrd : rdBe32 (be32 p.length ++ p ++ rest) = some (p.length, p ++ rest) := by
    simpa [List.append_assoc] using rdBeN_beN 4 p.length hlt (p ++ rest)
  have hne : be32 p.length ++ p ++ rest ≠ [] := by
    intro h
    have := congrArg List.length h
    simp at this
  unfold unframe
  split
  · contradiction
  · rw [hrd]; simp only; rw [if_pos hp]

/-- reading a message that was written (with any sender limit) under receiver limit `max` -/
theorem decodeMsg_written {α : Type} (parse : Bytes → Except WireErr α) (a : α) (wmax max : Nat) (ver : Version)
    (hdr body bytes rest : Bytes) (hwmax : wmax ≤ lenFieldMax) (hmax : max ≤ lenFieldMax)
    (hw : writeMsg wmax ver hdr body = (bytes, none))
    (hvf : ∀ t, decodeVersionFrame (preamble ver ++ t) = .ok (ver, t))
    (hp : parse hdr = .ok a) :
    decodeMsg parse max (bytes ++ rest) =
      if hdr.length ≤ max ∧ body.length ≤ max then .ok (ver, a, body, rest) else .error .frameTooBig := by
  obtain ⟨h1, h2, h3⟩ := (writeMsg_ok_iff _ _ _ _ _).mp hw
  have hl4 := lenFieldMax_lt
  have e : bytes ++ rest
      = preamble ver ++ (be32 hdr.length ++ hdr ++ (be32 body.length ++ body ++ rest)) := by
    rw [h3]; simp only [List.append_assoc]
  rw [e]
  by_cases hh : hdr.length ≤ max
  · by_cases hb : body.length ≤ max
    · rw [if_pos ⟨hh, hb⟩]
      exact decodeMsg_ok parse max _ ver _ hdr _ body rest a (hvf _)
        (unframe_frame max hdr _ hh hmax) hp (unframe_frame max body rest hb hmax)
    · rw [if_neg (by omega)]
      exact decodeMsg_err3 parse max _ _ ver _ hdr _ a (hvf _)
        (unframe_frame max hdr _ hh hmax) hp (unframe_tooBig max body rest (by omega) (by omega))
  · rw [if_neg (by omega)]
    exact decodeMsg_err1 parse max _ _ ver _ (hvf _) (unframe_tooBig max hdr _ (by omega) (by omega))

/-! `rpcRoundTrip` step by step, over variables only -/
section steps
variable (cm sm : Nat) (req : Req) (handler : Req → Resp)

theorem rpc_err1 (e : WireErr) (h1 : encodeRequest cm req = .error e) :
    rpcRoundTrip cm sm req handler = .error (.callerSend e) := by
  unfold rpcRoundTrip; rw [h1]

theorem rpc_err2 (e : WireErr) (bytes : Bytes) (h1 : encodeRequest cm req = .ok bytes)
    (h2 : decodeRequest sm bytes = .error e) :
    rpcRoundTrip cm sm req handler = .error (.calleeRecv e) := by
  unfold rpcRoundTrip; rw [h1]; simp only; rw [h2]

theorem rpc_err3 (e : WireErr) (bytes rest : Bytes) (req' : Req) (h1 : encodeRequest cm req = .ok bytes)
    (h2 : decodeRequest sm bytes = .ok (req', rest)) (h3 : encodeResponse sm (handler req') = .error e) :
    rpcRoundTrip cm sm req handler = .error (.calleeSend e) := by
  unfold rpcRoundTrip; rw [h1]; simp only; rw [h2]; simp only; rw [h3]

theorem rpc_err4 (e : WireErr) (bytes rest rbytes : Bytes) (req' : Req) (h1 : encodeRequest cm req = .ok bytes)
    (h2 : decodeRequest sm bytes = .ok (req', rest)) (h3 : encodeResponse sm (handler req') = .ok rbytes)
    (h4 : decodeResponse cm rbytes = .error e) :
    rpcRoundTrip cm sm req handler = .error (.callerRecv e) := by
  unfold rpcRoundTrip; rw [h1]; simp only; rw [h2]; simp only; rw [h3]; simp only; rw [h4]

theorem rpc_ok (bytes rest rbytes rest2 : Bytes) (req' : Req) (resp : Resp) (h1 : encodeRequest cm req = .ok bytes)
    (h2 : decodeRequest sm bytes = .ok (req', rest)) (h3 : encodeResponse sm (handler req') = .ok rbytes)
    (h4 : decodeResponse cm rbytes = .ok (resp, rest2)) :
    rpcRoundTrip cm sm req handler = .ok resp := by
  unfold rpcRoundTrip; rw [h1]; simp only; rw [h2]; simp only; rw [h3]; simp only; rw [h4]
end steps

end Anemo
