/- helper lemmas for the node model (active-peer set + handler tasks) -/
import AnemoModel.Node
import AnemoModel.Lemmas.Peers
namespace Anemo

structure Node.Inv (n : Node) : Prop where
  active : n.active.Inv
  entryHasHandler : ∀ e ∈ n.active.conns, e.2 ∈ n.handlers
  handlerAccounted : ∀ c ∈ n.handlers, c.id ∈ n.active.added ∧ (c.id ∈ n.active.closed ∨ (c.peer, c) ∈ n.active.conns)

theorem add_none (own : PeerId) (s : Active) (c : Conn) (hl : lookupConn s.conns c.peer = none) :
    s.add own c = ({ s with conns := s.conns ++ [(c.peer, c)], log := s.log ++ [.newPeer c.peer], added := s.added ++ [c.id] }, true) := by
  simp [Active.add, hl]

theorem add_replace (own : PeerId) (s : Active) (c old : Conn) (hl : lookupConn s.conns c.peer = some old)
    (ht : tieBreak own c.peer old.origin c.origin = true) :
    s.add own c = ({ conns := eraseConn s.conns c.peer ++ [(c.peer, c)],
                     log := s.log ++ [.lostPeer c.peer .requested, .newPeer c.peer],
                     closed := s.closed ++ [old.id], added := s.added ++ [c.id] }, true) := by
  simp [Active.add, hl, ht]

theorem add_drop (own : PeerId) (s : Active) (c old : Conn) (hl : lookupConn s.conns c.peer = some old)
    (ht : ¬ tieBreak own c.peer old.origin c.origin = true) :
    s.add own c = ({ s with closed := s.closed ++ [c.id], added := s.added ++ [c.id] }, false) := by
  simp [Active.add, hl, ht]

theorem Node.step_inv (own : PeerId) (n : Node) (op : NodeOp) (h : n.Inv) (hf : op.freshFor n) : (n.step own op).Inv := by
  obtain ⟨ha, h1, h2⟩ := h
  cases op with
  | established c =>
    simp only [NodeOp.freshFor] at hf
    have hadd := (Active.add_ok own c n.active ha hf).1
    refine ⟨by simpa [Node.step] using hadd, ?_, ?_⟩
    · -- every entry has its handler
      simp only [Node.step]
      cases hl : lookupConn n.active.conns c.peer with
      | none =>
        rw [add_none own _ c hl]
        intro e he
        rcases List.mem_append.mp he with he | he
        · exact List.mem_append_left _ (h1 e he)
        · simp at he; subst he; simp
      | some old =>
        by_cases ht : tieBreak own c.peer old.origin c.origin = true
        · rw [add_replace own _ c old hl ht]
          intro e he
          rcases List.mem_append.mp he with he | he
          · exact List.mem_append_left _ (h1 e ((mem_eraseConn _ _ _).mp he).1)
          · simp at he; subst he; simp
        · rw [add_drop own _ c old hl ht]
          intro e he
          simpa using h1 e he
    · simp only [Node.step]
      cases hl : lookupConn n.active.conns c.peer with
      | none =>
        rw [add_none own _ c hl]
        intro x hx
        rcases List.mem_append.mp hx with hx | hx
        · obtain ⟨a1, a2⟩ := h2 x hx
          refine ⟨List.mem_append_left _ a1, ?_⟩
          rcases a2 with a2 | a2
          · exact Or.inl a2
          · exact Or.inr (List.mem_append_left _ a2)
        · simp at hx; subst hx; simp
      | some old =>
        by_cases ht : tieBreak own c.peer old.origin c.origin = true
        · rw [add_replace own _ c old hl ht]
          intro x hx
          rcases List.mem_append.mp hx with hx | hx
          · obtain ⟨a1, a2⟩ := h2 x hx
            refine ⟨List.mem_append_left _ a1, ?_⟩
            rcases a2 with a2 | a2
            · exact Or.inl (List.mem_append_left _ a2)
            · by_cases hp : x.peer = c.peer
              · left
                have : lookupConn n.active.conns c.peer = some x := lookupConn_of_mem_nodup _ _ _ ha.nodup (hp ▸ a2)
                rw [hl] at this
                injection this with this
                subst this
                simp
              · right
                exact List.mem_append_left _ ((mem_eraseConn _ _ _).mpr ⟨a2, hp⟩)
          · simp at hx; subst hx; simp
        · rw [add_drop own _ c old hl ht]
          intro x hx
          obtain ⟨a1, a2⟩ := h2 x (by simpa using hx)
          refine ⟨List.mem_append_left _ a1, ?_⟩
          rcases a2 with a2 | a2
          · exact Or.inl (List.mem_append_left _ a2)
          · exact Or.inr a2
  | handlerExit id r =>
    simp only [Node.step]
    cases hfind : n.handlers.find? (·.id = id) with
    | none => exact ⟨ha, h1, h2⟩
    | some c =>
      have hcm : c ∈ n.handlers := List.mem_of_find?_eq_some hfind
      have hcid : c.id = id := by simpa using List.find?_some hfind
      obtain ⟨_, hc2⟩ := h2 c hcm
      have hrs := (Active.removeStable_ok c.peer id r n.active ha).1
      refine ⟨hrs, ?_, ?_⟩
      · -- remaining entries keep their handler (the handler that exits serves no remaining entry)
        intro e he
        simp only [Active.removeStable, Active.remove] at he
        cases hl : lookupConn n.active.conns c.peer with
        | none =>
          simp only [hl] at he
          have hmem := h1 e he
          refine List.mem_filter.mpr ⟨hmem, ?_⟩
          simp only [decide_eq_true_eq, ne_eq]
          intro heq
          -- e serves id: then c's entry would be e, contradiction with lookup none / closed
          rcases hc2 with hcl | hin
          · exact ha.notClosed e he (by rw [heq, ← hcid]; exact hcl)
          · have := lookupConn_of_mem_nodup _ _ _ ha.nodup hin
            rw [hl] at this; cases this
        | some c' =>
          simp only [hl] at he
          by_cases hid : c'.id = id
          · simp only [hid, if_true] at he
            have he' := (mem_eraseConn _ _ _).mp he
            have hmem := h1 e he'.1
            refine List.mem_filter.mpr ⟨hmem, ?_⟩
            simp only [decide_eq_true_eq, ne_eq]
            intro heq
            -- two stored connections with the same id are the same entry
            have hc' : (c.peer, c') ∈ n.active.conns := lookupConn_some_mem _ _ _ hl
            have := inj_of_nodup_map (fun (x : PeerId × Conn) => x.2.id) n.active.conns ha.storedIdsNodup he'.1 hc' (by simp [heq, hid])
            exact he'.2 (by rw [this])
          · simp only [hid, if_false] at he
            have hmem := h1 e he
            refine List.mem_filter.mpr ⟨hmem, ?_⟩
            simp only [decide_eq_true_eq, ne_eq]
            intro heq
            rcases hc2 with hcl | hin
            · exact ha.notClosed e he (by rw [heq, ← hcid]; exact hcl)
            · have := lookupConn_of_mem_nodup _ _ _ ha.nodup hin
              rw [hl] at this
              injection this with this
              exact hid (by rw [this]; exact hcid)
      · intro x hx
        have hx' := List.mem_filter.mp hx
        have hxid : x.id ≠ id := by simpa using hx'.2
        obtain ⟨a1, a2⟩ := h2 x hx'.1
        simp only [Active.removeStable, Active.remove]
        cases hl : lookupConn n.active.conns c.peer with
        | none => exact ⟨a1, a2⟩
        | some c' =>
          by_cases hid : c'.id = id
          · simp only [hid, if_true]
            refine ⟨a1, ?_⟩
            rcases a2 with a2 | a2
            · exact Or.inl (List.mem_append_left _ a2)
            · by_cases hp : x.peer = c.peer
              · have := lookupConn_of_mem_nodup _ _ _ ha.nodup (hp ▸ a2)
                rw [hl] at this
                injection this with this
                exact absurd (by rw [← this]; exact hid) hxid
              · exact Or.inr ((mem_eraseConn _ _ _).mpr ⟨a2, hp⟩)
          · simp only [hid, if_false]
            exact ⟨a1, a2⟩
  | disconnect p =>
    simp only [Node.step]
    have hrm := (Active.remove_ok p .requested n.active ha).1
    refine ⟨hrm, ?_, ?_⟩
    · intro e he
      simp only [Active.remove] at he
      cases hl : lookupConn n.active.conns p with
      | none => simp only [hl] at he; exact h1 e he
      | some c' => simp only [hl] at he; exact h1 e ((mem_eraseConn _ _ _).mp he).1
    · intro x hx
      obtain ⟨a1, a2⟩ := h2 x hx
      simp only [Active.remove]
      cases hl : lookupConn n.active.conns p with
      | none => exact ⟨a1, a2⟩
      | some c' =>
        refine ⟨a1, ?_⟩
        rcases a2 with a2 | a2
        · exact Or.inl (List.mem_append_left _ a2)
        · by_cases hp : x.peer = p
          · have := lookupConn_of_mem_nodup _ _ _ ha.nodup (hp ▸ a2)
            rw [hl] at this
            injection this with this
            left; rw [this]; simp
          · exact Or.inr ((mem_eraseConn _ _ _).mpr ⟨a2, hp⟩)

def Node.runOk (own : PeerId) : Node → List NodeOp → Prop
  | _, [] => True
  | n, op :: rest => op.freshFor n ∧ Node.runOk own (n.step own op) rest

theorem Node.run_inv (own : PeerId) (ops : List NodeOp) (n : Node) (h : n.Inv) (hok : Node.runOk own n ops) :
    (n.run own ops).Inv := by
  induction ops generalizing n with
  | nil => exact h
  | cons op rest ih =>
    simp only [Node.runOk] at hok
    exact ih _ (Node.step_inv own n op h hok.1) hok.2

theorem Node.inv_init : ({} : Node).Inv :=
  ⟨Active.inv_init, by simp, by simp⟩

end Anemo
