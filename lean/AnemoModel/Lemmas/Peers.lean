import AnemoModel.Peers
namespace Anemo

/-! ## association-list facts -/

theorem lookupConn_none_iff (l : List (PeerId × Conn)) (p : PeerId) :
    lookupConn l p = none ↔ p ∉ l.map (·.1) := by
  induction l with
  | nil => simp [lookupConn]
  | cons e t ih =>
    obtain ⟨q, c⟩ := e
    by_cases h : q = p
    · simp [lookupConn, h]
    · simp only [lookupConn, h, if_false, ih, List.map_cons, List.mem_cons, not_or]
      constructor
      · intro h'; exact ⟨fun e => h e.symm, h'⟩
      · intro h'; exact h'.2

theorem lookupConn_some_mem (l : List (PeerId × Conn)) (p : PeerId) (c : Conn)
    (h : lookupConn l p = some c) : (p, c) ∈ l := by
  induction l with
  | nil => simp [lookupConn] at h
  | cons e t ih =>
    obtain ⟨q, c'⟩ := e
    by_cases hq : q = p
    · simp [lookupConn, hq] at h; subst hq h; simp
    · simp [lookupConn, hq] at h; exact List.mem_cons_of_mem _ (ih h)

theorem lookupConn_of_mem_nodup (l : List (PeerId × Conn)) (p : PeerId) (c : Conn)
    (hnd : (l.map (·.1)).Nodup) (h : (p, c) ∈ l) : lookupConn l p = some c := by
  induction l with
  | nil => simp at h
  | cons e t ih =>
    obtain ⟨q, c'⟩ := e
    simp only [List.map_cons, List.nodup_cons] at hnd
    rcases List.mem_cons.mp h with heq | hm
    · injection heq with h1 h2; subst h1 h2; simp [lookupConn]
    · have : q ≠ p := by
        intro e; subst e
        exact hnd.1 (List.mem_map.mpr ⟨(q, c), hm, rfl⟩)
      simp [lookupConn, this, ih hnd.2 hm]

theorem keys_eraseConn (l : List (PeerId × Conn)) (p : PeerId) :
    (eraseConn l p).map (·.1) = (l.map (·.1)).filter (· ≠ p) := by
  induction l with
  | nil => rfl
  | cons e t ih =>
    obtain ⟨q, c⟩ := e
    by_cases h : q = p <;> simp [eraseConn, List.filter_cons, h] <;> simpa [eraseConn] using ih

theorem mem_eraseConn (l : List (PeerId × Conn)) (p : PeerId) (e : PeerId × Conn) :
    e ∈ eraseConn l p ↔ e ∈ l ∧ e.1 ≠ p := by
  simp [eraseConn, List.mem_filter]

theorem nodup_filter_append_fresh (l : List PeerId) (p : PeerId) (h : l.Nodup) :
    (l.filter (· ≠ p) ++ [p]).Nodup := by
  rw [List.nodup_append]
  refine ⟨h.filter _, by simp, ?_⟩
  intro a ha b hb
  simp at hb; subst hb
  simp [List.mem_filter] at ha
  exact ha.2

theorem inj_of_nodup_map {α β} [DecidableEq β] (f : α → β) (l : List α) (h : (l.map f).Nodup)
    {a b : α} (ha : a ∈ l) (hb : b ∈ l) (hab : f a = f b) : a = b := by
  induction l with
  | nil => simp at ha
  | cons x t ih =>
    simp only [List.map_cons, List.nodup_cons] at h
    rcases List.mem_cons.mp ha with rfl | ha' <;> rcases List.mem_cons.mp hb with rfl | hb'
    · rfl
    · exact absurd (List.mem_map.mpr ⟨b, hb', hab.symm⟩) h.1
    · exact absurd (List.mem_map.mpr ⟨a, ha', hab⟩) h.1
    · exact ih h.2 ha' hb'

/-! ## replay -/

theorem replayStrict_append (l : List PeerId) (e1 e2 : List Event) :
    replayStrict l (e1 ++ e2) = (replayStrict l e1).bind (fun l' => replayStrict l' e2) := by
  induction e1 generalizing l with
  | nil => simp [replayStrict]
  | cons e t ih =>
    cases e with
    | newPeer p =>
      simp only [List.cons_append, replayStrict]
      by_cases h : p ∈ l <;> simp [h, ih]
    | lostPeer p r =>
      simp only [List.cons_append, replayStrict]
      by_cases h : p ∈ l <;> simp [h, ih]

/-! ## the invariant -/

structure Active.Inv (s : Active) : Prop where
  nodup : (s.conns.map (·.1)).Nodup
  keyed : ∀ e ∈ s.conns, e.2.peer = e.1
  notClosed : ∀ e ∈ s.conns, e.2.id ∉ s.closed
  storedAdded : ∀ e ∈ s.conns, e.2.id ∈ s.added
  storedIdsNodup : (s.conns.map (·.2.id)).Nodup
  noLeak : ∀ i ∈ s.added, i ∈ s.closed ∨ ∃ e ∈ s.conns, e.2.id = i
  closedAdded : ∀ i ∈ s.closed, i ∈ s.added

theorem Active.inv_init : ({} : Active).Inv :=
  ⟨by simp, by simp, by simp, by simp, by simp, by simp, by simp⟩

/-- what one operation does to listing and log: the new events replay the old listing into the new one -/
structure StepOk (s s' : Active) : Prop where
  logExt : ∃ ev, s'.log = s.log ++ ev ∧ replayStrict s.peers ev = some s'.peers

theorem Active.remove_ok (p : PeerId) (r : Reason) (s : Active) (h : s.Inv) :
    (s.remove p r).Inv ∧ StepOk s (s.remove p r) := by
  unfold Active.remove
  cases hl : lookupConn s.conns p with
  | none => exact ⟨h, ⟨[], by simp, by simp [replayStrict]⟩⟩
  | some c =>
    have hmem := lookupConn_some_mem _ _ _ hl
    have hp : p ∈ s.conns.map (·.1) := List.mem_map.mpr ⟨(p, c), hmem, rfl⟩
    refine ⟨⟨?_, ?_, ?_, ?_, ?_, ?_, ?_⟩, ⟨[.lostPeer p r], rfl, ?_⟩⟩
    · simp only [keys_eraseConn]; exact h.nodup.filter _
    · intro e he; exact h.keyed e ((mem_eraseConn _ _ _).mp he).1
    · intro e he
      have ⟨hin, hne⟩ := (mem_eraseConn _ _ _).mp he
      simp only [List.mem_append, List.mem_singleton, not_or]
      refine ⟨h.notClosed e hin, ?_⟩
      intro heq
      -- two stored entries with the same connection id are the same entry
      have := inj_of_nodup_map (·.2.id) _ h.storedIdsNodup hin hmem heq
      exact hne (by rw [this])
    · intro e he; exact h.storedAdded e ((mem_eraseConn _ _ _).mp he).1
    · have : (eraseConn s.conns p).map (·.2.id) = ((s.conns.filter (fun e => e.1 ≠ p)).map (·.2.id)) := rfl
      rw [this]
      exact (h.storedIdsNodup.sublist (List.Sublist.map _ List.filter_sublist))
    · intro i hi
      rcases h.noLeak i hi with hc | ⟨e, he, hid⟩
      · exact Or.inl (List.mem_append_left _ hc)
      · by_cases hep : e.1 = p
        · left
          have : e = (p, c) := by
            have := lookupConn_of_mem_nodup _ e.1 e.2 h.nodup he
            rw [hep, hl] at this; injection this with this
            cases e; simp_all
          simp [← hid, this]
        · exact Or.inr ⟨e, (mem_eraseConn _ _ _).mpr ⟨he, hep⟩, hid⟩
    · intro i hi
      rcases List.mem_append.mp hi with hc | hc
      · exact h.closedAdded i hc
      · simp at hc; subst hc; exact h.storedAdded _ hmem
    · simp only [Active.peers, replayStrict, hp, if_true, keys_eraseConn]

theorem Active.removeStable_ok (p : PeerId) (id : Nat) (r : Reason) (s : Active) (h : s.Inv) :
    (s.removeStable p id r).Inv ∧ StepOk s (s.removeStable p id r) := by
  unfold Active.removeStable
  cases hl : lookupConn s.conns p with
  | none => exact ⟨h, ⟨[], by simp, by simp [replayStrict]⟩⟩
  | some c =>
    simp only
    by_cases hid : c.id = id
    · rw [if_pos hid]; exact Active.remove_ok p r s h
    · rw [if_neg hid]; exact ⟨h, ⟨[], by simp, by simp [replayStrict]⟩⟩

theorem Active.add_ok (own : PeerId) (c : Conn) (s : Active) (h : s.Inv) (hfresh : c.id ∉ s.added) :
    (s.add own c).1.Inv ∧ StepOk s (s.add own c).1 := by
  have hfc : c.id ∉ s.closed := fun hc => hfresh (h.closedAdded _ hc)
  have hfs : ∀ e ∈ s.conns, e.2.id ≠ c.id := fun e he heq => hfresh (heq ▸ h.storedAdded e he)
  unfold Active.add
  cases hl : lookupConn s.conns c.peer with
  | none =>
    have hp : c.peer ∉ s.conns.map (·.1) := (lookupConn_none_iff _ _).mp hl
    refine ⟨⟨?_, ?_, ?_, ?_, ?_, ?_, ?_⟩, ⟨[.newPeer c.peer], rfl, ?_⟩⟩
    · simp only [List.map_append, List.map_cons, List.map_nil]
      rw [List.nodup_append]
      refine ⟨h.nodup, by simp, ?_⟩
      intro a ha b hb; simp at hb; subst hb
      intro e; subst e; exact hp ha
    · intro e he
      rcases List.mem_append.mp he with he | he
      · exact h.keyed e he
      · simp at he; subst he; rfl
    · intro e he
      rcases List.mem_append.mp he with he | he
      · exact h.notClosed e he
      · simp at he; subst he; exact hfc
    · intro e he
      rcases List.mem_append.mp he with he | he
      · exact List.mem_append_left _ (h.storedAdded e he)
      · simp at he; subst he; simp
    · simp only [List.map_append, List.map_cons, List.map_nil]
      rw [List.nodup_append]
      refine ⟨h.storedIdsNodup, by simp, ?_⟩
      intro a ha b hb; simp at hb; subst hb
      obtain ⟨e, he, rfl⟩ := List.mem_map.mp ha
      exact hfs e he
    · intro i hi
      rcases List.mem_append.mp hi with hi | hi
      · rcases h.noLeak i hi with hc | ⟨e, he, hid⟩
        · exact Or.inl hc
        · exact Or.inr ⟨e, List.mem_append_left _ he, hid⟩
      · simp at hi; subst hi; exact Or.inr ⟨(c.peer, c), by simp, rfl⟩
    · intro i hi; exact List.mem_append_left _ (h.closedAdded i hi)
    · simp only [Active.peers, replayStrict, hp, if_false, List.map_append, List.map_cons, List.map_nil]
  | some old =>
    have hmem := lookupConn_some_mem _ _ _ hl
    have hp : c.peer ∈ s.conns.map (·.1) := List.mem_map.mpr ⟨(c.peer, old), hmem, rfl⟩
    simp only
    by_cases htb : tieBreak own c.peer old.origin c.origin = true
    · rw [if_pos htb]
      refine ⟨⟨?_, ?_, ?_, ?_, ?_, ?_, ?_⟩, ⟨[.lostPeer c.peer .requested, .newPeer c.peer], rfl, ?_⟩⟩
      · simp only [List.map_append, List.map_cons, List.map_nil, keys_eraseConn]
        exact nodup_filter_append_fresh _ _ h.nodup
      · intro e he
        rcases List.mem_append.mp he with he | he
        · exact h.keyed e ((mem_eraseConn _ _ _).mp he).1
        · simp at he; subst he; rfl
      · intro e he
        simp only [List.mem_append, List.mem_singleton, not_or]
        rcases List.mem_append.mp he with he | he
        · have ⟨hin, hne⟩ := (mem_eraseConn _ _ _).mp he
          refine ⟨h.notClosed e hin, ?_⟩
          intro heq
          have := inj_of_nodup_map (·.2.id) _ h.storedIdsNodup hin hmem heq
          exact hne (by rw [this])
        · simp at he; subst he
          exact ⟨hfc, fun heq => hfs _ hmem heq.symm⟩
      · intro e he
        rcases List.mem_append.mp he with he | he
        · exact List.mem_append_left _ (h.storedAdded e ((mem_eraseConn _ _ _).mp he).1)
        · simp at he; subst he; simp
      · simp only [List.map_append, List.map_cons, List.map_nil]
        rw [List.nodup_append]
        refine ⟨?_, by simp, ?_⟩
        · have : (eraseConn s.conns c.peer).map (·.2.id) = ((s.conns.filter (fun e => e.1 ≠ c.peer)).map (·.2.id)) := rfl
          rw [this]
          exact (h.storedIdsNodup.sublist (List.Sublist.map _ List.filter_sublist))
        · intro a ha b hb; simp at hb; subst hb
          obtain ⟨e, he, rfl⟩ := List.mem_map.mp ha
          exact hfs e ((mem_eraseConn _ _ _).mp he).1
      · intro i hi
        rcases List.mem_append.mp hi with hi | hi
        · rcases h.noLeak i hi with hc | ⟨e, he, hid⟩
          · exact Or.inl (List.mem_append_left _ hc)
          · by_cases hep : e.1 = c.peer
            · left
              have : e = (c.peer, old) := by
                have := lookupConn_of_mem_nodup _ e.1 e.2 h.nodup he
                rw [hep, hl] at this; injection this with this
                cases e; simp_all
              simp [← hid, this]
            · exact Or.inr ⟨e, List.mem_append_left _ ((mem_eraseConn _ _ _).mpr ⟨he, hep⟩), hid⟩
        · simp at hi; subst hi; exact Or.inr ⟨(c.peer, c), by simp, rfl⟩
      · intro i hi
        rcases List.mem_append.mp hi with hc | hc
        · exact List.mem_append_left _ (h.closedAdded i hc)
        · simp at hc; subst hc; exact List.mem_append_left _ (h.storedAdded _ hmem)
      · have hnf : c.peer ∉ (s.conns.map (·.1)).filter (· ≠ c.peer) := by simp [List.mem_filter]
        simp only [Active.peers, replayStrict, hp, if_true, hnf, if_false, List.map_append, List.map_cons,
          List.map_nil, keys_eraseConn]
    · rw [if_neg htb]
      refine ⟨⟨h.nodup, h.keyed, ?_, ?_, h.storedIdsNodup, ?_, ?_⟩, ⟨[], by simp, by simp [replayStrict, Active.peers]⟩⟩
      · intro e he
        simp only [List.mem_append, List.mem_singleton, not_or]
        exact ⟨h.notClosed e he, hfs e he⟩
      · intro e he; exact List.mem_append_left _ (h.storedAdded e he)
      · intro i hi
        rcases List.mem_append.mp hi with hi | hi
        · rcases h.noLeak i hi with hc | hx
          · exact Or.inl (List.mem_append_left _ hc)
          · exact Or.inr hx
        · simp at hi; subst hi; exact Or.inl (by simp)
      · intro i hi
        rcases List.mem_append.mp hi with hc | hc
        · exact List.mem_append_left _ (h.closedAdded i hc)
        · simp at hc; subst hc; simp

/-! ### per-peer projection of the registry (used by C06) -/

theorem lookupConn_append (l m : List (PeerId × Conn)) (q : PeerId) :
    lookupConn (l ++ m) q = (lookupConn l q).or (lookupConn m q) := by
  induction l with
  | nil => simp [lookupConn]
  | cons e t ih =>
    obtain ⟨p, c⟩ := e
    by_cases h : p = q <;> simp [lookupConn, h, ih]

theorem lookupConn_erase_ne (l : List (PeerId × Conn)) (p q : PeerId) (h : p ≠ q) :
    lookupConn (eraseConn l p) q = lookupConn l q := by
  induction l with
  | nil => rfl
  | cons e t ih =>
    obtain ⟨r, c⟩ := e
    by_cases hr : r = p
    · subst hr; simp [eraseConn, lookupConn, h]; simpa [eraseConn] using ih
    · by_cases hq : r = q
      · subst hq
        have : ¬ r = p := hr
        simp [eraseConn, lookupConn, this]
      · simp [eraseConn, lookupConn, hr, hq]; simpa [eraseConn] using ih

theorem lookupConn_erase_self (l : List (PeerId × Conn)) (p : PeerId) :
    lookupConn (eraseConn l p) p = none := by
  induction l with
  | nil => rfl
  | cons e t ih =>
    obtain ⟨r, c⟩ := e
    by_cases hr : r = p
    · simp [eraseConn, hr]; simpa [eraseConn] using ih
    · simp [eraseConn, lookupConn, hr]; simpa [eraseConn] using ih

theorem remove_lookup_ne (s : Active) (p q : PeerId) (r : Reason) (h : p ≠ q) :
    lookupConn (s.remove p r).conns q = lookupConn s.conns q := by
  unfold Active.remove
  split
  · rfl
  · simp [lookupConn_erase_ne _ _ _ h]

/-- an operation about peer `p` leaves the entry of every other peer alone -/
theorem step_lookup_ne (own : PeerId) (s : Active) (op : Op) (q : PeerId) (h : op.peer ≠ q) :
    lookupConn (s.step own op).conns q = lookupConn s.conns q := by
  cases op with
  | add c =>
    simp only [Op.peer] at h
    simp only [Active.step, Active.add]
    split
    · simp [lookupConn_append, lookupConn, h]
    · split
      · simp [lookupConn_append, lookupConn, h, lookupConn_erase_ne _ _ _ h]
      · rfl
  | remove p r => exact remove_lookup_ne s p q r h
  | removeStable p id r =>
    simp only [Op.peer] at h
    simp only [Active.step, Active.removeStable]
    split
    · rfl
    · split
      · exact remove_lookup_ne s p q r h
      · rfl

/-- what an operation about peer `q` does to `q`'s entry depends on `q`'s entry only -/
theorem step_lookup_same (own : PeerId) (s s' : Active) (op : Op) (q : PeerId) (h : op.peer = q)
    (hs : lookupConn s.conns q = lookupConn s'.conns q) :
    lookupConn (s.step own op).conns q = lookupConn (s'.step own op).conns q := by
  cases op with
  | add c =>
    simp only [Op.peer] at h; subst h
    simp only [Active.step, Active.add]
    rw [← hs]
    cases hl : lookupConn s.conns c.peer with
    | none => simp [lookupConn_append, lookupConn, hl, ← hs]
    | some old =>
      simp only
      split
      · simp [lookupConn_append, lookupConn, lookupConn_erase_self]
      · simpa [hl] using hs
  | remove p r =>
    simp only [Op.peer] at h; subst h
    simp only [Active.step, Active.remove]
    rw [← hs]
    cases hl : lookupConn s.conns p with
    | none => simpa [hl] using hs
    | some c => simp [lookupConn_erase_self]
  | removeStable p id r =>
    simp only [Op.peer] at h; subst h
    simp only [Active.step, Active.removeStable, Active.remove]
    rw [← hs]
    cases hl : lookupConn s.conns p with
    | none => simpa [hl] using hs
    | some c =>
      simp only
      split
      · simp [lookupConn_erase_self]
      · simpa [hl] using hs

theorem step_log_ne (own : PeerId) (s : Active) (op : Op) (q : PeerId) (h : op.peer ≠ q) :
    eventsOf q (s.step own op).log = eventsOf q s.log := by
  cases op with
  | add c =>
    simp only [Op.peer] at h
    simp only [Active.step, Active.add]
    split
    · simp [eventsOf, List.filter_append, Event.peer, h]
    · split
      · simp [eventsOf, List.filter_append, Event.peer, h]
      · rfl
  | remove p r =>
    simp only [Op.peer] at h
    simp only [Active.step, Active.remove]
    split
    · rfl
    · simp [eventsOf, List.filter_append, Event.peer, h]
  | removeStable p id r =>
    simp only [Op.peer] at h
    simp only [Active.step, Active.removeStable, Active.remove]
    split
    · rfl
    · split
      · simp [eventsOf, List.filter_append, Event.peer, h]
      · rfl

theorem step_log_same (own : PeerId) (s s' : Active) (op : Op) (q : PeerId)
    (hs : lookupConn s.conns q = lookupConn s'.conns q) (hl : eventsOf q s.log = eventsOf q s'.log)
    (h : op.peer = q) :
    eventsOf q (s.step own op).log = eventsOf q (s'.step own op).log := by
  cases op with
  | add c =>
    simp only [Op.peer] at h; subst h
    simp only [Active.step, Active.add]
    rw [← hs]
    cases hlk : lookupConn s.conns c.peer with
    | none => simp [eventsOf, List.filter_append] at hl ⊢; rw [hl]
    | some old =>
      simp only
      split
      · simp [eventsOf, List.filter_append] at hl ⊢; rw [hl]
      · exact hl
  | remove p r =>
    simp only [Op.peer] at h; subst h
    simp only [Active.step, Active.remove]
    rw [← hs]
    cases hlk : lookupConn s.conns p with
    | none => exact hl
    | some c => simp [eventsOf, List.filter_append] at hl ⊢; rw [hl]
  | removeStable p id r =>
    simp only [Op.peer] at h; subst h
    simp only [Active.step, Active.removeStable, Active.remove]
    rw [← hs]
    cases hlk : lookupConn s.conns p with
    | none => exact hl
    | some c =>
      simp only
      split
      · simp [eventsOf, List.filter_append] at hl ⊢; rw [hl]
      · exact hl

/-- the entry of peer `q` after any history is the one reached by the operations about `q` alone -/
theorem Active.run_lookup_project (own : PeerId) (ops : List Op) (s s' : Active) (q : PeerId)
    (hs : lookupConn s.conns q = lookupConn s'.conns q) :
    lookupConn (s.run own ops).conns q = lookupConn (s'.run own (ops.filter (fun o => o.peer = q))).conns q := by
  induction ops generalizing s s' with
  | nil => simpa [Active.run] using hs
  | cons op t ih =>
    by_cases h : op.peer = q
    · simp only [Active.run, List.foldl_cons, List.filter_cons, h, decide_true, if_true]
      exact ih _ _ (step_lookup_same own s s' op q h hs)
    · simp only [Active.run, List.foldl_cons, List.filter_cons, h, decide_false]
      exact ih _ _ (by rw [step_lookup_ne own s op q h]; exact hs)

end Anemo
