import AnemoModel.Stream
import AnemoModel.Lemmas.Wire
namespace Anemo
open Gen

/-- a stream that ends before a frame within the limit is complete yields a "needs more bytes" error -/
theorem unframe_short_needsMore (max n : Nat) (bs more : Bytes) (hn : n < 256^4) (hmax : n ≤ max)
    (hpre : bs <+: be32 n ++ more) (hlen : bs.length < 4 + n) :
    ∃ e, unframe max bs = .error e ∧ e.needsMore = true := by
  unfold unframe
  split
  · exact ⟨_, rfl, rfl⟩
  · cases hrd : rdBe32 bs with
    | none => exact ⟨_, rfl, rfl⟩
    | some pr =>
      obtain ⟨v, r⟩ := pr
      have ⟨h1, _, h3⟩ := rdBeN_some 4 bs v r hrd
      obtain ⟨t, ht⟩ := hpre
      have hbs : bs = be32 n ++ r := by
        have h4 : (be32 n).length = 4 := by simp
        have : bs.take 4 = be32 n := by
          have := congrArg (List.take 4) ht
          rw [List.take_append_of_le_length (by omega)] at this
          rw [this, List.take_append_of_le_length (by omega), List.take_of_length_le (by omega)]
        rw [← List.take_append_drop 4 bs, this, h3]
      have hv : v = n := by
        rw [hbs] at hrd
        have := rdBeN_beN 4 n hn r
        change rdBeN 4 (beN 4 n ++ r) = some (v, r) at hrd
        rw [this] at hrd
        simp at hrd
        exact hrd.symm
      subst hv
      simp only
      rw [if_neg (by omega), if_pos (by omega)]
      split <;> exact ⟨_, rfl, rfl⟩

/-- every strict prefix of a written message fails with a "needs more bytes" error, provided the
header parses (so that no other error can be met first) -/
theorem decodeMsg_prefix_needsMore {α : Type} (parse : Bytes → Except WireErr α) (a : α) (max : Nat) (ver : Version)
    (hdr body bytes : Bytes) (k : Nat) (hmax : max ≤ lenFieldMax)
    (hw : writeMsg max ver hdr body = (bytes, none))
    (hvf : ∀ t, decodeVersionFrame (preamble ver ++ t) = .ok (ver, t))
    (hp : parse hdr = .ok a)
    (hk : k < bytes.length) :
    ∃ e, decodeMsg parse max (bytes.take k) = .error e ∧ e.needsMore = true := by
  obtain ⟨h1, h2, h3⟩ := (writeMsg_ok_iff _ _ _ _ _).mp hw
  have hl4 := lenFieldMax_lt
  by_cases hk8 : k < 8
  · exact ⟨.earlyEof, decodeMsg_err0 parse max _ _
      (decodeVersionFrame_short _ (by simp [List.length_take]; omega)), rfl⟩
  · have hpl := preamble_length ver
    generalize hF1 : be32 hdr.length ++ hdr = F1 at h3
    generalize hF2 : be32 body.length ++ body = F2 at h3
    have hF1l : F1.length = 4 + hdr.length := by rw [← hF1]; simp
    have hF2l : F2.length = 4 + body.length := by rw [← hF2]; simp
    have htot : bytes.length = 8 + F1.length + F2.length := by
      rw [h3]; simp [hpl]; omega
    have hsplit : bytes.take k = preamble ver ++ (F1 ++ F2).take (k - 8) := by
      rw [h3, List.append_assoc, List.take_append, hpl, List.take_of_length_le (by omega)]
    rw [hsplit]
    by_cases hk1 : k - 8 < F1.length
    · obtain ⟨e, he, hn⟩ := unframe_short_needsMore max hdr.length ((F1 ++ F2).take (k - 8)) (hdr ++ F2) (by omega) h1
        (by rw [← List.append_assoc, hF1]; exact List.take_prefix (k - 8) (F1 ++ F2))
        (by simp [List.length_take]; omega)
      exact ⟨e, decodeMsg_err1 parse max _ e ver _ (hvf _) he, hn⟩
    · have hs2 : (F1 ++ F2).take (k - 8) = be32 hdr.length ++ hdr ++ F2.take (k - 8 - F1.length) := by
        rw [List.take_append, List.take_of_length_le (by omega), hF1]
      have hu1 := unframe_frame max hdr (F2.take (k - 8 - F1.length)) h1 hmax
      rw [← hs2] at hu1
      obtain ⟨e, he, hn⟩ := unframe_short_needsMore max body.length (F2.take (k - 8 - F1.length)) body (by omega) h2
        (by rw [hF2]; exact List.take_prefix _ F2)
        (by simp [List.length_take]; omega)
      exact ⟨e, decodeMsg_err3 parse max _ e ver _ hdr _ a (hvf _) hu1 hp he, hn⟩

theorem srv_not_reading_no_invoke (max : Nat) (sched : Bool) (p : SrvPhase) (es : List SrvEvent)
    (hp : ∀ b sp, p ≠ .reading b sp) : ((Srv.run max sched p es).2.filter isInvoke) = [] := by
  induction es generalizing p with
  | nil => rfl
  | cons e t ih =>
    simp only [Srv.run, List.filter_append]
    cases p with
    | reading b sp => exact absurd rfl (hp b sp)
    | handling =>
      cases e with
      | stopSending => simp [Srv.step, isInvoke, ih .over (by intro b sp h; cases h)]
      | handlerDone r =>
        simp only [Srv.step]
        cases encodeResponse max r with
        | ok bs => simp [isInvoke, ih .flushing (by intro b sp h; cases h)]
        | error _ => simp [isInvoke, ih .over (by intro b sp h; cases h)]
      | data bs => simp [Srv.step, ih .handling (by intro b sp h; cases h)]
      | fin => simp [Srv.step, ih .handling (by intro b sp h; cases h)]
      | reset => simp [Srv.step, ih .handling (by intro b sp h; cases h)]
      | readAll => simp [Srv.step, ih .handling (by intro b sp h; cases h)]
    | flushing =>
      cases e <;> simp [Srv.step, isInvoke, ih .flushing (by intro b sp h; cases h), ih .over (by intro b sp h; cases h)]
    | over =>
      cases e <;> simp [Srv.step, ih .over (by intro b sp h; cases h)]

theorem srv_over_run (max : Nat) (sched : Bool) (es : List SrvEvent) : Srv.run max sched .over es = (.over, []) := by
  induction es with
  | nil => rfl
  | cons e t ih => cases e <;> simp [Srv.run, Srv.step, ih]

theorem srv_run_append (max : Nat) (sched : Bool) (p : SrvPhase) (a b : List SrvEvent) :
    Srv.run max sched p (a ++ b) =
      ((Srv.run max sched (Srv.run max sched p a).1 b).1,
       (Srv.run max sched p a).2 ++ (Srv.run max sched (Srv.run max sched p a).1 b).2) := by
  induction a generalizing p with
  | nil => simp [Srv.run]
  | cons e t ih => simp [Srv.run, ih, List.append_assoc]

theorem srv_handling_data (max : Nat) (sched : Bool) (chunks : List Bytes) :
    Srv.run max sched .handling (chunks.map .data) = (.handling, []) := by
  induction chunks with
  | nil => rfl
  | cons c t ih => simp [Srv.run, Srv.step, ih]

end Anemo
