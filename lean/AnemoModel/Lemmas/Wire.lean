import AnemoModel.Wire
namespace Anemo
open Gen

/-! ## frames -/

theorem lenFieldMax_lt : lenFieldMax < 256^4 := by decide

theorem unframe_frame (max : Nat) (p rest : Bytes) (hp : p.length ≤ max) (hmax : max ≤ lenFieldMax) :
    unframe max (be32 p.length ++ p ++ rest) = .ok (p, rest) := by
  have hlt : p.length < 256^4 := by have := lenFieldMax_lt; omega
  have hrd : rdBe32 (be32 p.length ++ p ++ rest) = some (p.length, p ++ rest) := by
    simpa [List.append_assoc] using rdBeN_beN 4 p.length hlt (p ++ rest)
  have hne : be32 p.length ++ p ++ rest ≠ [] := by
    intro h
    have := congrArg List.length h
    simp [be32] at this
  unfold unframe
  split
  · contradiction
  · rw [hrd]
    simp only
    rw [if_neg (by omega), if_neg (by simp)]
    simp

theorem frame_ok (max : Nat) (p : Bytes) (hp : p.length ≤ max) : frame max p = .ok (be32 p.length ++ p) := by
  unfold frame; rw [if_neg (by omega)]

theorem frame_err (max : Nat) (p : Bytes) (hp : max < p.length) : frame max p = .error .frameTooBig := by
  unfold frame; rw [if_pos hp]

/-- a stream that ends before the frame is complete is always an error -/
theorem unframe_short (max n : Nat) (bs more : Bytes) (hn : n < 256^4)
    (hpre : bs <+: be32 n ++ more) (hlen : bs.length < 4 + n) :
    ∃ e, unframe max bs = .error e := by
  unfold unframe
  split
  · exact ⟨_, rfl⟩
  · cases hrd : rdBe32 bs with
    | none => exact ⟨_, rfl⟩
    | some pr =>
      obtain ⟨v, r⟩ := pr
      have ⟨h1, _, h3⟩ := rdBeN_some 4 bs v r hrd
      -- bs has at least 4 bytes, so its first four are `be32 n`, hence v = n
      obtain ⟨t, ht⟩ := hpre
      have hbs : bs = be32 n ++ r := by
        have h4 : (be32 n).length = 4 := by simp [be32]
        have : bs.take 4 = be32 n := by
          have := congrArg (List.take 4) ht
          rw [List.take_append_of_le_length (by omega)] at this
          rw [this, List.take_append_of_le_length (by omega), List.take_of_length_le (by omega)]
        rw [← List.take_append_drop 4 bs, this, h3]
      have hv : v = n := by
        rw [hbs] at hrd
        have := rdBeN_beN 4 n hn r
        unfold rdBe32 at hrd
        rw [this] at hrd
        simp at hrd
        exact hrd.symm
      subst hv
      simp only
      by_cases hm : v > max
      · rw [if_pos hm]; exact ⟨_, rfl⟩
      · rw [if_neg hm, if_pos (by omega)]
        split <;> exact ⟨_, rfl⟩

/-! ## bincode strings and maps -/

theorem decStr_encStr (s rest : Bytes) (hlen : s.length < 256^8) (hu : validUtf8 s = true) :
    decStr (encStr s ++ rest) = some (s, rest) := by
  unfold decStr encStr
  have : rdLe64 (le64 s.length ++ s ++ rest) = some (s.length, s ++ rest) := by
    simpa [List.append_assoc] using rdLeN_leN 8 s.length hlen (s ++ rest)
  rw [this]
  simp [hu]

def normHeaders (h : Headers) (acc : Headers := []) : Headers :=
  h.foldl (fun a kv => hInsert a kv.1 kv.2) acc

def HeadersWF (h : Headers) : Prop :=
  ∀ kv ∈ h, validUtf8 kv.1 = true ∧ validUtf8 kv.2 = true ∧ kv.1.length < 256^8 ∧ kv.2.length < 256^8

theorem decMapLoop_encMap (h : Headers) (acc : Headers) (rest : Bytes) (hwf : HeadersWF h) :
    decMapLoop h.length acc (encMap h ++ rest) = some (normHeaders h acc, rest) := by
  induction h generalizing acc with
  | nil => simp [decMapLoop, encMap, normHeaders]
  | cons kv t ih =>
    obtain ⟨k, v⟩ := kv
    have ⟨hk, hv, hkl, hvl⟩ := hwf (k, v) (by simp)
    have ht : HeadersWF t := fun x hx => hwf x (by simp [hx])
    simp only [List.length_cons, decMapLoop, encMap, List.append_assoc]
    rw [decStr_encStr k _ hkl hk]
    simp only
    rw [decStr_encStr v _ hvl hv]
    simp only
    rw [ih _ ht]
    simp [normHeaders]

theorem decHeaders_encHeaders (h : Headers) (rest : Bytes) (hwf : HeadersWF h) (hn : h.length < 256^8) :
    decHeaders (encHeaders h ++ rest) = some (normHeaders h, rest) := by
  unfold decHeaders encHeaders
  have : rdLe64 (le64 h.length ++ encMap h ++ rest) = some (h.length, encMap h ++ rest) := by
    simpa [List.append_assoc] using rdLeN_leN 8 h.length hn (encMap h ++ rest)
  rw [this]
  exact decMapLoop_encMap h [] rest hwf

/-- inserting a fresh key appends -/
theorem hInsert_fresh (acc : Headers) (k v : Bytes) (hk : k ∉ acc.map (·.1)) :
    hInsert acc k v = acc ++ [(k, v)] := by
  induction acc with
  | nil => rfl
  | cons a t ih =>
    obtain ⟨k', v'⟩ := a
    simp only [List.map_cons, List.mem_cons, not_or] at hk
    simp only [hInsert]
    rw [if_neg (by simpa using fun h => hk.1 h.symm)]
    rw [ih hk.2]; rfl

theorem normHeaders_nodup_aux (h acc : Headers) (hnd : ((acc ++ h).map (·.1)).Nodup) :
    normHeaders h acc = acc ++ h := by
  induction h generalizing acc with
  | nil => simp [normHeaders]
  | cons kv t ih =>
    obtain ⟨k, v⟩ := kv
    have hk : k ∉ acc.map (·.1) := by
      simp only [List.map_append, List.map_cons] at hnd
      have := (List.nodup_append.mp hnd).2.2
      intro hmem
      exact this k hmem k (by simp) rfl
    simp only [normHeaders, List.foldl_cons]
    rw [hInsert_fresh acc k v hk]
    have := ih (acc ++ [(k, v)]) (by simpa [List.append_assoc] using hnd)
    simpa [normHeaders, List.append_assoc] using this

/-- with distinct keys the decoder reproduces the header list exactly, in order -/
theorem normHeaders_nodup (h : Headers) (hnd : (h.map (·.1)).Nodup) : normHeaders h = h := by
  simpa using normHeaders_nodup_aux h [] (by simpa using hnd)

/-- last-wins lookup in the normalised map -/
theorem hLookup_hInsert (acc : Headers) (k v k' : Bytes) :
    hLookup (hInsert acc k v) k' = if k = k' then some v else hLookup acc k' := by
  induction acc with
  | nil => simp [hInsert, hLookup]
  | cons a t ih =>
    obtain ⟨ka, va⟩ := a
    by_cases h1 : ka = k
    · subst h1
      by_cases h2 : ka = k' <;> simp [hInsert, hLookup, h2]
    · by_cases h2 : ka = k'
      · subst h2
        have : k ≠ ka := fun h => h1 h.symm
        simp [hInsert, hLookup, h1, this]
      · simp [hInsert, hLookup, h1, h2, ih]

/-! ## lengths -/
theorem encStr_length (s : Bytes) : (encStr s).length = 8 + s.length := by simp [encStr, le64]

theorem encMap_length_ge (h : Headers) : ∀ kv ∈ h, kv.1.length + kv.2.length + 16 ≤ (encMap h).length := by
  induction h with
  | nil => simp
  | cons a t ih =>
    obtain ⟨k, v⟩ := a
    intro kv hkv
    simp only [encMap, List.length_append, encStr_length]
    rcases List.mem_cons.mp hkv with rfl | hm
    · simp; omega
    · have := ih kv hm; omega

theorem encMap_length_count (h : Headers) : 16 * h.length ≤ (encMap h).length := by
  induction h with
  | nil => simp [encMap]
  | cons a t ih =>
    obtain ⟨k, v⟩ := a
    simp only [encMap, List.length_append, encStr_length, List.length_cons]; omega

end Anemo

namespace Anemo
open Gen

/-! ## preamble -/
theorem preamble_length (v : Version) : (preamble v).length = 8 := by
  simp [preamble, ANEMO]

theorem decodeVersionFrame_short (bs : Bytes) (h : bs.length < 8) :
    decodeVersionFrame bs = .error .earlyEof := by
  unfold decodeVersionFrame
  split
  · simp at h; omega
  · rfl

/-! ## whole messages -/

/-- the writer succeeds exactly when both frames fit, and then the layout is fixed -/
theorem writeMsg_ok_iff (max : Nat) (ver : Version) (hdr body bytes : Bytes) :
    writeMsg max ver hdr body = (bytes, none) ↔
      hdr.length ≤ max ∧ body.length ≤ max ∧
      bytes = preamble ver ++ (be32 hdr.length ++ hdr) ++ (be32 body.length ++ body) := by
  unfold writeMsg
  by_cases h1 : hdr.length ≤ max
  · rw [frame_ok _ _ h1]
    by_cases h2 : body.length ≤ max
    · rw [frame_ok _ _ h2]
      simp [h1, h2, eq_comm]
    · rw [frame_err _ _ (by omega)]
      simp [h2]
  · rw [frame_err _ _ (by omega)]
    simp [h1]

/-! `decodeMsg` step by step, over variables only (keeps kernel reduction away from big terms) -/
section steps
variable {α : Type} (parse : Bytes → Except WireErr α) (max : Nat) (bs : Bytes)

theorem decodeMsg_err0 (e : WireErr) (h0 : decodeVersionFrame bs = .error e) :
    decodeMsg parse max bs = .error e := by
  unfold decodeMsg; rw [h0]

theorem decodeMsg_err1 (e : WireErr) (ver : Version) (r0 : Bytes)
    (h0 : decodeVersionFrame bs = .ok (ver, r0)) (h1 : unframe max r0 = .error e) :
    decodeMsg parse max bs = .error e := by
  unfold decodeMsg; rw [h0]; simp only; rw [h1]

theorem decodeMsg_err2 (e : WireErr) (ver : Version) (r0 hb r1 : Bytes)
    (h0 : decodeVersionFrame bs = .ok (ver, r0)) (h1 : unframe max r0 = .ok (hb, r1))
    (h2 : parse hb = .error e) :
    decodeMsg parse max bs = .error e := by
  unfold decodeMsg; rw [h0]; simp only; rw [h1]; simp only; rw [h2]

theorem decodeMsg_err3 (e : WireErr) (ver : Version) (r0 hb r1 : Bytes) (a : α)
    (h0 : decodeVersionFrame bs = .ok (ver, r0)) (h1 : unframe max r0 = .ok (hb, r1))
    (h2 : parse hb = .ok a) (h3 : unframe max r1 = .error e) :
    decodeMsg parse max bs = .error e := by
  unfold decodeMsg; rw [h0]; simp only; rw [h1]; simp only; rw [h2]; simp only; rw [h3]

theorem decodeMsg_ok (ver : Version) (r0 hb r1 body r2 : Bytes) (a : α)
    (h0 : decodeVersionFrame bs = .ok (ver, r0)) (h1 : unframe max r0 = .ok (hb, r1))
    (h2 : parse hb = .ok a) (h3 : unframe max r1 = .ok (body, r2)) :
    decodeMsg parse max bs = .ok (ver, a, body, r2) := by
  unfold decodeMsg; rw [h0]; simp only; rw [h1]; simp only; rw [h2]; simp only; rw [h3]

/-- inversion: a successful decode went through all four steps -/
theorem decodeMsg_ok_inv (ver : Version) (a : α) (body r2 : Bytes)
    (h : decodeMsg parse max bs = .ok (ver, a, body, r2)) :
    ∃ r0 hb r1, decodeVersionFrame bs = .ok (ver, r0) ∧ unframe max r0 = .ok (hb, r1) ∧
      parse hb = .ok a ∧ unframe max r1 = .ok (body, r2) := by
  unfold decodeMsg at h
  cases h0 : decodeVersionFrame bs with
  | error e => rw [h0] at h; simp at h
  | ok p0 =>
    obtain ⟨v, r0⟩ := p0
    rw [h0] at h; simp only at h
    cases h1 : unframe max r0 with
    | error e => rw [h1] at h; simp at h
    | ok p1 =>
      obtain ⟨hb, r1⟩ := p1
      rw [h1] at h; simp only at h
      cases h2 : parse hb with
      | error e => rw [h2] at h; simp at h
      | ok a' =>
        rw [h2] at h; simp only at h
        cases h3 : unframe max r1 with
        | error e => rw [h3] at h; simp at h
        | ok p3 =>
          obtain ⟨b, r⟩ := p3
          rw [h3] at h
          injection h with h
          injection h with hv h
          injection h with ha h
          injection h with hbd hr
          subst hv ha hbd hr
          exact ⟨r0, hb, r1, rfl, h1, h2, h3⟩
end steps

theorem decodeMsg_writeMsg {α : Type} (parse : Bytes → Except WireErr α) (a : α) (max : Nat) (ver : Version)
    (hdr body bytes rest : Bytes) (hmax : max ≤ lenFieldMax)
    (hw : writeMsg max ver hdr body = (bytes, none))
    (hvf : ∀ t, decodeVersionFrame (preamble ver ++ t) = .ok (ver, t))
    (hp : parse hdr = .ok a) :
    decodeMsg parse max (bytes ++ rest) = .ok (ver, a, body, rest) := by
  obtain ⟨h1, h2, h3⟩ := (writeMsg_ok_iff _ _ _ _ _).mp hw
  have e : bytes ++ rest
      = preamble ver ++ (be32 hdr.length ++ hdr ++ (be32 body.length ++ body ++ rest)) := by
    rw [h3]; simp only [List.append_assoc]
  rw [e]
  exact decodeMsg_ok parse max _ ver _ hdr _ body rest a (hvf _)
    (unframe_frame max hdr _ h1 hmax) hp (unframe_frame max body rest h2 hmax)

/-- every strict prefix of a written message is rejected -/
theorem decodeMsg_prefix {α : Type} (parse : Bytes → Except WireErr α) (max : Nat) (ver : Version)
    (hdr body bytes : Bytes) (k : Nat) (hmax : max ≤ lenFieldMax)
    (hw : writeMsg max ver hdr body = (bytes, none))
    (hvf : ∀ t, decodeVersionFrame (preamble ver ++ t) = .ok (ver, t))
    (hk : k < bytes.length) :
    ∃ e, decodeMsg parse max (bytes.take k) = .error e := by
  obtain ⟨h1, h2, h3⟩ := (writeMsg_ok_iff _ _ _ _ _).mp hw
  have hl4 := lenFieldMax_lt
  by_cases hk8 : k < 8
  · exact ⟨.earlyEof, decodeMsg_err0 parse max _ _
      (decodeVersionFrame_short _ (by simp [List.length_take]; omega))⟩
  · -- the preamble is complete
    have hpl := preamble_length ver
    generalize hF1 : be32 hdr.length ++ hdr = F1 at h3
    generalize hF2 : be32 body.length ++ body = F2 at h3
    have hF1l : F1.length = 4 + hdr.length := by rw [← hF1]; simp
    have hF2l : F2.length = 4 + body.length := by rw [← hF2]; simp
    have htot : bytes.length = 8 + F1.length + F2.length := by
      rw [h3]; simp [hpl]; omega
    have hsplit : bytes.take k = preamble ver ++ (F1 ++ F2).take (k - 8) := by
      rw [h3, List.append_assoc, List.take_append, hpl, List.take_of_length_le (by omega)]
    rw [hsplit]
    by_cases hk1 : k - 8 < F1.length
    · -- stream ends inside the header frame
      obtain ⟨e, he⟩ := unframe_short max hdr.length ((F1 ++ F2).take (k - 8)) (hdr ++ F2) (by omega)
        (by rw [← List.append_assoc, hF1]; exact List.take_prefix (k - 8) (F1 ++ F2))
        (by simp [List.length_take]; omega)
      exact ⟨e, decodeMsg_err1 parse max _ e ver _ (hvf _) he⟩
    · -- header frame complete, stream ends inside the body frame
      have hs2 : (F1 ++ F2).take (k - 8) = be32 hdr.length ++ hdr ++ F2.take (k - 8 - F1.length) := by
        rw [List.take_append, List.take_of_length_le (by omega), hF1]
      have hu1 := unframe_frame max hdr (F2.take (k - 8 - F1.length)) h1 hmax
      rw [← hs2] at hu1
      obtain ⟨e, he⟩ := unframe_short max body.length (F2.take (k - 8 - F1.length)) body (by omega)
        (by rw [hF2]; exact List.take_prefix _ F2)
        (by simp [List.length_take]; omega)
      cases hp : parse hdr with
      | error e' => exact ⟨e', decodeMsg_err2 parse max _ e' ver _ hdr _ (hvf _) hu1 hp⟩
      | ok a => exact ⟨e, decodeMsg_err3 parse max _ e ver _ hdr _ a (hvf _) hu1 hp he⟩

/-! ## header parsers on what the encoders produce -/
def StrWF (s : Bytes) : Prop := validUtf8 s = true
def HeadersUtf8 (h : Headers) : Prop := ∀ kv ∈ h, validUtf8 kv.1 = true ∧ validUtf8 kv.2 = true

theorem headersWF_of_small (h : Headers) (hu : HeadersUtf8 h) (hs : (encMap h).length < 256^8) : HeadersWF h := by
  intro kv hkv
  have := encMap_length_ge h kv hkv
  exact ⟨(hu kv hkv).1, (hu kv hkv).2, by omega, by omega⟩

theorem parseReqHeader_enc (r : Req) (hr : StrWF r.route) (hh : HeadersUtf8 r.headers)
    (hs : (encReqHeader r).length < 256^4) :
    parseReqHeader (encReqHeader r) = .ok (r.route, normHeaders r.headers) := by
  have hlen : (encReqHeader r).length = 8 + r.route.length + (8 + (encMap r.headers).length) := by
    simp [encReqHeader, encStr, encHeaders]; omega
  have h48 : (256:Nat)^4 < 256^8 := by decide
  have hcount := encMap_length_count r.headers
  unfold parseReqHeader decReqHeader encReqHeader
  rw [decStr_encStr r.route _ (by omega) hr]
  simp only
  have := decHeaders_encHeaders r.headers [] (headersWF_of_small _ hh (by omega)) (by omega)
  rw [List.append_nil] at this
  rw [this]

theorem parseRespHeader_enc (r : Resp) (hh : HeadersUtf8 r.headers)
    (hst : StatusCode.new r.status.toU16 = some r.status) (hlt : r.status.toU16 < 256^2)
    (hs : (encRespHeader r).length < 256^4) :
    parseRespHeader (encRespHeader r) = .ok (r.status, normHeaders r.headers) := by
  have hlen : (encRespHeader r).length = 2 + (8 + (encMap r.headers).length) := by
    simp [encRespHeader, encHeaders]
  have h48 : (256:Nat)^4 < 256^8 := by decide
  have hcount := encMap_length_count r.headers
  unfold parseRespHeader decRespHeader encRespHeader
  have h1 : rdLe16 (le16 r.status.toU16 ++ encHeaders r.headers) = some (r.status.toU16, encHeaders r.headers) :=
    rdLeN_leN 2 _ hlt _
  rw [h1]
  simp only
  have := decHeaders_encHeaders r.headers [] (headersWF_of_small _ hh (by omega)) (by omega)
  rw [List.append_nil] at this
  rw [this]
  simp only
  rw [hst]

end Anemo
