/-
C09: connection views.

(1) `Link`: the idle-timer logic of one connection as both ends see it (quinn / RFC 9000 §10.1, configured
by crates/anemo/src/config.rs QuicConfig::transport_config).  An end is *alive* while its connection
handler task runs - that is exactly the time during which the peer is listed (request_handler.rs
`start` removes its own entry when the connection errors).  An end's idle timer is restarted when it
receives a packet, and when it sends an ack-eliciting packet for the first time since it last
received one; a dead end never sends.  A close (explicit disconnect, tie-break loss, rejection,
shutdown) kills the local end at once and the remote end when the close packet is delivered.
Faults are explicit in the events: every packet carries its own "delivered" bit.

(2) `Net`: the abstract view of an N-node network at quiescent points, used by the driver as the
specification of the listing every node must report.
-/
namespace Anemo.Views

structure Side where
  alive : Bool
  deadline : Nat
  sentSinceRecv : Bool
  deriving DecidableEq, Repr

structure Link where
  now : Nat
  a : Side
  b : Side
  deriving DecidableEq, Repr

inductive Who where
  | a | b
  deriving DecidableEq, Repr

def Who.other : Who → Who
  | .a => .b
  | .b => .a

def Link.side (l : Link) : Who → Side
  | .a => l.a
  | .b => l.b

def Link.set (l : Link) (w : Who) (s : Side) : Link :=
  match w with
  | .a => { l with a := s }
  | .b => { l with b := s }

inductive Ev where
  /-- one unit of time passes, then idle timers fire -/
  | tick
  /-- `w` sends an ack-eliciting packet (request, response, keep-alive ping); `delivered`: it reaches
  the other end; `acked`: the acknowledgement makes it back -/
  | send (w : Who) (delivered acked : Bool)
  /-- `w` closes its end (disconnect, reject, tie-break loss, shutdown; process death = not delivered) -/
  | close (w : Who) (delivered : Bool)
  deriving DecidableEq, Repr

def Side.expire (now : Nat) (s : Side) : Side :=
  if s.alive && decide (s.deadline ≤ now) then { s with alive := false } else s

def Side.kill (s : Side) : Side := { s with alive := false }

/-- `T`: the idle timeout -/
def Link.step (T : Nat) (l : Link) : Ev → Link
  | .tick => { now := l.now + 1, a := l.a.expire (l.now + 1), b := l.b.expire (l.now + 1) }
  | .send w d k =>
    let s := l.side w
    let o := l.side w.other
    if !s.alive then l else
    let s1 : Side := if s.sentSinceRecv then s else { s with deadline := l.now + T, sentSinceRecv := true }
    if d && o.alive then
      let o1 : Side := { o with deadline := l.now + T, sentSinceRecv := false }
      let s2 : Side := if k then { s1 with deadline := l.now + T, sentSinceRecv := false } else s1
      (l.set w s2).set w.other o1
    else l.set w s1
  | .close w d =>
    let l1 := l.set w (l.side w).kill
    if d then l1.set w.other (l1.side w.other).kill else l1

def Link.run (T : Nat) (l : Link) (evs : List Ev) : Link := evs.foldl (Link.step T) l

/-- a freshly established connection -/
def Link.fresh (now T : Nat) : Link :=
  { now := now, a := ⟨true, now + T, false⟩, b := ⟨true, now + T, false⟩ }

def Side.Ok (T now : Nat) (s : Side) : Prop := s.alive = true → now < s.deadline ∧ s.deadline ≤ now + T

def Link.Inv (T : Nat) (l : Link) : Prop := l.a.Ok T l.now ∧ l.b.Ok T l.now

/-- fault-free events: every packet and every close is delivered -/
def Ev.faultFree : Ev → Bool
  | .tick => true
  | .send _ d k => d && k
  | .close _ d => d

def Ev.isSendBy (w : Who) : Ev → Bool
  | .send w' _ _ => decide (w' = w)
  | _ => false

/-- keep-alive rounds: an exchange followed by `n` ticks, for each `n` of the list -/
def rounds (w : Who) : List Nat → List Ev
  | [] => []
  | n :: t => Ev.send w true true :: (List.replicate n Ev.tick ++ rounds w t)

/-- an RPC from `w` completes iff both ends are alive and request and response get through -/
def Link.rpcOk (l : Link) (w : Who) (pathOk : Bool) : Bool :=
  (l.side w).alive && (l.side w.other).alive && pathOk

-- ---------------------------------------------------------------- abstract network views

structure Net where
  n : Nat
  keepAlive : Bool
  up : List (Nat × Nat)
  deriving Repr

def norm (i j : Nat) : Nat × Nat := if i ≤ j then (i, j) else (j, i)

inductive NetOp where
  | dial (i j : Nat)          -- a successful dial
  | disconnect (i j : Nat)
  | restart (i : Nat)
  | cut (i j : Nat)           -- a partition that outlasts the idle timeout (then heals)
  | blip (i j : Nat)          -- a partition much shorter than the idle timeout
  | idle                      -- a fault-free, traffic-free pause longer than the idle timeout
  deriving Repr

def Net.step (s : Net) : NetOp → Net
  | .dial i j => if i = j then s else { s with up := norm i j :: s.up.filter (· ≠ norm i j) }
  | .disconnect i j => { s with up := s.up.filter (· ≠ norm i j) }
  | .restart i => { s with up := s.up.filter (fun p => p.1 ≠ i ∧ p.2 ≠ i) }
  | .cut i j => { s with up := s.up.filter (· ≠ norm i j) }
  | .blip _ _ => s
  | .idle => if s.keepAlive then s else { s with up := [] }

def Net.connected (s : Net) (i j : Nat) : Bool := s.up.contains (norm i j)

def Net.lists (s : Net) (i : Nat) : List Nat := (List.range s.n).filter (fun j => j ≠ i && s.connected i j)

end Anemo.Views
