/-
Basic byte-level definitions shared by all models: byte strings, fixed-width big/little-endian
integers with explicit widths, UTF-8 validity (RFC 3629, as enforced by Rust's `String`), and
association-list maps.  No imports beyond core: the driver must link natively.
-/
namespace Anemo

abbrev Bytes := List UInt8

/-- `k`-byte big-endian encoding of `n` (callers guard `n < 256^k`). -/
def beN : Nat → Nat → Bytes
  | 0, _ => []
  | k+1, n => UInt8.ofNat (n / 256^k % 256) :: beN k (n % 256^k)

/-- read a `k`-byte big-endian integer, returning the remainder -/
def rdBeN : Nat → Bytes → Option (Nat × Bytes)
  | 0, bs => some (0, bs)
  | _+1, [] => none
  | k+1, b :: bs => match rdBeN k bs with
    | some (v, r) => some (b.toNat * 256^k + v, r)
    | none => none

/-- `k`-byte little-endian encoding of `n` (callers guard `n < 256^k`). -/
def leN : Nat → Nat → Bytes
  | 0, _ => []
  | k+1, n => UInt8.ofNat (n % 256) :: leN k (n / 256)

def rdLeN : Nat → Bytes → Option (Nat × Bytes)
  | 0, bs => some (0, bs)
  | _+1, [] => none
  | k+1, b :: bs => match rdLeN k bs with
    | some (v, r) => some (b.toNat + 256 * v, r)
    | none => none

abbrev be16 := beN 2
abbrev be32 := beN 4
abbrev le16 := leN 2
abbrev le64 := leN 8
abbrev rdBe16 := rdBeN 2
abbrev rdBe32 := rdBeN 4
abbrev rdLe16 := rdLeN 2
abbrev rdLe64 := rdLeN 8

@[simp] theorem beN_length (k n : Nat) : (beN k n).length = k := by
  induction k generalizing n with
  | zero => rfl
  | succ k ih => simp [beN, ih]

@[simp] theorem leN_length (k n : Nat) : (leN k n).length = k := by
  induction k generalizing n with
  | zero => rfl
  | succ k ih => simp [leN, ih]

theorem rdBeN_beN (k n : Nat) (h : n < 256^k) (rest : Bytes) :
    rdBeN k (beN k n ++ rest) = some (n, rest) := by
  induction k generalizing n with
  | zero => simp at h; subst h; rfl
  | succ k ih =>
    have hpos : 0 < 256^k := Nat.pow_pos (by decide)
    have h1 : n / 256^k < 256 := by
      rw [Nat.div_lt_iff_lt_mul hpos]; rw [Nat.pow_succ] at h; rw [Nat.mul_comm]; exact h
    have h2 : n % 256^k < 256^k := Nat.mod_lt _ hpos
    simp only [beN, rdBeN, List.cons_append, ih _ h2]
    have : (UInt8.ofNat (n / 256 ^ k % 256)).toNat = n / 256^k := by
      simp [UInt8.toNat_ofNat']; omega
    rw [this]
    have := Nat.div_add_mod n (256^k)
    rw [Nat.mul_comm] at this
    simp [this]

theorem rdLeN_leN (k n : Nat) (h : n < 256^k) (rest : Bytes) :
    rdLeN k (leN k n ++ rest) = some (n, rest) := by
  induction k generalizing n with
  | zero => simp at h; subst h; rfl
  | succ k ih =>
    have h1 : n / 256 < 256^k := by
      rw [Nat.pow_succ] at h; rw [Nat.div_lt_iff_lt_mul (by decide)]; exact h
    simp only [leN, rdLeN, List.cons_append, ih _ h1]
    have : (UInt8.ofNat (n % 256)).toNat = n % 256 := by
      simp [UInt8.toNat_ofNat']
    rw [this]
    have := Nat.mod_add_div n 256
    simp [this]

theorem rdBeN_short (k : Nat) (bs : Bytes) (h : bs.length < k) : rdBeN k bs = none := by
  induction k generalizing bs with
  | zero => omega
  | succ k ih =>
    cases bs with
    | nil => rfl
    | cons b bs => simp only [rdBeN]; rw [ih bs (by simpa using h)]

theorem rdLeN_short (k : Nat) (bs : Bytes) (h : bs.length < k) : rdLeN k bs = none := by
  induction k generalizing bs with
  | zero => omega
  | succ k ih =>
    cases bs with
    | nil => rfl
    | cons b bs => simp only [rdLeN]; rw [ih bs (by simpa using h)]

/-- reading succeeds exactly when `k` bytes are available, and consumes exactly `k` -/
theorem rdBeN_some (k : Nat) (bs : Bytes) (v : Nat) (r : Bytes) (h : rdBeN k bs = some (v, r)) :
    bs.length = k + r.length ∧ v < 256^k ∧ r = bs.drop k := by
  induction k generalizing bs v r with
  | zero => simp [rdBeN] at h; obtain ⟨rfl, rfl⟩ := h; simp
  | succ k ih =>
    cases bs with
    | nil => simp [rdBeN] at h
    | cons b bs =>
      simp only [rdBeN] at h
      cases hr : rdBeN k bs with
      | none => simp [hr] at h
      | some p =>
        obtain ⟨v', r'⟩ := p
        simp [hr] at h
        obtain ⟨rfl, rfl⟩ := h
        obtain ⟨h1, h2, h3⟩ := ih bs v' r' hr
        refine ⟨by simp [h1]; omega, ?_, by simpa using h3⟩
        have hb : b.toNat < 256 := UInt8.toNat_lt b
        rw [Nat.pow_succ]
        have : b.toNat * 256^k ≤ 255 * 256^k := Nat.mul_le_mul_right _ (by omega)
        omega

theorem rdLeN_some (k : Nat) (bs : Bytes) (v : Nat) (r : Bytes) (h : rdLeN k bs = some (v, r)) :
    bs.length = k + r.length ∧ v < 256^k ∧ r = bs.drop k := by
  induction k generalizing bs v r with
  | zero => simp [rdLeN] at h; obtain ⟨rfl, rfl⟩ := h; simp
  | succ k ih =>
    cases bs with
    | nil => simp [rdLeN] at h
    | cons b bs =>
      simp only [rdLeN] at h
      cases hr : rdLeN k bs with
      | none => simp [hr] at h
      | some p =>
        obtain ⟨v', r'⟩ := p
        simp [hr] at h
        obtain ⟨rfl, rfl⟩ := h
        obtain ⟨h1, h2, h3⟩ := ih bs v' r' hr
        refine ⟨by simp [h1]; omega, ?_, by simpa using h3⟩
        have hb : b.toNat < 256 := UInt8.toNat_lt b
        rw [Nat.pow_succ]
        omega

end Anemo
