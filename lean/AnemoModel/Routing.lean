/-
Model of anemo's Router (crates/anemo/src/routing/mod.rs over matchit 0.5) for tables made of
exact paths and catch-all tails (`/prefix/*name`, which is what `add_rpc_service` registers).
A route is stored with its service tag and the list of route-level layers around it (outermost first).
Patterns with `:param` segments are outside the modelled class.
-/
import AnemoModel.Basic
import AnemoModel.Gen.Tables
namespace Anemo

inductive Pattern where
  | exact (p : Bytes)
  | catchAll (pre : Bytes)          -- the text before `*name`; ends with '/'
  deriving DecidableEq, Repr

def slash : UInt8 := 0x2f

def Pattern.matches : Pattern → Bytes → Bool
  | .exact p, path => p == path
  | .catchAll pre, path => pre.isPrefixOf path      -- matchit 0.5: the tail may be empty

/-- some path is matched by both patterns -/
def Pattern.overlaps : Pattern → Pattern → Bool
  | .exact p, .exact q => p == q
  | .exact p, .catchAll pre => pre.isPrefixOf p
  | .catchAll pre, .exact p => pre.isPrefixOf p
  | .catchAll a, .catchAll b => a.isPrefixOf b || b.isPrefixOf a

structure Entry where
  pat : Pattern
  svc : Nat
  layers : List Nat        -- outermost first
  deriving DecidableEq, Repr

abbrev Table := List Entry

/-- split at the first '*' -/
def splitStar : Bytes → Option (Bytes × Bytes)
  | [] => none
  | c :: rest =>
    if c = 0x2a then some ([], rest)
    else match splitStar rest with
      | some (a, b) => some (c :: a, b)
      | none => none

/-- parse a route string of the modelled class; `none` = `Router::route` panics (or the pattern has
a `:param` segment, which is not modelled) -/
def parsePattern (path : Bytes) : Option Pattern :=
  match path with
  | [] => none
  | c :: _ =>
    if c != slash then none
    else
      match splitStar path with
      | none => if path.contains 0x3a then none else some (.exact path)
      | some (pre, name) =>
        if pre.getLast? == some slash && !name.isEmpty && !name.contains slash && !name.contains 0x2a
            && !name.contains 0x3a && !pre.contains 0x3a then some (.catchAll pre) else none

def Table.insert (t : Table) (e : Entry) : Option Table :=
  if t.any (fun x => x.pat.overlaps e.pat) then none else some (t ++ [e])

def Table.route (t : Table) (path : Bytes) (svc : Nat) : Option Table :=
  match parsePattern path with
  | none => none
  | some p => t.insert { pat := p, svc := svc, layers := [] }

def Table.addRpcService (t : Table) (name : Bytes) (svc : Nat) : Option Table :=
  t.route (Gen.rpcRoutePatternGen name) svc     -- "/<name>/*rest", the format string of add_rpc_service

/-- re-register every route of `b` (with its layers) into `a`, in registration order -/
def Table.merge (a : Table) : Table → Option Table
  | [] => some a
  | e :: rest =>
    match a.insert e with
    | none => none
    | some a' => Table.merge a' rest

def Table.routeLayer (t : Table) (l : Nat) : Table := t.map fun e => { e with layers := l :: e.layers }

def Table.dispatch (t : Table) (path : Bytes) : Option Entry := t.find? (fun e => e.pat.matches path)

/-- no two entries can match the same path -/
def Table.Valid (t : Table) : Prop := t.Pairwise (fun a b => a.pat.overlaps b.pat = false)

/-! ### readiness of a route's service stack -/

/-- a route's service stack: tower layers that forward readiness (`poll_ready = inner.poll_ready`,
`call = inner.call`: what `route_layer` adds), anemo's `Route` boxes between them (every `route_layer`
wraps the layered service in a new `Route`), and the user's service at the bottom -/
inductive SvcTree where
  | leaf (svc : Nat)
  | layer (tag : Nat) (inner : SvcTree)
  | route (inner : SvcTree)
  deriving Repr

/-- the layers that get `call`ed on an instance that was not polled ready first, when the node is called
on an instance whose readiness state is `polled` (a clone starts un-polled) -/
def callWith (routePolls : Bool) : Bool → SvcTree → List Nat
  | _, .leaf _ => []
  | polled, .layer tag inner => (if polled then [] else [tag]) ++ callWith routePolls polled inner
  | _, .route inner => callWith routePolls routePolls inner

/-- `Router::call`: `route.oneshot_inner(req)` = a fresh clone, polled, then called -/
def oneshotTree (routePolls : Bool) (s : SvcTree) : List Nat := callWith routePolls true s

end Anemo
