/-
Models of the anemo-tower layers.
* Auth (crates/anemo-tower/src/auth): the layer calls the authorizer; on `Ok` the (possibly
  amended) request goes to the inner service, on `Err r` the response is `r` and the inner service
  is not touched.
* Inflight (inflight_limit.rs): one tokio `Semaphore(max)` per peer; Block = FIFO wait,
  ReturnError = `try_acquire`; the permit is held until the inner future completes or is dropped.
* Gcra (rate_limit.rs over governor 0.6 keyed GCRA): `t` = replenish period, `tau = t*burst`,
  a fresh key starts at `tat = now + t`, admit iff `now ≥ tat - tau`, then `tat := max tat now + t`.
-/
import AnemoModel.Gen.Tables
namespace Anemo
open Gen

/-! ## Auth -/
structure AReq where
  sender : Option Nat
  tag : Nat                 -- everything else about the request, opaque
  deriving DecidableEq, Repr

structure AResp where
  status : Nat
  tag : Nat
  deriving DecidableEq, Repr

/-- one call through the layer: the response and the list of requests the inner service saw -/
def authCall (auth : AReq → Except AResp AReq) (inner : AReq → AResp) (req : AReq) : AResp × List AReq :=
  match auth req with
  | .ok req' => (inner req', [req'])
  | .error r => (r, [])

def statusInternal : Nat := StatusCode.InternalServerError.toU16
def statusNotFound : Nat := StatusCode.NotFound.toU16

/-- the peer allow-list authorizer -/
def allowedPeers (list : List Nat) (req : AReq) : Except AResp AReq :=
  match req.sender with
  | none => .error ⟨statusInternal, 0⟩
  | some p => if p ∈ list then .ok req else .error ⟨statusNotFound, 0⟩

/-- a history of calls through the layer over a STATEFUL inner service (`step`): the service state
threads through exactly the accepted requests; one response per request -/
def authRun {S : Type} (auth : AReq → Except AResp AReq) (step : S → AReq → S × AResp) :
    S → List AReq → S × List AResp × List AReq
  | s, [] => (s, [], [])
  | s, r :: rs =>
    match auth r with
    | .ok r' =>
      let (s', resp) := step s r'
      let (sf, resps, seen) := authRun auth step s' rs
      (sf, resp :: resps, r' :: seen)
    | .error e =>
      let (sf, resps, seen) := authRun auth step s rs
      (sf, e :: resps, seen)

/-- the requests of a history the authorizer accepts (as it passes them on) -/
def accepted (auth : AReq → Except AResp AReq) : List AReq → List AReq
  | [] => []
  | r :: rs => match auth r with
    | .ok r' => r' :: accepted auth rs
    | .error _ => accepted auth rs


/-! ## Inflight limit -/
structure PeerSlots where
  running : List Nat := []
  waiting : List Nat := []      -- FIFO, oldest first
  deriving DecidableEq, Repr

structure Inflight where
  limit : Nat
  block : Bool
  peers : Nat → PeerSlots := fun _ => {}

inductive IOp where
  | arrive (r : Nat) (p : Option Nat)
  | finish (r : Nat) (p : Nat)      -- the inner call of `r` completed (ok or error alike)
  | cancel (r : Nat) (p : Nat)      -- the caller dropped the future of `r` (waiting or running)
  deriving DecidableEq, Repr

inductive IOut where
  | started (r : Nat)
  | queued (r : Nat)
  | refused (r : Nat)       -- TooManyRequests, inner service not called
  | noPeer (r : Nat)        -- InternalServerError, inner service not called
  | none
  deriving DecidableEq, Repr

def setPeer (s : Inflight) (p : Nat) (x : PeerSlots) : Inflight :=
  { s with peers := fun q => if q = p then x else s.peers q }

/-- hand free slots to waiters, oldest first, until the limit is reached (tokio's semaphore is FIFO) -/
def promote (limit : Nat) (running : List Nat) : List Nat → PeerSlots × List Nat
  | [] => ({ running := running, waiting := [] }, [])
  | w :: ws =>
    if running.length < limit then
      let r := promote limit (running ++ [w]) ws
      (r.1, w :: r.2)
    else ({ running := running, waiting := w :: ws }, [])

/-- returns the new state, the immediate outcome for the op's request, and the requests that start as a consequence -/
def Inflight.step (s : Inflight) : IOp → Inflight × IOut × List Nat
  | .arrive r none => (s, .noPeer r, [])
  | .arrive r (some p) =>
    let x := s.peers p
    if s.block then
      let pr := promote s.limit x.running (x.waiting ++ [r])
      (setPeer s p pr.1, (if r ∈ pr.2 then .started r else .queued r), pr.2)
    else if x.running.length < s.limit then (setPeer s p { x with running := x.running ++ [r] }, .started r, [r])
    else (s, .refused r, [])
  | .finish r p | .cancel r p =>
    let x := s.peers p
    let pr := promote s.limit (x.running.filter (· ≠ r)) (x.waiting.filter (· ≠ r))
    (setPeer s p pr.1, .none, pr.2)

def Inflight.run (s : Inflight) (ops : List IOp) : Inflight := ops.foldl (fun s op => (s.step op).1) s

/-- requests of peer `p` that have arrived (and were not refused outright) and have not ended yet,
according to the op history alone -/
def pendingOf (p : Nat) (block : Bool) : List IOp → List Nat → List Nat
  | [], acc => acc
  | .arrive r (some q) :: t, acc => pendingOf p block t (if q = p then acc ++ [r] else acc)
  | .arrive _ none :: t, acc => pendingOf p block t acc
  | .finish r q :: t, acc => pendingOf p block t (if q = p then acc.filter (· ≠ r) else acc)
  | .cancel r q :: t, acc => pendingOf p block t (if q = p then acc.filter (· ≠ r) else acc)

/-! ## GCRA rate limit (times in nanoseconds) -/
structure Gcra where
  t : Nat          -- replenish one cell per `t`
  burst : Nat

def Gcra.tau (g : Gcra) : Nat := g.t * g.burst

/-- one check at time `now` on a key whose state is `tat?`; returns (admitted, new state) -/
def Gcra.check (g : Gcra) (tat? : Option Nat) (now : Nat) : Bool × Option Nat :=
  let tat := tat?.getD (now + g.t)
  if now < tat - g.tau then (false, tat?) else (true, some (max tat now + g.t))

/-- the earliest instant a refused call would have been admitted -/
def Gcra.earliest (g : Gcra) (tat? : Option Nat) (now : Nat) : Nat := (tat?.getD (now + g.t)) - g.tau

/-- decisions for a sequence of calls at the given times (one key) -/
def Gcra.runCount (g : Gcra) : Option Nat → List Nat → Nat
  | _, [] => 0
  | st, x :: xs =>
    let r := g.check st x
    (if r.1 then 1 else 0) + g.runCount r.2 xs

/-- wait hint of the ReturnError mode: `earliest - now'` where `now'` is a second, later clock read -/
def Gcra.hint (g : Gcra) (tat? : Option Nat) (now now' : Nat) : Nat := g.earliest tat? now - now'

/-- interval-sound acceptor for real-time runs: the state is only known to lie in `[lo, hi]`
(`none` = key not seen yet) and the instant of a call only to lie in `[a, b]`.  Returns the new
state interval, or `none` if NO exact run is compatible with the observed decision. -/
def Gcra.accept (g : Gcra) (st : Option (Nat × Nat)) (a b : Nat) (admitted : Bool) : Option (Option (Nat × Nat)) :=
  match st with
  | none => if admitted then some (some (a + g.t + g.t, b + g.t + g.t)) else (if g.burst = 0 then some none else none)
  | some (lo, hi) =>
    if admitted then
      (if b + g.tau ≥ lo then some (some (max lo a + g.t, max (min hi (b + g.tau)) b + g.t)) else none)
    else
      (if a + g.tau < hi then some (some (max lo (a + g.tau + 1), hi)) else none)

end Anemo
