/- UTF-8 validity exactly as Rust's `str::from_utf8` / `String` enforce it (RFC 3629: no overlong
forms, no surrogates, nothing above U+10FFFF).  Decoders of `String` fields reject anything else.
Written as a fold of a small automaton so that it is structurally recursive (kernel-reducible). -/
import AnemoModel.Basic
namespace Anemo

inductive U8St where
  | start
  | cont (n : Nat) (lo hi : UInt8)   -- `n` more bytes expected, the next one within [lo, hi]
  | bad
  deriving DecidableEq, Repr

def utf8Step : U8St → UInt8 → U8St
  | .bad, _ => .bad
  | .start, b =>
    if b < 0x80 then .start
    else if 0xC2 ≤ b && b ≤ 0xDF then .cont 1 0x80 0xBF
    else if b == 0xE0 then .cont 2 0xA0 0xBF
    else if (0xE1 ≤ b && b ≤ 0xEC) || b == 0xEE || b == 0xEF then .cont 2 0x80 0xBF
    else if b == 0xED then .cont 2 0x80 0x9F
    else if b == 0xF0 then .cont 3 0x90 0xBF
    else if 0xF1 ≤ b && b ≤ 0xF3 then .cont 3 0x80 0xBF
    else if b == 0xF4 then .cont 3 0x80 0x8F
    else .bad
  | .cont n lo hi, b =>
    if lo ≤ b && b ≤ hi then (if n ≤ 1 then .start else .cont (n - 1) 0x80 0xBF) else .bad

def validUtf8 (bs : Bytes) : Bool :=
  match bs.foldl utf8Step .start with
  | .start => true
  | _ => false

end Anemo
