/-
One RPC end to end at the byte level (crates/anemo/src/network/peer.rs `do_rpc` and
network/request_handler.rs `do_handle`): the caller frames the request with its own limit, the
callee reads it with its limit, the handler's response is framed with the callee's limit and read
with the caller's.  The stream is a reliable ordered byte pipe (QUIC, trusted).
-/
import AnemoModel.Wire
namespace Anemo
open Gen

inductive RpcErr where
  | callerSend (e : WireErr)   -- refused by the sender before the oversized frame is written
  | calleeRecv (e : WireErr)   -- refused by the receiver on arrival; the callee drops the stream
  | calleeSend (e : WireErr)
  | callerRecv (e : WireErr)
  deriving DecidableEq, Repr

def rpcRoundTrip (cm sm : Nat) (req : Req) (handler : Req → Resp) : Except RpcErr Resp :=
  match encodeRequest cm req with
  | .error e => .error (.callerSend e)
  | .ok bytes =>
    match decodeRequest sm bytes with
    | .error e => .error (.calleeRecv e)
    | .ok (req', _) =>
      match encodeResponse sm (handler req') with
      | .error e => .error (.calleeSend e)
      | .ok rbytes =>
        match decodeResponse cm rbytes with
        | .error e => .error (.callerRecv e)
        | .ok (resp, _) => .ok resp

/-- length-only view used by the line protocol for large messages -/
inductive SizeOutcome where
  | ok | callerSend | calleeRecv | calleeSend | callerRecv
  deriving DecidableEq, Repr

def rpcSizeOutcome (cm sm rh rb sh sb : Nat) : SizeOutcome :=
  if rh > cm ∨ rb > cm then .callerSend
  else if rh > sm ∨ rb > sm then .calleeRecv
  else if sh > sm ∨ sb > sm then .calleeSend
  else if sh > cm ∨ sb > cm then .callerRecv
  else .ok

/-- length-only view of the writer: bytes put on the stream, and whether it refused -/
def sizeWrite (max hl bl : Nat) : Nat × Bool :=
  if hl ≤ max then
    if bl ≤ max then (8 + (4 + hl) + (4 + bl), true) else (8 + (4 + hl), false)
  else (8, false)

/-- length-only view of the reader on a well-formed stream -/
def sizeRead (max hl bl : Nat) : Bool := hl ≤ max && bl ≤ max

/-- header-frame length of a request with the given route length and header entry lengths -/
def reqHeaderLen (routeLen : Nat) (entries : List (Nat × Nat)) : Nat :=
  8 + routeLen + 8 + (entries.map fun e => 8 + e.1 + 8 + e.2).sum

def respHeaderLen (entries : List (Nat × Nat)) : Nat :=
  2 + 8 + (entries.map fun e => 8 + e.1 + 8 + e.2).sum

end Anemo
