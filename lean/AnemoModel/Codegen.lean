/-
Typed RPC plumbing: the routes the generated client and server use (regenerated from
crates/anemo-build/src/{client,server}.rs: `Gen.clientPathGen`, `Gen.serverPathGen`,
`Gen.serviceNameGen`, and the router prefix `Gen.rpcRoutePatternGen` of `add_rpc_service`), the
Status <-> Response mapping (crates/anemo/src/rpc/mod.rs), and the unary client/server outcome
functions over abstract codecs.
-/
import AnemoModel.Wire
import AnemoModel.Routing
namespace Anemo
open Gen

structure Status where
  code : StatusCode
  message : Option Bytes
  headers : Headers
  deriving DecidableEq, Repr

/-- `HashMap::extend` then `insert` -/
def extendHeaders (base : Headers) (hs : Headers) : Headers := hs.foldl (fun a kv => hInsert a kv.1 kv.2) base

/-- `impl IntoResponse for Status` -/
def Status.intoResponse (s : Status) : Resp :=
  let h := extendHeaders [] s.headers
  { status := s.code, body := [],
    headers := match s.message with
      | some m => hInsert h headerStatusMessage m
      | none => h }

/-- `Status::from_response` -/
def Status.fromResponse (r : Resp) : Status :=
  { code := r.status, message := hLookup r.headers headerStatusMessage, headers := r.headers }

inductive Outcome (α : Type) where
  | ok (m : α)
  | err (s : Status)

/-- `client::Rpc::unary` after the transport returned `r`: a success status with a decodable body is
the only way to `ok` -/
def clientUnary {α : Type} (dec : Bytes → Option α) (r : Resp) : Outcome α :=
  if r.status.isSuccess then
    match dec r.body with
    | some m => .ok m
    | none => .err { code := .Unknown, message := some [], headers := [] }   -- Status::from_error
  else .err (Status.fromResponse r)

/-- `server::Rpc::unary`: returns the response and how many times the handler ran -/
def serverUnary {α β : Type} (dec : Bytes → Option α) (enc : β → Option Bytes)
    (handler : α → Except Status (Headers × β)) (contentType : Bytes) (body : Bytes) : Resp × Nat :=
  match dec body with
  | none => ((Status.mk .Unknown (some []) []).intoResponse, 0)
  | some m =>
    match handler m with
    | .error s => (s.intoResponse, 1)
    | .ok (h, out) =>
      match enc out with
      | some bytes => ({ status := .Success, headers := hInsert h headerContentType contentType, body := bytes }, 1)
      | none => ((Status.mk .InternalServerError (some []) []).intoResponse, 1)

/-- what the generated client method does to the request it is handed before it calls the transport
(`*request.route_mut() = <path>.into()`, unconditionally: pinned by the translator) -/
def clientStamp (pkg svc m : Bytes) (req : Req) : Req := { req with route := clientPathGen pkg svc m }

end Anemo
