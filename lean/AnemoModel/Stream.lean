/-
The serving side of one RPC stream (crates/anemo/src/network/request_handler.rs,
`BiStreamRequestHandler::do_handle`) as a step machine over stream events, the connection as a
family of independent stream machines, and the connection handler loop.
QUIC streams are reliable ordered byte pipes with FIN / RESET / STOP_SENDING signals (trusted).
-/
import AnemoModel.Wire
namespace Anemo
open Gen

inductive SrvEvent where
  | data (bs : Bytes)          -- request bytes arrive
  | fin                        -- the caller finished its send side
  | reset                      -- the caller reset its send side (dropped the request unfinished)
  | stopSending                -- the caller stopped its receive side (dropped the response reader)
  | readAll                    -- the caller read the whole response (or acknowledged it)
  | handlerDone (r : Resp)     -- the user's handler produced its answer
  deriving Repr

inductive SrvAction where
  | invoke (r : Req)
  | dropHandler
  | write (bs : Bytes)
  | finish
  | resetSend                  -- our send side is dropped unfinished: RESET_STREAM to the caller
  | ended (ok : Bool)
  deriving Repr

inductive SrvPhase where
  | reading (buf : Bytes) (stopPending : Bool)   -- STOP_SENDING may arrive before the request is complete
  | handling
  | flushing                   -- response written and finished, waiting for the caller to take it
  | over
  deriving DecidableEq, Repr

/-- errors that only mean "the stream has not delivered enough bytes yet" -/
def WireErr.needsMore : WireErr → Bool
  | .earlyEof | .unexpectedEof | .bytesRemaining => true
  | _ => false

/-- `pollHandlerFirst` is the scheduler's choice in the one racy situation: the request completes
when the caller has already stopped the response direction; `tokio::select!` then polls either the
handler (which calls the service once before being dropped) or the stop signal first. -/
def Srv.step (max : Nat) (pollHandlerFirst : Bool) : SrvPhase → SrvEvent → SrvPhase × List SrvAction
  | .reading buf sp, .data bs =>
    let buf' := buf ++ bs
    match decodeRequest max buf' with
    | .ok (r, _) =>
      if sp then
        (.over, (if pollHandlerFirst then [.invoke r, .dropHandler] else []) ++ [.resetSend, .ended false])
      else (.handling, [.invoke r])
    | .error e => if e.needsMore then (.reading buf' sp, []) else (.over, [.resetSend, .ended false])
  | .reading _ _, .fin => (.over, [.resetSend, .ended false])          -- truncated request
  | .reading _ _, .reset => (.over, [.resetSend, .ended false])
  | .reading buf _, .stopSending => (.reading buf true, [])
  | .reading buf sp, _ => (.reading buf sp, [])
  | .handling, .stopSending => (.over, [.dropHandler, .resetSend, .ended false])
  | .handling, .handlerDone r =>
    match encodeResponse max r with
    | .ok bs => (.flushing, [.write bs, .finish])
    | .error _ => (.over, [.resetSend, .ended false])
  | .handling, _ => (.handling, [])
  | .flushing, .stopSending => (.over, [.ended true])
  | .flushing, .readAll => (.over, [.ended true])
  | .flushing, _ => (.flushing, [])
  | .over, _ => (.over, [])

def Srv.run (max : Nat) (sched : Bool) : SrvPhase → List SrvEvent → SrvPhase × List SrvAction
  | p, [] => (p, [])
  | p, e :: es =>
    let r1 := Srv.step max sched p e
    let r2 := Srv.run max sched r1.1 es
    (r2.1, r1.2 ++ r2.2)

def isInvoke : SrvAction → Bool
  | .invoke _ => true
  | _ => false

/-! ### a connection: independent stream machines -/
structure ConnState where
  streams : Nat → SrvPhase := fun _ => .reading [] false

def Conn.step (max : Nat) (c : ConnState) (sid : Nat) (e : SrvEvent) : ConnState × List SrvAction :=
  let r := Srv.step max true (c.streams sid) e
  ({ streams := fun j => if j = sid then r.1 else c.streams j }, r.2)

def Conn.run (max : Nat) : ConnState → List (Nat × SrvEvent) → ConnState
  | c, [] => c
  | c, (sid, e) :: es => Conn.run max (Conn.step max c sid e).1 es

/-- the actions of a whole connection history, each tagged with its stream -/
def Conn.trace (max : Nat) : ConnState → List (Nat × SrvEvent) → List (Nat × SrvAction)
  | _, [] => []
  | c, (sid, e) :: es =>
    let r := Conn.step max c sid e
    r.2.map (fun a => (sid, a)) ++ Conn.trace max r.1 es

/-! ### the connection handler loop: what a remote peer can make it see -/
inductive LoopEvent where
  | uniStream            -- an unsolicited unidirectional stream: logged and dropped
  | datagram             -- an application datagram: logged and dropped
  | biStream (sid : Nat) -- a new request stream: a task is spawned for it
  | taskDone (sid : Nat) -- a request task ended (ok or with an error)
  | connError            -- the connection was closed / lost
  deriving Repr

inductive LoopOutcome where
  | serving
  | exited               -- remove the peer, abort in-flight request tasks
  deriving DecidableEq, Repr

def Loop.step : LoopOutcome → LoopEvent → LoopOutcome
  | .exited, _ => .exited
  | .serving, .connError => .exited
  | .serving, _ => .serving

/-! ### the calling side and stream credit (C12) -/
inductive CliPhase where
  | sending | awaiting | finished | abandoned
  deriving DecidableEq, Repr

/-- what abandoning a call signals to the remote, by phase -/
def abandonSignals : CliPhase → List SrvEvent
  | .sending => [.reset, .stopSending]          -- SendStream wrapper resets on drop; RecvStream drop stops
  | .awaiting => [.stopSending]                 -- request already finished
  | _ => []

structure Credit where
  max : Nat
  open_ : Nat           -- streams currently counted against the peer's concurrent-stream limit

def Credit.openStream (c : Credit) : Option Credit := if c.open_ < c.max then some { c with open_ := c.open_ + 1 } else none
def Credit.closeStream (c : Credit) : Credit := { c with open_ := c.open_ - 1 }

end Anemo
