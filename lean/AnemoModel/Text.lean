/- Text helpers for the line protocol (hex, key=value arguments, canonical sorting). Core only. -/
import AnemoModel.Basic
namespace Anemo

def hexDigit (n : Nat) : Char := if n < 10 then Char.ofNat (48 + n) else Char.ofNat (87 + n)

def toHex (bs : Bytes) : String :=
  if bs.isEmpty then "-" else
  String.ofList (bs.foldr (fun b acc => hexDigit (b.toNat / 16) :: hexDigit (b.toNat % 16) :: acc) [])

def hexVal (c : Char) : Option Nat :=
  if '0' ≤ c ∧ c ≤ '9' then some (c.toNat - 48)
  else if 'a' ≤ c ∧ c ≤ 'f' then some (c.toNat - 87)
  else none

def fromHexChars : List Char → Option Bytes
  | [] => some []
  | a :: b :: rest => do
    let x ← hexVal a
    let y ← hexVal b
    let r ← fromHexChars rest
    pure (UInt8.ofNat (x * 16 + y) :: r)
  | _ => none

def fromHex (s : String) : Option Bytes := if s == "-" then some [] else fromHexChars s.toList

/-- big-endian natural number of a byte string (order-preserving for equal lengths) -/
def bytesToNat (bs : Bytes) : Nat := bs.foldl (fun acc b => acc * 256 + b.toNat) 0

def bytesLt : Bytes → Bytes → Bool
  | [], [] => false
  | [], _ :: _ => true
  | _ :: _, [] => false
  | a :: as, b :: bs => if a < b then true else if b < a then false else bytesLt as bs

def insertSorted (lt : α → α → Bool) (x : α) : List α → List α
  | [] => [x]
  | y :: ys => if lt x y then x :: y :: ys else y :: insertSorted lt x ys

def sortBy (lt : α → α → Bool) (l : List α) : List α := l.foldr (insertSorted lt) []

/-- arguments `k=v` of a line (after the command word) -/
def parseArgs (toks : List String) : List (String × String) :=
  toks.filterMap fun t =>
    match t.splitOn "=" with
    | k :: rest@(_ :: _) => some (k, "=".intercalate rest)
    | _ => none

def arg (args : List (String × String)) (k : String) : Option String := (args.find? (·.1 == k)).map (·.2)

def argNat (args : List (String × String)) (k : String) : Option Nat := (arg args k).bind String.toNat?
def argHex (args : List (String × String)) (k : String) : Option Bytes := (arg args k).bind fromHex
/-- optional natural: `none` or a number -/
def argOptNat (args : List (String × String)) (k : String) : Option (Option Nat) :=
  match arg args k with
  | some "none" => some none
  | some s => s.toNat?.map some
  | none => none

end Anemo
