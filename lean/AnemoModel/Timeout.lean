/-
Request deadlines (crates/anemo/src/middleware/timeout/{mod,inbound,outbound}.rs, types/request.rs,
network/mod.rs wiring).  Times in nanoseconds.  `parseU64` is Rust's `u64::from_str`: an optional
leading '+', then at least one ASCII digit, nothing else, value < 2^64.
-/
import AnemoModel.Wire
namespace Anemo
open Gen

def isDigit (b : UInt8) : Bool := 0x30 ≤ b && b ≤ 0x39

/-- value of a digit string (most significant first), `none` on a non-digit -/
def parseDigits : List UInt8 → Nat → Option Nat
  | [], acc => some acc
  | b :: rest, acc => if isDigit b then parseDigits rest (acc * 10 + (b.toNat - 0x30)) else none

def stripPlus : Bytes → Bytes
  | 0x2b :: rest => rest
  | s => s

def parseU64Digits (ds : Bytes) : Option Nat :=
  match ds with
  | [] => none
  | _ =>
    match parseDigits ds 0 with
    | some v => if v < 2^64 then some v else none
    | none => none

def parseU64 (s : Bytes) : Option Nat := parseU64Digits (stripPlus s)

/-- the `timeout` header as the layers read it: absent or unparsable = no request timeout -/
def headerTimeout (hdr : Option Bytes) : Option Nat := hdr.bind parseU64

/-- "use the shorter of the two durations, if either are set" -/
def effective (default? request? : Option Nat) : Option Nat :=
  match request?, default? with
  | none, none => none
  | some r, none => some r
  | none, some d => some d
  | some r, some d => some (min r d)

/-- decimal digits of `n`, most significant first (`fuel` ≥ number of digits) -/
def toDecAux : Nat → Nat → List UInt8 → List UInt8
  | 0, _, acc => acc
  | fuel+1, n, acc =>
    if n < 10 then UInt8.ofNat (0x30 + n) :: acc
    else toDecAux fuel (n / 10) (UInt8.ofNat (0x30 + n % 10) :: acc)

def toDec (n : Nat) : List UInt8 := toDecAux (n + 1) n []

/-- `duration_to_timeout`: nanoseconds saturated to u64, in decimal -/
def durationToHeader (nanos : Nat) : Bytes := toDec (min nanos (2^64 - 1))

inductive Served where
  | answered                 -- the handler's own answer
  | cutOff                   -- stopped at the deadline
  deriving DecidableEq, Repr

/-- race between a handler needing `d` and an optional deadline (equality is left unspecified by the
property; the model resolves it as the code does when polled once: the inner future first) -/
def race (deadline? : Option Nat) (d : Nat) : Served :=
  match deadline? with
  | none => .answered
  | some dl => if d ≤ dl then .answered else .cutOff

inductive E2E where
  | answered          -- normal answer reaches the caller
  | calleeCutOff      -- callee replies RequestTimeout and drops the handler
  | callerTimeout     -- caller returns a timeout error
  deriving DecidableEq, Repr

/-- one RPC through a network: caller's outbound layer (its outbound default, the header) around the
wire around the callee's inbound layer (its inbound default, the same header) -/
def endToEnd (outDefault inDefault : Option Nat) (hdr : Option Bytes) (d : Nat) : E2E :=
  let eOut := effective outDefault (headerTimeout hdr)
  let eIn := effective inDefault (headerTimeout hdr)
  match race eIn d, eOut with
  | .answered, none => .answered
  | .answered, some o => if d ≤ o then .answered else .callerTimeout
  | .cutOff, none => .calleeCutOff
  | .cutOff, some o => match eIn with
    | some i => if i ≤ o then .calleeCutOff else .callerTimeout
    | none => .callerTimeout

end Anemo
