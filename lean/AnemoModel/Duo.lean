/-
Two nodes A and B that dial each other (C05).  `c1` is the connection dialled by A, `c2` the one
dialled by B.  Each node runs the real `Active` operations; the only coupling is that a connection
closed by either side is closed for both, after which the handler that serves it on a side that had
registered it may exit (`exit`), calling `removeStable` with that connection's id.
Adds may happen in any order and the loser's adds may not happen at all.
-/
import AnemoModel.Peers
namespace Anemo

inductive CName where | c1 | c2
  deriving DecidableEq, Repr
inductive Side where | A | B
  deriving DecidableEq, Repr

def cid : CName → Nat
  | .c1 => 1
  | .c2 => 2

structure Duo where
  aId : Nat
  bId : Nat
  a : Active := {}
  b : Active := {}
  offered : List (Side × CName) := []
  kept : List (Side × CName) := []
  exited : List (Side × CName) := []
  deriving DecidableEq, Repr

def Duo.connAt (d : Duo) : Side → CName → Conn
  | .A, .c1 => ⟨1, d.bId, .outbound⟩
  | .A, .c2 => ⟨2, d.bId, .inbound⟩
  | .B, .c1 => ⟨1, d.aId, .inbound⟩
  | .B, .c2 => ⟨2, d.aId, .outbound⟩

def Duo.closedAny (d : Duo) (c : CName) : Bool := decide (cid c ∈ d.a.closed) || decide (cid c ∈ d.b.closed)

inductive DAct where
  | add (s : Side) (c : CName)
  | exit (s : Side) (c : CName)
  deriving DecidableEq, Repr

def allActs : List DAct :=
  [.add .A .c1, .add .A .c2, .add .B .c1, .add .B .c2, .exit .A .c1, .exit .A .c2, .exit .B .c1, .exit .B .c2]

def Duo.enabled (d : Duo) : DAct → Bool
  | .add s c => !decide ((s, c) ∈ d.offered)
  | .exit s c => decide ((s, c) ∈ d.kept) && !decide ((s, c) ∈ d.exited) && d.closedAny c

/-- one action; `r` is the reason a handler reports when it exits -/
def Duo.stepR (d : Duo) (r : Reason) : DAct → Duo
  | .add .A c =>
    let r := d.a.add d.aId (d.connAt .A c)
    { d with a := r.1, offered := (.A, c) :: d.offered, kept := if r.2 then (.A, c) :: d.kept else d.kept }
  | .add .B c =>
    let r := d.b.add d.bId (d.connAt .B c)
    { d with b := r.1, offered := (.B, c) :: d.offered, kept := if r.2 then (.B, c) :: d.kept else d.kept }
  | .exit .A c => { d with a := d.a.removeStable d.bId (cid c) r, exited := (.A, c) :: d.exited }
  | .exit .B c => { d with b := d.b.removeStable d.aId (cid c) r, exited := (.B, c) :: d.exited }

def Duo.step (d : Duo) (act : DAct) : Duo := d.stepR .applicationClosed act

/-- every state reachable within `fuel` enabled actions -/
def Duo.reach : Nat → Duo → List Duo
  | 0, d => [d]
  | fuel+1, d => d :: (allActs.filter d.enabled).flatMap (fun act => Duo.reach fuel (d.step act))

/-- the connection that must survive: the one dialled by the greater id -/
def Duo.winner (d : Duo) : CName := if d.aId < d.bId then .c2 else .c1

def Duo.quiet (d : Duo) : Bool :=
  decide ((Side.A, d.winner) ∈ d.offered) && decide ((Side.B, d.winner) ∈ d.offered) &&
  !(allActs.any fun act => match act with | .exit _ _ => d.enabled act | _ => false)

def lastIsNew (log : List Event) (p : PeerId) : Bool :=
  match log.getLast? with
  | some (.newPeer q) => q == p
  | _ => false

/-- what "converged" means at a quiet state -/
def Duo.converged (d : Duo) : Bool :=
  let w := cid d.winner
  d.a.peers == [d.bId] && d.b.peers == [d.aId] &&
  (lookupConn d.a.conns d.bId).map (·.id) == some w &&
  (lookupConn d.b.conns d.aId).map (·.id) == some w &&
  !decide (w ∈ d.a.closed) && !decide (w ∈ d.b.closed) &&
  lastIsNew d.a.log d.bId && lastIsNew d.b.log d.aId

end Anemo
