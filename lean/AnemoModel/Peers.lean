/-
Model of the active-peer set (crates/anemo/src/network/connection_manager.rs: ActivePeersInner
{add, remove, remove_with_stable_id, subscribe, peers} and simultaneous_dial_tie_breaking) with
its event log.  Every operation of the real set runs under one write lock, so an operation is one
atomic step here.  Peer ids are natural numbers (the 32-byte id read big-endian: same order).
The listing is kept in insertion order and a replacement re-inserts, so that the listing is
literally the replay of the event log (`replayStrict`).
-/
import AnemoModel.Gen.Tables
namespace Anemo
open Gen

abbrev PeerId := Nat

structure Conn where
  id : Nat            -- connection identity (stable id), fresh per connection
  peer : PeerId
  origin : Origin
  deriving DecidableEq, Repr

inductive Reason where
  | requested | versionMismatch | transportError | connectionClosed
  | applicationClosed | reset | timedOut | locallyClosed
  deriving DecidableEq, Repr

inductive Event where
  | newPeer (p : PeerId)
  | lostPeer (p : PeerId) (r : Reason)
  deriving DecidableEq, Repr

/-- `true` = drop the existing connection, `false` = drop the new one -/
def tieBreak (own remote : PeerId) (existing new : Origin) : Bool :=
  match existing, new with
  | .inbound, .inbound => true
  | .outbound, .outbound => true
  | .inbound, .outbound => decide (remote < own)
  | .outbound, .inbound => decide (own < remote)

structure Active where
  conns : List (PeerId × Conn) := []
  log : List Event := []
  closed : List Nat := []       -- connections this set has closed
  added : List Nat := []        -- ghost: every connection ever offered to `add`
  deriving DecidableEq, Repr

def lookupConn (l : List (PeerId × Conn)) (p : PeerId) : Option Conn :=
  match l with
  | [] => none
  | (q, c) :: t => if q = p then some c else lookupConn t p

def eraseConn (l : List (PeerId × Conn)) (p : PeerId) : List (PeerId × Conn) :=
  l.filter (fun e => e.1 ≠ p)

def Active.peers (s : Active) : List PeerId := s.conns.map (·.1)

/-- returns the new state and whether the new connection was kept (`Some`) or dropped (`None`) -/
def Active.add (own : PeerId) (c : Conn) (s : Active) : Active × Bool :=
  match lookupConn s.conns c.peer with
  | none =>
    ({ s with conns := s.conns ++ [(c.peer, c)], log := s.log ++ [.newPeer c.peer], added := s.added ++ [c.id] }, true)
  | some old =>
    if tieBreak own c.peer old.origin c.origin then
      ({ conns := eraseConn s.conns c.peer ++ [(c.peer, c)],
         log := s.log ++ [.lostPeer c.peer .requested, .newPeer c.peer],
         closed := s.closed ++ [old.id], added := s.added ++ [c.id] }, true)
    else
      ({ s with closed := s.closed ++ [c.id], added := s.added ++ [c.id] }, false)

def Active.remove (p : PeerId) (r : Reason) (s : Active) : Active :=
  match lookupConn s.conns p with
  | none => s
  | some c => { s with conns := eraseConn s.conns p, log := s.log ++ [.lostPeer p r], closed := s.closed ++ [c.id] }

def Active.removeStable (p : PeerId) (id : Nat) (r : Reason) (s : Active) : Active :=
  match lookupConn s.conns p with
  | none => s
  | some c => if c.id = id then s.remove p r else s

inductive Op where
  | add (c : Conn)
  | remove (p : PeerId) (r : Reason)
  | removeStable (p : PeerId) (id : Nat) (r : Reason)
  deriving DecidableEq, Repr

def Active.step (own : PeerId) (s : Active) : Op → Active
  | .add c => (s.add own c).1
  | .remove p r => s.remove p r
  | .removeStable p id r => s.removeStable p id r

def Active.run (own : PeerId) (s : Active) (ops : List Op) : Active := ops.foldl (Active.step own) s

/-- strict replay of an event list over a listing: NewPeer of a listed peer or LostPeer of an
unlisted one is an error (that is what "strictly alternate" means) -/
def replayStrict : List PeerId → List Event → Option (List PeerId)
  | l, [] => some l
  | l, .newPeer p :: es => if p ∈ l then none else replayStrict (l ++ [p]) es
  | l, .lostPeer p _ :: es => if p ∈ l then replayStrict (l.filter (· ≠ p)) es else none

/-- ids of the connections added by an op list -/
def addedIds : List Op → List Nat
  | [] => []
  | .add c :: t => c.id :: addedIds t
  | _ :: t => addedIds t

/-- the peer an operation is about -/
def Op.peer : Op → PeerId
  | .add c => c.peer
  | .remove p _ => p
  | .removeStable p _ _ => p

def Event.peer : Event → PeerId
  | .newPeer p => p
  | .lostPeer p _ => p

/-- the events about peer `q` -/
def eventsOf (q : PeerId) (l : List Event) : List Event := l.filter (fun e => e.peer = q)

end Anemo
