/-
A node = its active-peer set + its connection-handler tasks (connection_manager.rs `add_peer`,
request_handler.rs `start`): a handler is spawned for exactly the connection `add` keeps, and removes
its own entry (by stable id) when its connection ends.
-/
import AnemoModel.Peers
namespace Anemo

structure Node where
  active : Active := {}
  handlers : List Conn := []      -- running handler tasks, by the connection they serve
  deriving Repr

inductive NodeOp where
  /-- a connection (fresh id) has been established, inbound or outbound -/
  | established (c : Conn)
  /-- the handler of connection `id` observes the end of its connection and exits -/
  | handlerExit (id : Nat) (r : Reason)
  /-- `Network::disconnect` -/
  | disconnect (p : PeerId)
  deriving Repr

def Node.step (own : PeerId) (n : Node) : NodeOp → Node
  | .established c =>
    let (a, kept) := n.active.add own c
    { active := a, handlers := if kept then n.handlers ++ [c] else n.handlers }
  | .handlerExit id r =>
    match n.handlers.find? (·.id = id) with
    | none => n
    | some c => { active := n.active.removeStable c.peer id r, handlers := n.handlers.filter (·.id ≠ id) }
  | .disconnect p => { n with active := n.active.remove p .requested }

def Node.run (own : PeerId) (n : Node) (ops : List NodeOp) : Node := ops.foldl (Node.step own) n

/-- ids of the connections offered so far are fresh -/
def NodeOp.freshFor (n : Node) : NodeOp → Prop
  | .established c => c.id ∉ n.active.added
  | _ => True

end Anemo
