/-
`ActivePeersInner::add` as the SOURCE spells it: the translator (tools/gen.py, item `registry`) reads
the statements of each arm of the function and emits them as effect lists (`Gen.addWinEffs`, ...);
`Active.addGen` runs them.  `Props/C04.lean` proves `addGen = add`, so every theorem about the
hand-written `Active.add` is a theorem about what the source does, and a change to an arm (a
dropped `close()`, a missing event, another order) breaks that proof.
-/
import AnemoModel.Peers
namespace Anemo

/-- run a list of effects; a `ret*` ends the run with that result -/
def runAddEffs (c : Conn) (old : Option Conn) : Active → List AddEff → Active × Option Bool
  | s, [] => (s, none)
  | s, .insertNew :: t => runAddEffs c old { s with conns := eraseConn s.conns c.peer ++ [(c.peer, c)] } t
  | s, .closeOld :: t => runAddEffs c old { s with closed := s.closed ++ (old.map (·.id)).toList } t
  | s, .closeNew :: t => runAddEffs c old { s with closed := s.closed ++ [c.id] } t
  | s, .emitLostRequested :: t => runAddEffs c old { s with log := s.log ++ [.lostPeer c.peer .requested] } t
  | s, .emitNew :: t => runAddEffs c old { s with log := s.log ++ [.newPeer c.peer] } t
  | s, .retNone :: _ => (s, some false)
  | s, .retSome :: _ => (s, some true)

/-- `add` as the source spells it: the arm chosen by the entry and the tie-break, then the common tail -/
def Active.addGen (own : PeerId) (c : Conn) (s : Active) : Active × Option Bool :=
  let s0 := { s with added := s.added ++ [c.id] }
  match lookupConn s.conns c.peer with
  | none => runAddEffs c none s0 (Gen.addVacantEffs ++ Gen.addTailEffs)
  | some old =>
    if Gen.tieBreakGen own c.peer old.origin c.origin then runAddEffs c (some old) s0 (Gen.addWinEffs ++ Gen.addTailEffs)
    else runAddEffs c (some old) s0 (Gen.addLoseEffs ++ Gen.addTailEffs)

theorem eraseConn_none (l : List (PeerId × Conn)) (p : PeerId) (h : lookupConn l p = none) : eraseConn l p = l := by
  induction l with
  | nil => rfl
  | cons e t ih =>
    obtain ⟨q, c⟩ := e
    simp only [lookupConn] at h
    by_cases hq : q = p
    · simp [hq] at h
    · simp only [hq, if_false] at h
      simp [eraseConn, hq]
      simpa [eraseConn] using ih h

end Anemo
