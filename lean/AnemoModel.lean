import AnemoModel.Basic
