#!/bin/sh
# MANIFEST.setup_cmd: build the framework once from files on disk (offline).
set -e
cd /verif
python3 tools/gen.py >/dev/null
(cd lean && lake build anemo_model AnemoModel)
cp -f /repo/Cargo.lock harness/Cargo.lock
(cd harness && CARGO_NET_OFFLINE=true cargo build --release --offline)
echo setup-ok
