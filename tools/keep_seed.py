#!/usr/bin/env python3
"""keep_seed.py <prop> <mutant-dir> <seed-name> <detected-by text>  -- copy a confirmed seeded change into /verif/seeded/"""
import json, os, shutil, sys
prop, mdir, name, detected = sys.argv[1:5]
dst = f'/verif/seeded/{name}'
os.makedirs(dst, exist_ok=True)
for f in ['patch.diff', 'demo.rs', 'demo.txt']:
    if os.path.exists(os.path.join(mdir, f)):
        shutil.copy(os.path.join(mdir, f), dst)
meta = json.load(open(os.path.join(mdir, 'meta.json')))
conf = open(os.path.join(mdir, 'confirm.log')).read().strip().split('\n')[-1] if os.path.exists(os.path.join(mdir, 'confirm.log')) else 'not confirmed'
out = {'property': prop, 'summary': meta.get('summary'), 'needs_to_manifest': meta.get('needs'), 'files': meta.get('files'),
       'author': 'independent sub-agent given only the property text and a scratch worktree',
       'confirmed_by_me': {'procedure': 'tools/confirm_mutant.sh in a scratch worktree: demo on clean tree, demo with patch, full existing suite with patch', 'result': conf},
       'check_result': detected}
json.dump(out, open(os.path.join(dst, 'meta.json'), 'w'), indent=1)
print('kept', dst)
