#!/usr/bin/env python3
"""process_round.py <Cxx> <worktree> : for every out/mutant*/ of a sub-agent's worktree
   (1) re-confirm it (demo passes clean, fails with patch, suite passes with patch) in that worktree,
   (2) apply it to /repo, run ./check Cxx --tier quick, undo.  Prints one summary line per mutant."""
import glob, json, os, re, subprocess, sys
pid, wt = sys.argv[1], sys.argv[2]
for m in sorted(glob.glob(os.path.join(wt, 'out', 'mutant*'))):
    name = os.path.basename(m)
    txt = open(os.path.join(m, 'demo.txt')).read() if os.path.exists(os.path.join(m, 'demo.txt')) else ''
    place = re.search(r'(crates/[\w\-/]+\.rs)', txt)
    cmd = re.search(r'(cargo test[^\n`]*)', txt)
    if not place or not cmd:
        print(f'{pid} {name}: cannot parse demo.txt'); continue
    place, cmd = place.group(1), cmd.group(1).strip()
    if '--offline' not in cmd:
        cmd += ' --offline'
    d = os.path.dirname(place)
    existed = os.path.isdir(os.path.join(wt, d))
    cleanup = f'rm -f {place}' if existed else f'rm -rf {d}'
    conf = '?'
    if not os.environ.get('CHECK_ONLY'):
        r = subprocess.run(['/verif/tools/confirm_mutant.sh', wt, m, f'mkdir -p {d} && cp {m}/demo.rs {place}', cmd, cleanup], capture_output=True, text=True)
        conf = (r.stdout.strip().split('\n') or ['?'])[-1]
    if os.environ.get('CONFIRM_ONLY'):
        print(f'{pid} {name}: {conf}'); continue
    if os.environ.get('CHECK_ONLY'):
        conf = '(confirmed separately)'
    t = subprocess.run(['/verif/tools/try_patch.sh', pid, os.path.join(m, 'patch.diff')], capture_output=True, text=True)
    lines = [l for l in t.stdout.split('\n') if l.strip()]
    verdict = 'CAUGHT' if any('VIOLATION' in l for l in lines) else ('MISSED' if any(l.startswith('OK') for l in lines) else 'ERR ' + ' '.join(lines)[:200])
    nf = any('no-failing-input-found' in l for l in lines)
    print(f'{pid} {name}: {conf} | check: {verdict}{" (no-failing-input-found)" if nf else ""} | {lines[0][:120] if lines else ""}')
