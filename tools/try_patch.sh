#!/bin/bash
# try_patch.sh <Cxx> <patch.diff> [tier]  -- apply a seeded change to /repo, run the property's check, undo.
P=$1; D=$2; T=${3:-quick}
cd /verif
if [ -n "$(git -C /repo status --porcelain)" ]; then echo "REPO-DIRTY"; exit 2; fi
git -C /repo apply "$D" || { echo "NOAPPLY"; exit 2; }
./check $P --tier $T 2>&1 | grep -E "VIOLATION|^OK|KNOWN" | cut -c1-220 | head -4
git -C /repo checkout -- .
git -C /repo status --porcelain | head -3
