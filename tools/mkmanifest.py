#!/usr/bin/env python3
"""Regenerate /verif/MANIFEST.json from tools/props.py (keeps it valid at all times)."""
import json, os, subprocess, sys
V = os.path.dirname(os.path.dirname(os.path.abspath(__file__)))
sys.path.insert(0, os.path.join(V, 'tools'))
from props import PROPS
ids = [json.loads(l)['id'] for l in open(os.path.join(V, 'properties.jsonl'))]
hooks = subprocess.run(['git', '-C', '/repo', 'log', '--format=%H %s', 'a9513f4..HEAD'], capture_output=True, text=True).stdout.strip().split('\n')
hook_commits = [h.split()[0] for h in hooks if 'verif hook' in h]
m = {
    'version': 1,
    'setup_cmd': 'cd /verif && ./setup.sh',
    'hooks': {
        'guard': 'bmwill_anemo_verif',
        'enable': 'rustc --cfg bmwill_anemo_verif, set by /verif/harness/.cargo/config.toml ([build] rustflags); the harness crate path-depends on /repo/crates/{anemo,anemo-tower,anemo-build}',
        'baseline_off_cmd': 'cd /repo && cargo test --workspace --no-fail-fast --offline',
        'source_commits': hook_commits,
        'add_only': True,
    },
    'engines': [
        {'name': 'lean-model', 'path': 'lean/', 'serves_properties': sorted(PROPS), 'kind_free_text': 'Lean 4 executable model + property theorems (lake project AnemoModel) and the compiled line-protocol driver anemo_model'},
        {'name': 'translator', 'path': 'tools/gen.py', 'serves_properties': sorted(PROPS), 'kind_free_text': 'regenerates lean/AnemoModel/Gen/Tables.lean from /repo on every run: tables and constants, decision functions, statement sequences of the core functions (as tag lists the Lean side interprets or pins), and shape checks of the functions the models transcribe'},
        {'name': 'harness', 'path': 'harness/', 'serves_properties': sorted(PROPS), 'kind_free_text': 'Rust correspondence harness calling the real code in-process with hooks on; emits op lines + implementation answers; property oracles'},
    ],
    'checks': [],
    'not_applicable': [],
    'notes': 'Every check is `./check <id>`; see DESIGN.md §7. Level `proof` = Lean theorems over a model tied to the code by a regenerated-table translator and a per-run correspondence check.',
}
for pid in ids:
    if pid in PROPS:
        c = PROPS[pid]
        m['checks'].append({
            'property_id': pid,
            'quick_cmd': f'./check {pid} --tier quick',
            'thorough_cmd': f'./check {pid} --tier thorough',
            'evidence_file': f'/verif/evidence/{pid}.json',
            'replay_cmd_template': f'./check {pid} --replay {{path}}',
            'engine': 'lean-model',
            'level_claimed': {'category': 'proof', 'text': c['level_text'], 'design_ref': f'DESIGN.md §8 {pid}'},
            'level_note': c['level_note'] + (' Translator items this property\'s theorems are stated over or pinned to (regenerated / re-checked against /repo on every run; one that no longer translates is reported as a broken tie): ' + ', '.join(c.get('gen_items', [])) + '.' if c.get('gen_items') else ' No translator item: the model is tied to the code by the correspondence run only.'),
            'technique': c['technique'],
        })
    else:
        m['not_applicable'].append({'property_id': pid, 'reason': 'check not built yet (work in progress; planned in DESIGN.md §8)'})
json.dump(m, open(os.path.join(V, 'MANIFEST.json'), 'w'), indent=1)
print('checks:', len(m['checks']), 'not_applicable:', len(m['not_applicable']))
